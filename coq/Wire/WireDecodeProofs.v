(* Wire/WireDecodeProofs.v -- C03: the decoder of Wire/WireModel.v (a model of
   protocol/deserialise.rs) is total, reports the message id in every error
   that can carry one, and accepts exactly the byte strings that the
   relational grammar of Wire/WireGrammar.v parses.

   Structure:
     1. cursor primitives on [at_offset bs p] (the cursor invariant
        crest c = skipn (cpos c) bs, cpos c <= |bs|)
     2. byte-level arithmetic by finite sweeps
     3. names: soundness, completeness (up to fuel), fuel bounds
     4. fields, RDATA, records, questions, sequences: soundness + completeness
     5. header
     6. decode_sound, decode_complete, decode_total, decode_err_id, decode_wf *)
From Coq Require Import ZArith.
From RV Require Import Base.Prelude Base.Cursor Name.NameModel Name.NameSpec
  Wire.WireTypes Wire.WireModel Wire.WireGrammar.
Open Scope N_scope.

Definition bytes_ok (l : list byte) : Prop := Forall (fun b => b < 256) l.

(* neither of the two outcomes that no Rust execution has *)
Definition fine {E A} (r : res E A) : Prop := r <> Panic /\ r <> OutOfFuel.

Lemma fine_ok {E A} (a : A) : fine (@Ok E A a).
Proof. split; discriminate. Qed.
Lemma fine_err {E A} (e : E) : fine (@Err E A e).
Proof. split; discriminate. Qed.
#[local] Hint Resolve fine_ok fine_err : core.

(* close a goal with a hypothesis that differs only in position arithmetic *)
Ltac plia H :=
  exact H ||
  (match type of H with
   | ?P => match goal with
           | |- ?G => let e := fresh "e" in
                      assert (e : P = G) by (f_equal; lia); rewrite <- e; exact H
           end
   end).

(* ------------------------------------------------------------------ *)
(* 1. cursor primitives                                                *)
(* ------------------------------------------------------------------ *)

Lemma wd_llen_cons {A} (x : A) l : llen (x :: l) = 1 + llen l.
Proof. unfold llen; cbn [length]; lia. Qed.
Lemma wd_llen_app {A} (a b : list A) : llen (a ++ b) = llen a + llen b.
Proof. unfold llen; rewrite app_length; lia. Qed.
Lemma wd_llen_map {A B} (f : A -> B) l : llen (map f l) = llen l.
Proof. unfold llen; rewrite map_length; reflexivity. Qed.

Lemma skipn_nth {A} n : forall (l : list A),
  skipn n l = match nth_error l n with Some x => x :: skipn (S n) l | None => [] end.
Proof.
  induction n as [|n IH]; intros [|x t]; try reflexivity.
  cbn [nth_error]. rewrite <- IH. reflexivity.
Qed.

Lemma at_lt bs p b : at_ bs p = Some b -> p < llen bs.
Proof.
  unfold at_, nthN, llen. intro H.
  assert (N.to_nat p < length bs)%nat by (apply nth_error_Some; congruence). lia.
Qed.

Lemma at_byte bs p b : bytes_ok bs -> at_ bs p = Some b -> b < 256.
Proof.
  unfold at_, nthN. intros Hb H. apply nth_error_In in H.
  unfold bytes_ok in Hb. rewrite Forall_forall in Hb. apply Hb, H.
Qed.

Lemma crest_at bs p :
  crest (at_offset bs p)
  = match at_ bs p with Some b => b :: crest (at_offset bs (p + 1)) | None => [] end.
Proof.
  unfold at_offset, at_, nthN. cbn [crest]. rewrite skipn_nth.
  replace (N.to_nat (p + 1)) with (S (N.to_nat p)) by lia. reflexivity.
Qed.

Lemma next_u8_at bs p :
  next_u8 (at_offset bs p)
  = match at_ bs p with Some b => Some (b, at_offset bs (p + 1)) | None => None end.
Proof.
  unfold next_u8. rewrite crest_at. destruct (at_ bs p); reflexivity.
Qed.

Lemma next_u16_at bs p :
  next_u16 (at_offset bs p)
  = match at_ bs p, at_ bs (p + 1) with
    | Some a, Some b => Some (u16_be a b, at_offset bs (p + 2))
    | _, _ => None
    end.
Proof.
  unfold next_u16. rewrite crest_at. destruct (at_ bs p); [|reflexivity].
  rewrite crest_at. destruct (at_ bs (p + 1)); [|reflexivity].
  cbn [cpos at_offset]. replace (p + 1 + 1) with (p + 2) by lia. reflexivity.
Qed.

Lemma next_u32_at bs p :
  next_u32 (at_offset bs p)
  = match at_ bs p, at_ bs (p + 1), at_ bs (p + 2), at_ bs (p + 3) with
    | Some a, Some b, Some c, Some d => Some (u32_be a b c d, at_offset bs (p + 4))
    | _, _, _, _ => None
    end.
Proof.
  unfold next_u32. rewrite crest_at. destruct (at_ bs p); [|reflexivity].
  rewrite crest_at. destruct (at_ bs (p + 1)); [|reflexivity].
  replace (p + 1 + 1) with (p + 2) by lia.
  rewrite crest_at. destruct (at_ bs (p + 2)); [|reflexivity].
  replace (p + 2 + 1) with (p + 3) by lia.
  rewrite crest_at. destruct (at_ bs (p + 3)); [|reflexivity].
  cbn [cpos at_offset]. replace (p + 3 + 1) with (p + 4) by lia. reflexivity.
Qed.

Lemma split_exact_firstn {A} k : forall (l : list A),
  split_exact k l = if Nat.leb k (length l) then Some (firstn k l, skipn k l) else None.
Proof.
  induction k as [|k IH]; intros l; [reflexivity|].
  destruct l as [|x t]; [reflexivity|]. cbn [split_exact length Nat.leb firstn skipn].
  rewrite IH. destruct (Nat.leb k (length t)); reflexivity.
Qed.

Lemma wd_skipn_skipn {A} b : forall a (l : list A), skipn a (skipn b l) = skipn (b + a) l.
Proof.
  induction b as [|b IH]; intros a l; [reflexivity|].
  destruct l as [|x t]; [destruct a; reflexivity|]. cbn [skipn Nat.add]. apply IH.
Qed.

Lemma take_at bs p n : p <= llen bs ->
  take n (at_offset bs p)
  = match sliceN bs p n with Some os => Some (os, at_offset bs (p + n)) | None => None end.
Proof.
  intro Hp. unfold take, sliceN. rewrite split_exact_firstn. cbn [crest cpos at_offset].
  rewrite skipn_length.
  destruct (N.leb_spec (p + n) (llen bs)) as [Hle|Hgt].
  - rewrite (proj2 (Nat.leb_le _ _)) by (unfold llen in *; lia).
    rewrite wd_skipn_skipn. replace (N.to_nat p + N.to_nat n)%nat with (N.to_nat (p + n)) by lia.
    reflexivity.
  - rewrite (proj2 (Nat.leb_gt _ _)) by (unfold llen in *; lia). reflexivity.
Qed.

Lemma sliceN_spec {A} (l : list A) i n os :
  sliceN l i n = Some os -> llen os = n /\ i + n <= llen l /\ exists pre post, l = pre ++ os ++ post.
Proof.
  unfold sliceN. destruct (N.leb_spec (i + n) (llen l)) as [Hle|]; [|discriminate].
  intros [= <-]. split; [|split; [exact Hle|]].
  - unfold llen in *. rewrite firstn_length, skipn_length. lia.
  - exists (firstn (N.to_nat i) l), (skipn (N.to_nat n) (skipn (N.to_nat i) l)).
    rewrite firstn_skipn, firstn_skipn. reflexivity.
Qed.

Lemma sliceN_bytes l i n os : bytes_ok l -> sliceN l i n = Some os -> bytes_ok os.
Proof.
  intros Hb H. apply sliceN_spec in H as (_ & _ & pre & post & ->).
  unfold bytes_ok in *. apply Forall_app in Hb as [_ Hb]. apply Forall_app in Hb as [Hb _]. exact Hb.
Qed.

(* ------------------------------------------------------------------ *)
(* 2. finite sweeps over octets                                        *)
(* ------------------------------------------------------------------ *)

Lemma wd_sweep (P : N -> bool) (k : nat) :
  forallb P (map N.of_nat (seq 0 k)) = true -> forall x, x < N.of_nat k -> P x = true.
Proof.
  intros H x Hx. rewrite forallb_forall in H. apply H.
  apply in_map_iff. exists (N.to_nat x). split; [lia|]. apply in_seq. lia.
Qed.

Lemma land_63 s : 192 <= s -> s < 256 -> N.land s 63 = s - 192.
Proof.
  intros H1 H2.
  assert (H := wd_sweep (fun s => (s <? 192) || (N.land s 63 =? s - 192)) 256
                        ltac:(vm_compute; reflexivity) s H2). cbv beta in H.
  apply orb_true_iff in H as [H|H]; [apply N.ltb_lt in H; lia | apply N.eqb_eq in H; exact H].
Qed.

Lemma land_63_le s : s < 256 -> N.land s 63 <= 63.
Proof.
  intros H2.
  assert (H := wd_sweep (fun s => N.land s 63 <=? 63) 256 ltac:(vm_compute; reflexivity) s H2).
  cbv beta in H.
  apply N.leb_le in H. exact H.
Qed.

Definition header_bits_ok (f : N) : bool :=
  Bool.eqb (bit f HEADER_MASK_QR) (N.testbit f 7)
  && Bool.eqb (bit f HEADER_MASK_AA) (N.testbit f 2)
  && Bool.eqb (bit f HEADER_MASK_TC) (N.testbit f 1)
  && Bool.eqb (bit f HEADER_MASK_RD) (N.testbit f 0)
  && Bool.eqb (bit f HEADER_MASK_RA) (N.testbit f 7)
  && (N.land (N.shiftr (N.land f HEADER_MASK_OPCODE) HEADER_OFFSET_OPCODE) OPCODE_FROM_MASK =? (f / 8) mod 16)
  && (N.land (N.shiftr (N.land f HEADER_MASK_RCODE) HEADER_OFFSET_RCODE) RCODE_FROM_MASK =? f mod 16).

(* re-proved against the masks of the current source on every build *)
Lemma header_bits f : f < 256 ->
  bit f HEADER_MASK_QR = N.testbit f 7 /\ bit f HEADER_MASK_AA = N.testbit f 2
  /\ bit f HEADER_MASK_TC = N.testbit f 1 /\ bit f HEADER_MASK_RD = N.testbit f 0
  /\ bit f HEADER_MASK_RA = N.testbit f 7
  /\ N.land (N.shiftr (N.land f HEADER_MASK_OPCODE) HEADER_OFFSET_OPCODE) OPCODE_FROM_MASK = (f / 8) mod 16
  /\ N.land (N.shiftr (N.land f HEADER_MASK_RCODE) HEADER_OFFSET_RCODE) RCODE_FROM_MASK = f mod 16.
Proof.
  intro Hf.
  assert (H := wd_sweep header_bits_ok 256 ltac:(vm_compute; reflexivity) f Hf).
  unfold header_bits_ok in H. repeat rewrite andb_true_iff in H.
  destruct H as [[[[[[H1 H2] H3] H4] H5] H6] H7].
  apply eqb_prop in H1, H2, H3, H4, H5. apply N.eqb_eq in H6, H7. tauto.
Qed.

(* ------------------------------------------------------------------ *)
(* 3. names                                                            *)
(* ------------------------------------------------------------------ *)

Lemma sum_lens_cons l t : sum_lens (l :: t) = 1 + llen l + sum_lens t.
Proof. reflexivity. Qed.

Lemma name_finish_inv ls len c n c' : name_finish ls len c = Ok (n, c') ->
  n = {| labels := ls; nlen := len |} /\ c' = c /\ len <= 255.
Proof.
  unfold name_finish, DOMAINNAME_MAX_LEN. destruct (N.leb_spec len 255); [|discriminate].
  intros [= <- <-]. auto.
Qed.

Lemma name_finish_le ls len c : len <= 255 ->
  name_finish ls len c = Ok ({| labels := ls; nlen := len |}, c).
Proof.
  intro H. unfold name_finish, DOMAINNAME_MAX_LEN. destruct (N.leb_spec len 255); [reflexivity|lia].
Qed.

Lemma name_finish_fine ls len c : fine (name_finish ls len c).
Proof. unfold name_finish. destruct (len <=? DOMAINNAME_MAX_LEN); auto. Qed.

Section Names.
  Variable bs : list byte.
  Hypothesis Hbs : bytes_ok bs.

  (* what the recursive call (the name a pointer refers to) is assumed to satisfy *)
  Definition rec_sound (rec : N -> res werr_kind (dname * cur)) (start : N) : Prop :=
    forall ptr other cx, ptr < start -> rec ptr = Ok (other, cx) ->
      exists nx, NameAt bs ptr ptr (labels other) nx /\ nlen other = sum_lens (labels other).

  Lemma name_loop_sound rec start : rec_sound rec start ->
    forall lf pos len acc n c',
      name_loop rec start lf (at_offset bs pos) len acc = Ok (n, c') ->
      exists ls next, labels n = acc ++ ls /\ NameAt bs start pos ls next /\ c' = at_offset bs next
        /\ next <= llen bs /\ nlen n = len + sum_lens ls /\ nlen n <= 255.
  Proof.
    intros Hrec. induction lf as [|lf IH]; intros pos len acc n c' H; cbn [name_loop] in H; [discriminate|].
    rewrite next_u8_at in H. destruct (at_ bs pos) as [size|] eqn:Esz; [|discriminate].
    pose proof (at_lt _ _ _ Esz) as Hpos. pose proof (at_byte _ _ _ Hbs Esz) as Hsize.
    unfold LABEL_MAX_LEN, DOMAINNAME_MAX_LEN in H.
    destruct (N.leb_spec size 63) as [Hle|Hgt].
    - destruct (N.eqb_spec size 0) as [->|Hnz].
      + apply name_finish_inv in H as (-> & -> & Hl). exists [[]], (pos + 1). cbn [labels nlen].
        change (sum_lens [[]]) with 1.
        split; [reflexivity|]. split; [constructor; exact Esz|]. split; [reflexivity|]. lia.
      + rewrite take_at in H by lia.
        destruct (sliceN bs (pos + 1) size) as [os|] eqn:Eos; [|discriminate].
        destruct (N.ltb_spec 255 (len + 1 + size)) as [Hlong|Hshort].
        * apply name_finish_inv in H as (_ & _ & Hl). lia.
        * apply IH in H as (ls & next & Hlab & Hna & -> & Hnext & Hlen & H255).
          exists (map lower os :: ls), next.
          split; [rewrite Hlab, <- app_assoc; reflexivity|].
          split; [eapply NA_label; [exact Esz|lia|exact Eos|exact Hna]|].
          split; [reflexivity|]. split; [exact Hnext|].
          apply sliceN_spec in Eos as (Hos & _).
          unfold byte in Hos. rewrite sum_lens_cons, wd_llen_map, Hos. lia.
    - destruct (N.leb_spec 192 size) as [H192|]; [|discriminate].
      rewrite next_u8_at in H. destruct (at_ bs (pos + 1)) as [lo|] eqn:Elo; [|discriminate].
      rewrite (land_63 size H192 Hsize) in H. unfold u16_be in H.
      destruct (N.leb_spec start ((size - 192) * 256 + lo)) as [|Hlt]; [discriminate|].
      destruct (rec ((size - 192) * 256 + lo)) as [[other cx]| | |] eqn:Er; try discriminate.
      apply name_finish_inv in H as (-> & -> & Hl). cbn [labels nlen] in *.
      destruct (Hrec _ _ _ Hlt Er) as (nx & Hna & Hnl).
      pose proof (at_lt _ _ _ Elo) as Hpos1.
      exists (labels other), (pos + 2).
      split; [reflexivity|].
      split; [eapply NA_ptr with (hi := size) (lo := lo); eauto|].
      split; [f_equal; lia|]. lia.
  Qed.

  Lemma decode_name_sound : forall h pos n c',
    decode_name h bs (at_offset bs pos) = Ok (n, c') ->
    exists next, NameIs bs pos n next /\ c' = at_offset bs next /\ next <= llen bs.
  Proof.
    induction h as [|h IH]; intros pos n c' H; cbn [decode_name] in H; [discriminate|].
    change (cpos (at_offset bs pos)) with pos in H.
    apply name_loop_sound in H.
    - destruct H as (ls & next & Hlab & Hna & -> & Hnext & Hlen & H255). cbn [app] in Hlab.
      exists next. unfold NameIs. rewrite Hlab. repeat split; auto; lia.
    - intros ptr other cx Hlt Hr. apply IH in Hr as (nx & (Hna & Hl & _) & _).
      exists nx. split; assumption.
  Qed.

  Definition rec_complete (rec : N -> res werr_kind (dname * cur)) (start : N) : Prop :=
    forall ptr ls nx, ptr < start -> NameAt bs ptr ptr ls nx -> sum_lens ls <= 255 ->
      rec ptr = OutOfFuel \/ exists cx, rec ptr = Ok ({| labels := ls; nlen := sum_lens ls |}, cx).

  Lemma name_loop_complete start pos ls next : NameAt bs start pos ls next ->
    forall rec, rec_complete rec start -> forall lf len acc, len + sum_lens ls <= 255 ->
      name_loop rec start lf (at_offset bs pos) len acc = OutOfFuel \/
      name_loop rec start lf (at_offset bs pos) len acc
      = Ok ({| labels := acc ++ ls; nlen := len + sum_lens ls |}, at_offset bs next).
  Proof.
    induction 1 as [start pos Hz | start pos sz os ls next Hsz Hrange Hos Hna IH
                   | start pos hi lo ls nx Hhi H192 Hlo Hlt Hna IH];
      intros rec Hrec lf len acc Hlen; (destruct lf as [|lf]; [left; reflexivity|]);
      cbn [name_loop]; rewrite next_u8_at; unfold LABEL_MAX_LEN, DOMAINNAME_MAX_LEN.
    - rewrite Hz. change (0 <=? 63) with true. change (0 =? 0) with true. cbv iota.
      change (sum_lens [[]]) with 1 in *. right. apply name_finish_le. lia.
    - rewrite Hsz. pose proof (at_lt _ _ _ Hsz) as Hpos.
      destruct (N.leb_spec sz 63); [|lia]. destruct (N.eqb_spec sz 0); [lia|].
      rewrite take_at by lia. rewrite Hos.
      apply sliceN_spec in Hos as (Hlos & _). unfold byte in Hlos.
      rewrite sum_lens_cons, wd_llen_map, Hlos in Hlen.
      destruct (N.ltb_spec 255 (len + 1 + sz)); [lia|].
      specialize (IH rec Hrec lf (len + 1 + sz) (acc ++ [map lower os])).
      rewrite <- app_assoc in IH. cbn [app] in IH.
      rewrite sum_lens_cons, wd_llen_map, Hlos.
      replace (len + (1 + sz + sum_lens ls)) with (len + 1 + sz + sum_lens ls) by lia.
      apply IH. lia.
    - rewrite Hhi. pose proof (at_byte _ _ _ Hbs Hhi) as Hhi256.
      destruct (N.leb_spec hi 63); [lia|]. destruct (N.leb_spec 192 hi); [|lia].
      rewrite next_u8_at, Hlo. rewrite (land_63 hi H192 Hhi256). unfold u16_be.
      destruct (N.leb_spec start ((hi - 192) * 256 + lo)); [lia|].
      destruct (Hrec _ _ _ Hlt Hna) as [->|(cx & ->)]; [lia|left; reflexivity|].
      cbn [labels nlen]. right. rewrite name_finish_le by lia.
      do 2 f_equal. f_equal. lia.
  Qed.

  Lemma decode_name_complete : forall h pos ls next,
    NameAt bs pos pos ls next -> sum_lens ls <= 255 ->
    decode_name h bs (at_offset bs pos) = OutOfFuel \/
    decode_name h bs (at_offset bs pos)
    = Ok ({| labels := ls; nlen := sum_lens ls |}, at_offset bs next).
  Proof.
    induction h as [|h IH]; intros pos ls next Hna Hs; cbn [decode_name]; [left; reflexivity|].
    change (cpos (at_offset bs pos)) with pos.
    apply (name_loop_complete pos pos ls next Hna
             (fun ptr => decode_name h bs (at_offset bs ptr))) with (len := 0) (acc := []).
    - intros ptr ls' nx Hlt Hna' Hs'.
      destruct (IH ptr ls' nx Hna' Hs') as [->| ->]; [left|right; eexists]; reflexivity.
    - exact Hs.
  Qed.

  (* fuel: each iteration of the label loop that does not end the name adds at
     least 2 to [len] and continues only while [len <= 255] *)
  Lemma name_loop_fine rec start :
    (forall p, p < start -> p < 16384 -> fine (rec p)) ->
    forall lf pos len acc, 257 <= len + 2 * N.of_nat lf -> len <= 255 ->
      fine (name_loop rec start lf (at_offset bs pos) len acc).
  Proof.
    intros Hrec. induction lf as [|lf IH]; intros pos len acc Hfuel Hlen; [lia|].
    cbn [name_loop]. rewrite next_u8_at. destruct (at_ bs pos) as [size|] eqn:Esz; [|auto].
    pose proof (at_lt _ _ _ Esz) as Hpos. pose proof (at_byte _ _ _ Hbs Esz) as Hsize.
    unfold LABEL_MAX_LEN, DOMAINNAME_MAX_LEN.
    destruct (N.leb_spec size 63) as [Hle|Hgt].
    - destruct (N.eqb_spec size 0) as [->|Hnz]; [apply name_finish_fine|].
      rewrite take_at by lia. destruct (sliceN bs (pos + 1) size) as [os|]; [|auto].
      destruct (N.ltb_spec 255 (len + 1 + size)); [apply name_finish_fine|].
      apply IH; lia.
    - destruct (N.leb_spec 192 size) as [H192|]; [|auto].
      rewrite next_u8_at. destruct (at_ bs (pos + 1)) as [lo|] eqn:Elo; [|auto].
      pose proof (at_byte _ _ _ Hbs Elo) as Hlo.
      rewrite (land_63 size H192 Hsize). unfold u16_be.
      destruct (N.leb_spec start ((size - 192) * 256 + lo)) as [|Hlt]; [auto|].
      assert (Hp : (size - 192) * 256 + lo < 16384) by lia.
      destruct (Hrec _ Hlt Hp) as [HnP HnF].
      destruct (rec ((size - 192) * 256 + lo)) as [[other cx]| | |]; auto; try contradiction.
      apply name_finish_fine.
  Qed.

  (* hop bound: pointer targets strictly decrease and are below 2^14, so a name at
     [pos] needs at most min(pos, 16384) + 1 nested calls *)
  Lemma decode_name_hops : forall h pos,
    N.min pos 16384 < N.of_nat h -> fine (decode_name h bs (at_offset bs pos)).
  Proof.
    induction h as [|h IH]; intros pos Hh; [lia|].
    cbn [decode_name]. change (cpos (at_offset bs pos)) with pos.
    apply name_loop_fine.
    - intros p Hp1 Hp2. apply IH. lia.
    - unfold LABEL_FUEL. lia.
    - lia.
  Qed.

  (* ... and any fuel above that bound gives the same result *)
  Lemma name_loop_ext rec1 rec2 start :
    (forall p, p < start -> p < 16384 -> rec1 p = rec2 p) ->
    forall lf pos len acc,
      name_loop rec1 start lf (at_offset bs pos) len acc
      = name_loop rec2 start lf (at_offset bs pos) len acc.
  Proof.
    intros Hrec. induction lf as [|lf IH]; intros pos len acc; [reflexivity|].
    cbn [name_loop]. rewrite next_u8_at. destruct (at_ bs pos) as [size|] eqn:Esz; [|reflexivity].
    pose proof (at_lt _ _ _ Esz) as Hpos. pose proof (at_byte _ _ _ Hbs Esz) as Hsize.
    destruct (size <=? LABEL_MAX_LEN).
    - destruct (size =? 0); [reflexivity|]. rewrite take_at by lia.
      destruct (sliceN bs (pos + 1) size) as [os|]; [|reflexivity].
      destruct (DOMAINNAME_MAX_LEN <? len + 1 + size); [reflexivity|apply IH].
    - destruct (192 <=? size); [|reflexivity].
      rewrite next_u8_at. destruct (at_ bs (pos + 1)) as [lo|] eqn:Elo; [|reflexivity].
      pose proof (at_byte _ _ _ Hbs Elo) as Hlo. pose proof (land_63_le size Hsize) as H63.
      destruct (N.leb_spec start (u16_be (N.land size 63) lo)) as [|Hlt]; [reflexivity|].
      rewrite Hrec; [reflexivity|exact Hlt|unfold u16_be; lia].
  Qed.

  Lemma decode_name_fuel_indep : forall h1 h2 pos,
    N.min pos 16384 < N.of_nat h1 -> N.min pos 16384 < N.of_nat h2 ->
    decode_name h1 bs (at_offset bs pos) = decode_name h2 bs (at_offset bs pos).
  Proof.
    induction h1 as [|a IH]; intros [|b] pos H1 H2; try lia.
    cbn [decode_name]. change (cpos (at_offset bs pos)) with pos.
    apply name_loop_ext. intros p Hp Hp2. apply IH; lia.
  Qed.

  Lemma decode_name_fuel pos : fine (decode_name HOP_FUEL bs (at_offset bs pos)).
  Proof. apply decode_name_hops. unfold HOP_FUEL. rewrite N2Nat.id. lia. Qed.
End Names.

(* ------------------------------------------------------------------ *)
(* 4. fields, RDATA, records, questions, sequences                     *)
(* ------------------------------------------------------------------ *)

Lemma fine_bind {E A B} (r : res E A) (f : A -> res E B) :
  fine r -> (forall a, r = Ok a -> fine (f a)) -> fine (bind r f).
Proof.
  intros [H1 H2] Hf. destruct r; cbn [bind]; auto; contradiction.
Qed.

Lemma of_opt_fine {E A} (o : option A) (e : E) : fine (of_opt o e).
Proof. destruct o; cbn [of_opt]; auto. Qed.

(* normalise p + a + b with literal a, b *)
Ltac norm_pos :=
  repeat match goal with
         | |- context[?a + Npos ?b + Npos ?c] =>
           let v := eval vm_compute in (Npos b + Npos c) in
           replace (a + Npos b + Npos c) with (a + v) by lia
         end.

Ltac inv_bind H :=
  match type of H with
  | bind ?r _ = Ok _ =>
    let Eq := fresh "Eq" in
    destruct r as [[? ?]| | |] eqn:Eq; cbn [bind] in H; [|discriminate H..]
  end.

Section Body.
  Variable bs : list byte.
  Hypothesis Hbs : bytes_ok bs.
  Variable id : N.

  (* ---- fixed-width fields ---- *)
  Lemma u16_or_sound k p v c1 : u16_or id k (at_offset bs p) = Ok (v, c1) ->
    u16At bs p v /\ c1 = at_offset bs (p + 2) /\ p + 2 <= llen bs.
  Proof.
    unfold u16_or. rewrite next_u16_at. intro H.
    destruct (at_ bs p) as [a|] eqn:Ea; [|discriminate].
    destruct (at_ bs (p + 1)) as [b|] eqn:Eb; [|discriminate].
    cbn [of_opt] in H. injection H as <- <-.
    split; [exists a, b; auto|]. split; [reflexivity|]. apply at_lt in Eb. lia.
  Qed.

  Lemma u16_or_complete k p v : u16At bs p v ->
    u16_or id k (at_offset bs p) = Ok (v, at_offset bs (p + 2)).
  Proof.
    intros (a & b & Ea & Eb & ->). unfold u16_or. rewrite next_u16_at, Ea, Eb. reflexivity.
  Qed.

  Lemma u32_or_sound k p v c1 : u32_or id k (at_offset bs p) = Ok (v, c1) ->
    u32At bs p v /\ c1 = at_offset bs (p + 4) /\ p + 4 <= llen bs.
  Proof.
    unfold u32_or. rewrite next_u32_at. intro H.
    destruct (at_ bs p) as [a|] eqn:Ea; [|discriminate].
    destruct (at_ bs (p + 1)) as [b|] eqn:Eb; [|discriminate].
    destruct (at_ bs (p + 2)) as [c|] eqn:Ec; [|discriminate].
    destruct (at_ bs (p + 3)) as [d|] eqn:Ed; [|discriminate].
    cbn [of_opt] in H. injection H as <- <-.
    split; [exists a, b, c, d; auto 6|]. split; [reflexivity|]. apply at_lt in Ed. lia.
  Qed.

  Lemma u32_or_complete k p v : u32At bs p v ->
    u32_or id k (at_offset bs p) = Ok (v, at_offset bs (p + 4)).
  Proof.
    intros (a & b & c & d & Ea & Eb & Ec & Ed & ->). unfold u32_or.
    rewrite next_u32_at, Ea, Eb, Ec, Ed. reflexivity.
  Qed.

  Lemma u16_or_fine k c : fine (u16_or id k c).
  Proof. apply of_opt_fine. Qed.
  Lemma u32_or_fine k c : fine (u32_or id k c).
  Proof. apply of_opt_fine. Qed.

  Lemma u16_or_err k c e : u16_or id k c = Err e -> snd e = Some id.
  Proof. unfold u16_or, of_opt. destruct (next_u16 c); [discriminate|]. intros [= <-]. reflexivity. Qed.
  Lemma u32_or_err k c e : u32_or id k c = Err e -> snd e = Some id.
  Proof. unfold u32_or, of_opt. destruct (next_u32 c); [discriminate|]. intros [= <-]. reflexivity. Qed.

  (* ---- names ---- *)
  Lemma dname_at_sound p n c1 : dname_at bs id (at_offset bs p) = Ok (n, c1) ->
    exists next, NameIs bs p n next /\ c1 = at_offset bs next /\ next <= llen bs.
  Proof.
    unfold dname_at. destruct (decode_name HOP_FUEL bs (at_offset bs p)) as [[n' c']| | |] eqn:Ed;
      try discriminate.
    intros [= <- <-]. eapply decode_name_sound; eassumption.
  Qed.

  Lemma dname_at_complete p n next : NameIs bs p n next ->
    dname_at bs id (at_offset bs p) = Ok (n, at_offset bs next).
  Proof.
    intros (Hna & Hl & H255). unfold dname_at.
    assert (Hs : sum_lens (labels n) <= 255) by lia.
    destruct (decode_name_complete bs Hbs HOP_FUEL p (labels n) next Hna Hs) as [Ed|Ed].
    - destruct (decode_name_fuel bs Hbs p) as [_ HF]. contradiction.
    - rewrite Ed. destruct n as [ls ln]. cbn [labels nlen] in *. subst ln. reflexivity.
  Qed.

  Lemma dname_at_fine p : fine (dname_at bs id (at_offset bs p)).
  Proof.
    unfold dname_at. destruct (decode_name_fuel bs Hbs p) as [HP HF].
    destruct (decode_name HOP_FUEL bs (at_offset bs p)); auto; exfalso; congruence.
  Qed.

  Lemma dname_at_err c e : dname_at bs id c = Err e -> snd e = Some id.
  Proof.
    unfold dname_at. destruct (decode_name HOP_FUEL bs c); try discriminate.
    intros [= <-]. reflexivity.
  Qed.

  (* ---- the eight segments of an AAAA ---- *)
  Lemma decode_u16s_sound : forall k p vs c1, p <= llen bs ->
    decode_u16s id k (at_offset bs p) = Ok (vs, c1) ->
    length vs = k /\ u16sAt bs p vs /\ c1 = at_offset bs (p + 2 * N.of_nat k)
    /\ p + 2 * N.of_nat k <= llen bs.
  Proof.
    induction k as [|k IH]; intros p vs c1 Hp H; cbn [decode_u16s] in H.
    - injection H as <- <-. split; [reflexivity|]. split; [exact I|]. split; [f_equal; lia|lia].
    - inv_bind H. apply u16_or_sound in Eq as (Hv & -> & Hl).
      inv_bind H. apply IH in Eq as (Hlen & Hvs & -> & Hl2); [|exact Hl].
      injection H as <- <-. cbn [length u16sAt].
      split; [congruence|]. split; [split; assumption|]. split; [f_equal; lia|lia].
  Qed.

  Lemma decode_u16s_complete : forall vs p, u16sAt bs p vs ->
    decode_u16s id (length vs) (at_offset bs p) = Ok (vs, at_offset bs (p + 2 * llen vs)).
  Proof.
    induction vs as [|v vs IH]; intros p H; cbn [length decode_u16s].
    - do 2 f_equal. f_equal. unfold llen. cbn [length]. lia.
    - destruct H as [Hv Hvs]. rewrite (u16_or_complete _ _ _ Hv). cbn [bind].
      rewrite (IH _ Hvs). cbn [bind]. do 2 f_equal. f_equal. rewrite wd_llen_cons. lia.
  Qed.

  Lemma decode_u16s_fine : forall k c, fine (decode_u16s id k c).
  Proof.
    induction k as [|k IH]; intro c; cbn [decode_u16s]; [auto|].
    apply fine_bind; [apply u16_or_fine|]. intros [v c1] _.
    apply fine_bind; [apply IH|]. intros [vs c2] _. auto.
  Qed.

  Lemma decode_u16s_err : forall k c e, decode_u16s id k c = Err e -> snd e = Some id.
  Proof.
    induction k as [|k IH]; intros c e H; cbn [decode_u16s] in H; [discriminate|].
    destruct (u16_or id ResourceRecordTooShort c) as [[v c1]|e1| |] eqn:E1; cbn [bind] in H; try discriminate.
    - destruct (decode_u16s id k c1) as [[vs c2]|e2| |] eqn:E2; cbn [bind] in H; try discriminate.
      injection H as <-. eapply IH; eassumption.
    - injection H as <-. eapply u16_or_err; eassumption.
  Qed.

  (* ---- RDATA ---- *)
  Lemma decode_rdata_sound ty len p d c1 : p <= llen bs ->
    decode_rdata bs id ty len (at_offset bs p) = Ok (d, c1) ->
    exists next, RDataAt bs ty len p d next /\ c1 = at_offset bs next /\ next <= llen bs.
  Proof.
    intros Hp H. unfold decode_rdata in H. destruct (shape_of_type ty) eqn:Esh.
    - (* A *)
      inv_bind H. apply u32_or_sound in Eq as (Ha & -> & Hl). injection H as <- <-.
      exists (p + 4). split; [apply RDA_A; assumption|auto].
    - (* name *)
      inv_bind H. apply dname_at_sound in Eq as (nx & Hn & -> & Hl). injection H as <- <-.
      exists nx. split; [apply RDA_Name; assumption|auto].
    - (* SOA *)
      inv_bind H. apply dname_at_sound in Eq as (p1 & Hm & -> & Hl1).
      inv_bind H. apply dname_at_sound in Eq as (p2 & Hr & -> & Hl2).
      inv_bind H. apply u32_or_sound in Eq as (H1 & -> & Hl3).
      inv_bind H. apply u32_or_sound in Eq as (H2 & -> & Hl4).
      inv_bind H. apply u32_or_sound in Eq as (H3 & -> & Hl5).
      inv_bind H. apply u32_or_sound in Eq as (H4 & -> & Hl6).
      inv_bind H. apply u32_or_sound in Eq as (H5 & -> & Hl7).
      injection H as <- <-. exists (p2 + 20).
      split; [|split; [f_equal; lia|lia]].
      eapply RDA_SOA; eauto; [plia H3|plia H4|plia H5].
    - (* octets *)
      rewrite take_at in H by exact Hp.
      destruct (sliceN bs p len) as [os|] eqn:Eos; [|discriminate]. injection H as <- <-.
      exists (p + len). split; [apply RDA_Octets; assumption|]. split; [reflexivity|].
      apply sliceN_spec in Eos. tauto.
    - (* MINFO *)
      inv_bind H. apply dname_at_sound in Eq as (p1 & Hm & -> & Hl1).
      inv_bind H. apply dname_at_sound in Eq as (p2 & Hr & -> & Hl2).
      injection H as <- <-. exists p2. split; [eapply RDA_MINFO; eauto|auto].
    - (* MX *)
      inv_bind H. apply u16_or_sound in Eq as (H1 & -> & Hl1).
      inv_bind H. apply dname_at_sound in Eq as (nx & Hn & -> & Hl2).
      injection H as <- <-. exists nx. split; [apply RDA_MX; assumption|auto].
    - (* AAAA *)
      inv_bind H. apply decode_u16s_sound in Eq as (Hlen & Hs & -> & Hl); [|exact Hp].
      injection H as <- <-. exists (p + 16).
      split; [apply RDA_AAAA; assumption|]. split; [f_equal; lia|lia].
    - (* SRV *)
      inv_bind H. apply u16_or_sound in Eq as (H1 & -> & Hl1).
      inv_bind H. apply u16_or_sound in Eq as (H2 & -> & Hl2).
      inv_bind H. apply u16_or_sound in Eq as (H3 & -> & Hl3).
      inv_bind H. apply dname_at_sound in Eq as (nx & Hn & -> & Hl4).
      injection H as <- <-. exists nx.
      split; [|auto]. apply RDA_SRV; [assumption|assumption|assumption|plia H3|plia Hn].
  Qed.

  Lemma decode_rdata_complete ty len p d next : p <= llen bs ->
    RDataAt bs ty len p d next ->
    decode_rdata bs id ty len (at_offset bs p) = Ok (d, at_offset bs next).
  Proof.
    intros Hp H. unfold decode_rdata.
    destruct H as [a Hsh Ha | n nx Hsh Hn | m r serial refresh retry expire minimum p1 p2 Hsh Hm Hr H1 H2 H3 H4 H5
                  | os Hsh Hos | r e p1 p2 Hsh Hr He | pr e nx Hsh Hp1 He | segs Hsh Hlen Hs
                  | pr w o t nx Hsh H1 H2 H3 Ht]; rewrite Hsh.
    - rewrite (u32_or_complete _ _ _ Ha). reflexivity.
    - rewrite (dname_at_complete _ _ _ Hn). reflexivity.
    - rewrite (dname_at_complete _ _ _ Hm). cbn [bind].
      rewrite (dname_at_complete _ _ _ Hr). cbn [bind].
      rewrite (u32_or_complete _ _ _ H1). cbn [bind].
      rewrite (u32_or_complete _ _ _ H2). cbn [bind]. norm_pos.
      rewrite (u32_or_complete _ _ _ H3). cbn [bind]. norm_pos.
      rewrite (u32_or_complete _ _ _ H4). cbn [bind]. norm_pos.
      rewrite (u32_or_complete _ _ _ H5). cbn [bind]. norm_pos. reflexivity.
    - rewrite take_at by exact Hp. unfold octetsAt in Hos. rewrite Hos. reflexivity.
    - rewrite (dname_at_complete _ _ _ Hr). cbn [bind].
      rewrite (dname_at_complete _ _ _ He). reflexivity.
    - rewrite (u16_or_complete _ _ _ Hp1). cbn [bind].
      rewrite (dname_at_complete _ _ _ He). reflexivity.
    - rewrite <- Hlen. rewrite (decode_u16s_complete _ _ Hs). cbn [bind].
      unfold llen. rewrite Hlen. do 2 f_equal.
    - rewrite (u16_or_complete _ _ _ H1). cbn [bind].
      rewrite (u16_or_complete _ _ _ H2). cbn [bind]. norm_pos.
      rewrite (u16_or_complete _ _ _ H3). cbn [bind]. norm_pos.
      rewrite (dname_at_complete _ _ _ Ht). reflexivity.
  Qed.

  Lemma decode_rdata_fine ty len p : p <= llen bs ->
    fine (decode_rdata bs id ty len (at_offset bs p)).
  Proof.
    intro Hp. unfold decode_rdata. destruct (shape_of_type ty).
    - apply fine_bind; [apply u32_or_fine|]. intros [a c] _. auto.
    - apply fine_bind; [apply dname_at_fine|]. intros [a c] _. auto.
    - apply fine_bind; [apply dname_at_fine|]. intros [m c1] Eq.
      apply dname_at_sound in Eq as (p1 & _ & -> & _).
      apply fine_bind; [apply dname_at_fine|]. intros [r c2] _.
      repeat (apply fine_bind; [apply u32_or_fine|]; intros [? ?] _). auto.
    - destruct (take len (at_offset bs p)) as [[os c]|]; auto.
    - apply fine_bind; [apply dname_at_fine|]. intros [m c1] Eq.
      apply dname_at_sound in Eq as (p1 & _ & -> & _).
      apply fine_bind; [apply dname_at_fine|]. intros [r c2] _. auto.
    - apply fine_bind; [apply u16_or_fine|]. intros [v c1] Eq.
      apply u16_or_sound in Eq as (_ & -> & _).
      apply fine_bind; [apply dname_at_fine|]. intros [r c2] _. auto.
    - apply fine_bind; [apply decode_u16s_fine|]. intros [v c1] _. auto.
    - apply fine_bind; [apply u16_or_fine|]. intros [v1 c1] Eq.
      apply u16_or_sound in Eq as (_ & -> & _).
      apply fine_bind; [apply u16_or_fine|]. intros [v2 c2] Eq.
      apply u16_or_sound in Eq as (_ & -> & _).
      apply fine_bind; [apply u16_or_fine|]. intros [v3 c3] Eq.
      apply u16_or_sound in Eq as (_ & -> & _).
      apply fine_bind; [apply dname_at_fine|]. intros [r c4] _. auto.
  Qed.

  (* an error of a bind chain comes from one of its steps *)
  Ltac err_bind_with H extra :=
    repeat match type of H with
           | bind ?r _ = Err _ =>
             let Eq := fresh "Eq" in
             destruct r as [[? ?]|?| |] eqn:Eq; cbn [bind] in H;
             [ | injection H as <-;
                 first [ eapply u16_or_err; eassumption | eapply u32_or_err; eassumption
                       | eapply dname_at_err; eassumption | eapply decode_u16s_err; eassumption
                       | extra ]
               | discriminate H | discriminate H ]
           end.
  Ltac err_bind H := err_bind_with H fail.

  Lemma decode_rdata_err ty len c e : decode_rdata bs id ty len c = Err e -> snd e = Some id.
  Proof.
    intro H. unfold decode_rdata in H. destruct (shape_of_type ty); err_bind H; try discriminate H.
    destruct (take len c) as [[os c1]|]; [discriminate|]. injection H as <-. reflexivity.
  Qed.

  (* ---- resource records ---- *)
  Lemma decode_rr_sound p r c' : decode_rr bs id (at_offset bs p) = Ok (r, c') ->
    exists next, RRAt bs p r next /\ c' = at_offset bs next /\ next <= llen bs.
  Proof.
    intro H. unfold decode_rr in H.
    inv_bind H. apply dname_at_sound in Eq as (p1 & Hn & -> & Hl0).
    inv_bind H. apply u16_or_sound in Eq as (Hty & -> & Hl1).
    inv_bind H. apply u16_or_sound in Eq as (Hcl & -> & Hl2).
    inv_bind H. apply u32_or_sound in Eq as (Httl & -> & Hl3).
    inv_bind H. apply u16_or_sound in Eq as (Hlen & -> & Hl4).
    inv_bind H. apply decode_rdata_sound in Eq as (next & Hd & -> & Hl5); [|exact Hl4].
    change (cpos (at_offset bs next)) with next in H.
    change (cpos (at_offset bs (p1 + 2 + 2 + 4 + 2))) with (p1 + 2 + 2 + 4 + 2) in H.
    match type of H with (if ?a =? ?b then _ else _) = _ => destruct (N.eqb_spec a b) as [Hstop|] end;
      [|discriminate].
    injection H as <- <-. exists next. split; [|auto].
    exists p1. eexists. cbn [rr_name rr_type rr_class rr_ttl rr_data].
    split; [exact Hn|]. split; [exact Hty|]. split; [exact Hcl|]. split; [plia Httl|].
    split; [plia Hlen|]. split; [plia Hd|]. lia.
  Qed.

  Lemma decode_rr_complete p r next : RRAt bs p r next ->
    decode_rr bs id (at_offset bs p) = Ok (r, at_offset bs next).
  Proof.
    intros (p1 & len & Hn & Hty & Hcl & Httl & Hlen & Hd & Hnext). unfold decode_rr.
    rewrite (dname_at_complete _ _ _ Hn). cbn [bind].
    rewrite (u16_or_complete _ _ _ Hty). cbn [bind].
    rewrite (u16_or_complete _ _ _ Hcl). cbn [bind]. norm_pos.
    rewrite (u32_or_complete _ _ _ Httl). cbn [bind]. norm_pos.
    rewrite (u16_or_complete _ _ _ Hlen). cbn [bind]. norm_pos.
    assert (Hp10 : p1 + 10 <= llen bs).
    { destruct Hlen as (a & b & _ & Eb & _). apply at_lt in Eb. lia. }
    rewrite (decode_rdata_complete _ _ _ _ _ Hp10 Hd). cbn [bind].
    change (cpos (at_offset bs next)) with next.
    change (cpos (at_offset bs (p1 + 10))) with (p1 + 10).
    rewrite (proj2 (N.eqb_eq _ _) Hnext). destruct r; reflexivity.
  Qed.

  Lemma decode_rr_fine p : fine (decode_rr bs id (at_offset bs p)).
  Proof.
    unfold decode_rr.
    apply fine_bind; [apply dname_at_fine|]. intros [n c1] Eq.
    apply dname_at_sound in Eq as (p1 & _ & -> & _).
    apply fine_bind; [apply u16_or_fine|]. intros [v1 c2] Eq. apply u16_or_sound in Eq as (_ & -> & _).
    apply fine_bind; [apply u16_or_fine|]. intros [v2 c3] Eq. apply u16_or_sound in Eq as (_ & -> & _).
    apply fine_bind; [apply u32_or_fine|]. intros [v3 c4] Eq. apply u32_or_sound in Eq as (_ & -> & _).
    apply fine_bind; [apply u16_or_fine|]. intros [v4 c5] Eq. apply u16_or_sound in Eq as (_ & -> & Hl).
    apply fine_bind; [apply decode_rdata_fine; exact Hl|]. intros [d c6] _.
    match goal with |- fine (if ?b then _ else _) => destruct b end; auto.
  Qed.

  Lemma decode_rr_err c e : decode_rr bs id c = Err e -> snd e = Some id.
  Proof.
    intro H. unfold decode_rr in H.
    err_bind_with H ltac:(eapply decode_rdata_err; eassumption).
    match type of H with (if ?b then _ else _) = _ => destruct b end; [discriminate|].
    injection H as <-. reflexivity.
  Qed.

  (* ---- questions ---- *)
  Lemma decode_question_sound p q c' : decode_question bs id (at_offset bs p) = Ok (q, c') ->
    exists next, QuestionAt bs p q next /\ c' = at_offset bs next /\ next <= llen bs.
  Proof.
    intro H. unfold decode_question in H.
    inv_bind H. apply dname_at_sound in Eq as (p1 & Hn & -> & Hl0).
    inv_bind H. apply u16_or_sound in Eq as (Hty & -> & Hl1).
    inv_bind H. apply u16_or_sound in Eq as (Hcl & -> & Hl2).
    injection H as <- <-. exists (p1 + 4). split; [|split; [f_equal; lia|lia]].
    exists p1. cbn [q_name q_type q_class]. auto.
  Qed.

  Lemma decode_question_complete p q next : QuestionAt bs p q next ->
    decode_question bs id (at_offset bs p) = Ok (q, at_offset bs next).
  Proof.
    intros (p1 & Hn & Hty & Hcl & ->). unfold decode_question.
    rewrite (dname_at_complete _ _ _ Hn). cbn [bind].
    rewrite (u16_or_complete _ _ _ Hty). cbn [bind].
    rewrite (u16_or_complete _ _ _ Hcl). cbn [bind]. norm_pos. destruct q; reflexivity.
  Qed.

  Lemma decode_question_fine p : fine (decode_question bs id (at_offset bs p)).
  Proof.
    unfold decode_question.
    apply fine_bind; [apply dname_at_fine|]. intros [n c1] _.
    apply fine_bind; [apply u16_or_fine|]. intros [v1 c2] _.
    apply fine_bind; [apply u16_or_fine|]. intros [v2 c3] _. auto.
  Qed.

  Lemma decode_question_err c e : decode_question bs id c = Err e -> snd e = Some id.
  Proof. intro H. unfold decode_question in H. err_bind H. discriminate H. Qed.

  (* ---- the four count loops ---- *)
  Section Many.
    Context {A : Type}.
    Variable f : cur -> res werr (A * cur).
    Variable P : N -> A -> N -> Prop.

    Lemma decode_many_sound :
      (forall p x c', f (at_offset bs p) = Ok (x, c') ->
         exists q, P p x q /\ c' = at_offset bs q /\ q <= llen bs) ->
      forall k p xs c', p <= llen bs -> decode_many f k (at_offset bs p) = Ok (xs, c') ->
        exists q, SeqAt P p xs q /\ length xs = k /\ c' = at_offset bs q /\ q <= llen bs.
    Proof.
      intros Hf. induction k as [|k IH]; intros p xs c' Hp H; cbn [decode_many] in H.
      - injection H as <- <-. exists p. cbn [SeqAt length]. auto.
      - inv_bind H. apply Hf in Eq as (q & HP & -> & Hq).
        inv_bind H. apply IH in Eq as (q2 & Hseq & Hlen & -> & Hq2); [|exact Hq].
        injection H as <- <-. exists q2. cbn [SeqAt length].
        split; [exists q; auto|]. split; [congruence|auto].
    Qed.

    Lemma decode_many_complete :
      (forall p x q, P p x q -> f (at_offset bs p) = Ok (x, at_offset bs q)) ->
      forall xs p q, SeqAt P p xs q ->
        decode_many f (length xs) (at_offset bs p) = Ok (xs, at_offset bs q).
    Proof.
      intros Hf. induction xs as [|x xs IH]; intros p q H; cbn [length decode_many SeqAt] in *.
      - subst q. reflexivity.
      - destruct H as (mid & Hx & Hrest). rewrite (Hf _ _ _ Hx). cbn [bind].
        rewrite (IH _ _ Hrest). reflexivity.
    Qed.

    Lemma decode_many_fine :
      (forall p, fine (f (at_offset bs p))) ->
      (forall p x c', f (at_offset bs p) = Ok (x, c') -> exists q, c' = at_offset bs q) ->
      forall k p, fine (decode_many f k (at_offset bs p)).
    Proof.
      intros Hfine Hcur. induction k as [|k IH]; intro p; cbn [decode_many]; [auto|].
      apply fine_bind; [apply Hfine|]. intros [x c1] Eq. apply Hcur in Eq as (q & ->).
      apply fine_bind; [apply IH|]. intros [xs c2] _. auto.
    Qed.

    Lemma decode_many_err :
      (forall c e, f c = Err e -> snd e = Some id) ->
      forall k c e, decode_many f k c = Err e -> snd e = Some id.
    Proof.
      intros Hf. induction k as [|k IH]; intros c e H; cbn [decode_many] in H; [discriminate|].
      destruct (f c) as [[x c1]|e1| |] eqn:E1; cbn [bind] in H; try discriminate.
      - destruct (decode_many f k c1) as [[xs c2]|e2| |] eqn:E2; cbn [bind] in H; try discriminate.
        injection H as <-. eapply IH; eassumption.
      - injection H as <-. eapply Hf; eassumption.
    Qed.
  End Many.
End Body.

(* ------------------------------------------------------------------ *)
(* 5. header                                                           *)
(* ------------------------------------------------------------------ *)

Lemma decode_header_sound (bs : list byte) h c : bytes_ok bs ->
  decode_header (at_offset bs 0) = Ok (h, c) ->
  HeaderIs bs h /\ c = at_offset bs 4 /\ 4 <= llen bs.
Proof.
  intros Hbs H. unfold decode_header in H. rewrite next_u16_at in H.
  change (0 + 1) with 1 in H. change (0 + 2) with 2 in H.
  destruct (at_ bs 0) as [a|] eqn:E0; [|discriminate].
  destruct (at_ bs 1) as [b|] eqn:E1; [|discriminate].
  rewrite next_u8_at in H. destruct (at_ bs 2) as [f1|] eqn:E2; [|discriminate].
  rewrite next_u8_at in H. change (2 + 1) with 3 in H. change (3 + 1) with 4 in H.
  destruct (at_ bs 3) as [f2|] eqn:E3; [|discriminate].
  injection H as <- <-.
  destruct (header_bits f1 (at_byte _ _ _ Hbs E2)) as (B1 & B2 & B3 & B4 & _ & B6 & _).
  destruct (header_bits f2 (at_byte _ _ _ Hbs E3)) as (_ & _ & _ & _ & C5 & _ & C7).
  split; [|split; [reflexivity|apply at_lt in E3; lia]].
  exists f1, f2. cbn [h_id h_qr h_opcode h_aa h_tc h_rd h_ra h_rcode].
  split; [exists a, b; auto|]. repeat split; assumption.
Qed.

Lemma decode_header_complete (bs : list byte) h : bytes_ok bs -> HeaderIs bs h ->
  decode_header (at_offset bs 0) = Ok (h, at_offset bs 4).
Proof.
  intros Hbs (f1 & f2 & (a & b & E0 & E1 & Hid) & E2 & E3 & Hqr & Hop & Haa & Htc & Hrd & Hra & Hrc).
  change (0 + 1) with 1 in E1.
  unfold decode_header. rewrite next_u16_at.
  change (0 + 1) with 1. change (0 + 2) with 2. rewrite E0, E1.
  rewrite next_u8_at, E2. rewrite next_u8_at. change (2 + 1) with 3. change (3 + 1) with 4. rewrite E3.
  destruct (header_bits f1 (at_byte _ _ _ Hbs E2)) as (B1 & B2 & B3 & B4 & _ & B6 & _).
  destruct (header_bits f2 (at_byte _ _ _ Hbs E3)) as (_ & _ & _ & _ & C5 & _ & C7).
  rewrite B1, B2, B3, B4, B6, C5, C7. unfold u16_be.
  destruct h as [i qr op aa tc rd ra rc]; cbn [h_id h_qr h_opcode h_aa h_tc h_rd h_ra h_rcode] in *.
  subst. reflexivity.
Qed.

Lemma decode_header_fine c : fine (decode_header c).
Proof.
  unfold decode_header. destruct (next_u16 c) as [[i c1]|]; [|auto].
  destruct (next_u8 c1) as [[f1 c2]|]; [|auto]. destruct (next_u8 c2) as [[f2 c3]|]; auto.
Qed.

(* the identifier an error message is sent back with: the first two octets *)
Definition first_u16 (bs : list byte) : option N :=
  match bs with a :: b :: _ => Some (a * 256 + b) | _ => None end.

Lemma decode_header_id bs :
  match decode_header (cur_new bs) with
  | Ok (h, _) => first_u16 bs = Some (h_id h)
  | Err e => snd e = first_u16 bs
  | _ => True
  end.
Proof.
  destruct bs as [|a [|b [|f1 [|f2 t]]]]; reflexivity.
Qed.

(* ------------------------------------------------------------------ *)
(* 6. the message decoder                                              *)
(* ------------------------------------------------------------------ *)

(* [decode] with its field reads named *)
Lemma decode_eq bs : decode bs =
  (let* (h, c0) := decode_header (at_offset bs 0) in
   let id := h_id h in
   let* (qd, c1) := u16_or id HeaderTooShort c0 in
   let* (an, c2) := u16_or id HeaderTooShort c1 in
   let* (ns, c3) := u16_or id HeaderTooShort c2 in
   let* (ar, c4) := u16_or id HeaderTooShort c3 in
   let* (qs, c5) := decode_many (decode_question bs id) (N.to_nat qd) c4 in
   let* (ans, c6) := decode_many (decode_rr bs id) (N.to_nat an) c5 in
   let* (auth, c7) := decode_many (decode_rr bs id) (N.to_nat ns) c6 in
   let* (addl, _) := decode_many (decode_rr bs id) (N.to_nat ar) c7 in
   Ok {| m_header := h; m_questions := qs; m_answers := ans; m_authority := auth; m_additional := addl |}).
Proof. reflexivity. Qed.

Lemma llen_to_nat {A} (l : list A) : N.to_nat (llen l) = length l.
Proof. unfold llen. apply Nat2N.id. Qed.

Theorem decode_sound bs m :
  Forall (fun b => b < 256) bs -> decode bs = Ok m -> Parses bs m.
Proof.
  intros Hbs H. rewrite decode_eq in H.
  inv_bind H. apply decode_header_sound in Eq as (Hh & -> & H4); [|exact Hbs].
  cbv zeta in H.
  inv_bind H. apply u16_or_sound in Eq as (Hqd & -> & _).
  inv_bind H. apply u16_or_sound in Eq as (Han & -> & _).
  inv_bind H. apply u16_or_sound in Eq as (Hns & -> & _).
  inv_bind H. apply u16_or_sound in Eq as (Har & -> & H12).
  inv_bind H.
  apply (decode_many_sound bs _ (QuestionAt bs) (decode_question_sound bs Hbs _)) in Eq
    as (p1 & S1 & L1 & -> & Hp1); [|exact H12].
  inv_bind H.
  apply (decode_many_sound bs _ (RRAt bs) (decode_rr_sound bs Hbs _)) in Eq
    as (p2 & S2 & L2 & -> & Hp2); [|exact Hp1].
  inv_bind H.
  apply (decode_many_sound bs _ (RRAt bs) (decode_rr_sound bs Hbs _)) in Eq
    as (p3 & S3 & L3 & -> & Hp3); [|exact Hp2].
  inv_bind H.
  apply (decode_many_sound bs _ (RRAt bs) (decode_rr_sound bs Hbs _)) in Eq
    as (p4 & S4 & L4 & -> & Hp4); [|exact Hp3].
  injection H as <-. unfold Parses. cbn [m_header m_questions m_answers m_authority m_additional].
  assert (Hl : forall {A} (l : list A) n, length l = N.to_nat n -> llen l = n).
  { intros A xs k Hn. unfold llen. rewrite Hn. apply N2Nat.id. }
  rewrite (Hl _ _ _ L1), (Hl _ _ _ L2), (Hl _ _ _ L3), (Hl _ _ _ L4).
  split; [exact Hh|]. split; [exact Hqd|]. split; [plia Han|]. split; [plia Hns|]. split; [plia Har|].
  exists p1, p2, p3, p4. split; [plia S1|]. auto.
Qed.

Theorem decode_complete bs m :
  Forall (fun b => b < 256) bs -> Parses bs m -> decode bs = Ok m.
Proof.
  intros Hbs (Hh & Hqd & Han & Hns & Har & p1 & p2 & p3 & p4 & S1 & S2 & S3 & S4).
  rewrite decode_eq. rewrite (decode_header_complete _ _ Hbs Hh). cbn [bind]. cbv zeta.
  rewrite (u16_or_complete _ _ _ _ _ Hqd). cbn [bind]. norm_pos.
  rewrite (u16_or_complete _ _ _ _ _ Han). cbn [bind]. norm_pos.
  rewrite (u16_or_complete _ _ _ _ _ Hns). cbn [bind]. norm_pos.
  rewrite (u16_or_complete _ _ _ _ _ Har). cbn [bind]. norm_pos.
  rewrite !llen_to_nat.
  rewrite (decode_many_complete bs _ (QuestionAt bs)
             (fun p x q => decode_question_complete bs Hbs _ p x q) _ _ _ S1). cbn [bind].
  rewrite (decode_many_complete bs _ (RRAt bs)
             (fun p x q => decode_rr_complete bs Hbs _ p x q) _ _ _ S2). cbn [bind].
  rewrite (decode_many_complete bs _ (RRAt bs)
             (fun p x q => decode_rr_complete bs Hbs _ p x q) _ _ _ S3). cbn [bind].
  rewrite (decode_many_complete bs _ (RRAt bs)
             (fun p x q => decode_rr_complete bs Hbs _ p x q) _ _ _ S4). cbn [bind].
  destruct m; reflexivity.
Qed.

(* never Panic, never OutOfFuel: the fuel of the model is never the reason a
   decoding ends (HOP_FUEL = 16385 nested calls, LABEL_FUEL = 130 iterations) *)
Theorem decode_total bs :
  Forall (fun b => b < 256) bs -> decode bs <> Panic /\ decode bs <> OutOfFuel.
Proof.
  intros Hbs. change (fine (decode bs)). rewrite decode_eq.
  apply fine_bind; [apply decode_header_fine|]. intros [h c0] Eq.
  apply decode_header_sound in Eq as (_ & -> & _); [|exact Hbs]. cbv zeta.
  apply fine_bind; [apply u16_or_fine|]. intros [qd c1] Eq. apply u16_or_sound in Eq as (_ & -> & _).
  apply fine_bind; [apply u16_or_fine|]. intros [an c2] Eq. apply u16_or_sound in Eq as (_ & -> & _).
  apply fine_bind; [apply u16_or_fine|]. intros [ns c3] Eq. apply u16_or_sound in Eq as (_ & -> & _).
  apply fine_bind; [apply u16_or_fine|]. intros [ar c4] Eq. apply u16_or_sound in Eq as (_ & -> & H12).
  assert (HQ : forall p x c', decode_question bs (h_id h) (at_offset bs p) = Ok (x, c') ->
                              exists q, c' = at_offset bs q).
  { intros p x c' Hd. apply decode_question_sound in Hd as (q & _ & -> & _); [eauto|exact Hbs]. }
  assert (HR : forall p x c', decode_rr bs (h_id h) (at_offset bs p) = Ok (x, c') ->
                              exists q, c' = at_offset bs q).
  { intros p x c' Hd. apply decode_rr_sound in Hd as (q & _ & -> & _); [eauto|exact Hbs]. }
  apply fine_bind; [apply (decode_many_fine bs _ (decode_question_fine bs Hbs _) HQ)|].
  intros [qs c5] Eq.
  apply (decode_many_sound bs _ (QuestionAt bs) (decode_question_sound bs Hbs _)) in Eq
    as (p1 & _ & _ & -> & Hp1); [|exact H12].
  apply fine_bind; [apply (decode_many_fine bs _ (decode_rr_fine bs Hbs _) HR)|].
  intros [ans c6] Eq.
  apply (decode_many_sound bs _ (RRAt bs) (decode_rr_sound bs Hbs _)) in Eq
    as (p2 & _ & _ & -> & Hp2); [|exact Hp1].
  apply fine_bind; [apply (decode_many_fine bs _ (decode_rr_fine bs Hbs _) HR)|].
  intros [auth c7] Eq.
  apply (decode_many_sound bs _ (RRAt bs) (decode_rr_sound bs Hbs _)) in Eq
    as (p3 & _ & _ & -> & Hp3); [|exact Hp2].
  apply fine_bind; [apply (decode_many_fine bs _ (decode_rr_fine bs Hbs _) HR)|].
  intros [addl c8] _. auto.
Qed.

(* every error carries the first two octets as its id, when there are two *)
Theorem decode_err_first bs e : decode bs = Err e -> werr_id e = first_u16 bs.
Proof.
  intro H. unfold werr_id. rewrite decode_eq in H.
  pose proof (decode_header_id bs) as Hid. change (cur_new bs) with (at_offset bs 0) in Hid.
  destruct (decode_header (at_offset bs 0)) as [[h c0]|e0| |]; cbn [bind] in H; try discriminate.
  - cbv zeta in H. rewrite Hid.
    repeat match type of H with
           | bind ?r _ = Err _ =>
             let Eq := fresh "Eq" in
             destruct r as [[? ?]|?| |] eqn:Eq; cbn [bind] in H;
             [ | injection H as <-;
                 first [ eapply u16_or_err; eassumption
                       | eapply decode_many_err; [|eassumption];
                         first [apply decode_question_err | apply decode_rr_err] ]
               | discriminate H | discriminate H ]
           end.
    discriminate H.
  - injection H as <-. exact Hid.
Qed.

Theorem decode_err_id bs e : decode bs = Err e ->
  (2 <= llen bs -> exists a b, at_ bs 0 = Some a /\ at_ bs 1 = Some b /\ werr_id e = Some (a * 256 + b))
  /\ (llen bs < 2 -> werr_id e = None).
Proof.
  intro H. apply decode_err_first in H. rewrite H.
  destruct bs as [|a [|b t]]; cbn [first_u16]; split; intro Hl; try reflexivity;
    try (unfold llen in Hl; cbn [length] in Hl; lia).
  exists a, b. auto.
Qed.

(* ------------------------------------------------------------------ *)
(* 7. what the grammar accepts is well formed                          *)
(* ------------------------------------------------------------------ *)

Lemma wd_lower_small b : b < 256 -> lower b < 256.
Proof.
  unfold lower, is_upper. destruct (N.leb_spec 65 b); destruct (N.leb_spec b 90); cbn [andb]; lia.
Qed.

Lemma wd_lower_not_upper b : is_upper (lower b) = false.
Proof.
  unfold lower. destruct (is_upper b) eqn:Eu; [|exact Eu]. unfold is_upper in *.
  apply andb_true_iff in Eu as [E1 E2]. apply N.leb_le in E1, E2.
  apply andb_false_iff. right. apply N.leb_gt. lia.
Qed.

Section Wf.
  Variable bs : list byte.
  Hypothesis Hbs : bytes_ok bs.

  Lemma NameAt_front start pos ls next : NameAt bs start pos ls next ->
    exists front, ls = front ++ [[]] /\ Forall (fun l => l <> [] /\ wf_label l) front.
  Proof.
    intro H. induction H as [start pos Hz | start pos sz os ls next Hsz Hrange Hos Hna IH
                            | start pos hi lo ls nx Hhi H192 Hlo Hlt Hna IH].
    - exists []. split; [reflexivity|constructor].
    - destruct IH as (front & -> & Hf). exists (map lower os :: front). split; [reflexivity|].
      constructor; [|exact Hf].
      pose proof (sliceN_bytes _ _ _ _ Hbs Hos) as Hob.
      apply sliceN_spec in Hos as (Hl & _). unfold byte in Hl.
      split.
      + intro En. apply map_eq_nil in En. subst os. unfold llen in Hl. cbn [length] in Hl. lia.
      + split; [rewrite wd_llen_map; lia|]. apply Forall_map.
        unfold bytes_ok in Hob. rewrite Forall_forall in *. intros b Hb.
        split; [apply wd_lower_small, Hob, Hb | apply wd_lower_not_upper].
    - exact IH.
  Qed.

  Lemma NameIs_wf pos n next : NameIs bs pos n next -> wf_name n.
  Proof.
    intros (Hna & Hl & H255). destruct (NameAt_front _ _ _ _ Hna) as (front & Efr & Hf).
    split; [|exact Hl]. exists front. split; [exact Efr|]. split; [exact Hf|lia].
  Qed.

  Lemma u16At_lt p v : u16At bs p v -> u16 v.
  Proof.
    intros (a & b & Ea & Eb & ->). apply (at_byte _ _ _ Hbs) in Ea, Eb. unfold u16. lia.
  Qed.

  Lemma u32At_lt p v : u32At bs p v -> u32 v.
  Proof.
    intros (a & b & c & d & Ea & Eb & Ec & Ed & ->).
    apply (at_byte _ _ _ Hbs) in Ea, Eb, Ec, Ed. unfold u32. lia.
  Qed.

  Lemma u16sAt_lt : forall vs p, u16sAt bs p vs -> Forall u16 vs.
  Proof.
    induction vs as [|v vs IH]; intros p H; [constructor|].
    destruct H as [Hv Hvs]. constructor; [eapply u16At_lt; eassumption|eapply IH; eassumption].
  Qed.

  Lemma RDataAt_wf ty len pos d next : RDataAt bs ty len pos d next -> wf_rdata ty d.
  Proof.
    intro H. unfold wf_rdata.
    destruct H as [a Hsh Ha | n nx Hsh Hn | m r serial refresh retry expire minimum p1 p2 Hsh Hm Hr H1 H2 H3 H4 H5
                  | os Hsh Hos | r e p1 p2 Hsh Hr He | pr e nx Hsh Hp1 He | segs Hsh Hlen Hs
                  | pr w o t nx Hsh H1 H2 H3 Ht]; cbn [shape_of_rdata]; (split; [symmetry; exact Hsh|]).
    - eapply u32At_lt; eassumption.
    - eapply NameIs_wf; eassumption.
    - repeat split; first [eapply NameIs_wf; eassumption | eapply u32At_lt; eassumption].
    - eapply sliceN_bytes; eassumption.
    - split; eapply NameIs_wf; eassumption.
    - split; [eapply u16At_lt; eassumption|eapply NameIs_wf; eassumption].
    - split; [exact Hlen|eapply u16sAt_lt; eassumption].
    - repeat split; first [eapply NameIs_wf; eassumption | eapply u16At_lt; eassumption].
  Qed.

  Lemma RRAt_wf pos r next : RRAt bs pos r next -> wf_rr r.
  Proof.
    intros (p1 & len & Hn & Hty & Hcl & Httl & Hlen & Hd & _). unfold wf_rr.
    split; [eapply NameIs_wf; eassumption|]. split; [eapply u16At_lt; eassumption|].
    split; [eapply u16At_lt; eassumption|]. split; [eapply u32At_lt; eassumption|].
    eapply RDataAt_wf; eassumption.
  Qed.

  Lemma QuestionAt_wf pos q next : QuestionAt bs pos q next -> wf_question q.
  Proof.
    intros (p1 & Hn & Hty & Hcl & _). unfold wf_question.
    split; [eapply NameIs_wf; eassumption|]. split; eapply u16At_lt; eassumption.
  Qed.

  Lemma SeqAt_Forall {A} (P : N -> A -> N -> Prop) (Q : A -> Prop) :
    (forall p x q, P p x q -> Q x) -> forall xs p q, SeqAt P p xs q -> Forall Q xs.
  Proof.
    intros HPQ. induction xs as [|x xs IH]; intros p q H; [constructor|].
    destruct H as (mid & Hx & Hrest). constructor; [eapply HPQ; eassumption|eapply IH; eassumption].
  Qed.

  Lemma HeaderIs_wf h : HeaderIs bs h -> wf_header h.
  Proof.
    intros (f1 & f2 & Hid & _ & _ & _ & Hop & _ & _ & _ & _ & Hrc). unfold wf_header.
    split; [eapply u16At_lt; eassumption|]. rewrite Hop, Hrc.
    split; apply N.mod_lt; lia.
  Qed.

  Theorem Parses_wf m : Parses bs m -> wf_message m.
  Proof.
    intros (Hh & _ & _ & _ & _ & p1 & p2 & p3 & p4 & S1 & S2 & S3 & S4). unfold wf_message.
    split; [apply HeaderIs_wf; exact Hh|].
    split; [eapply SeqAt_Forall; [apply QuestionAt_wf|exact S1]|].
    split; [eapply SeqAt_Forall; [apply RRAt_wf|exact S2]|].
    split; eapply SeqAt_Forall; first [apply RRAt_wf|eassumption].
  Qed.
End Wf.

Theorem decode_wf bs m :
  Forall (fun b => b < 256) bs -> decode bs = Ok m -> wf_message m.
Proof.
  intros Hbs H. eapply Parses_wf; [exact Hbs|]. apply decode_sound; assumption.
Qed.

Lemma decode_short bs : llen bs < 2 -> decode bs = Err (CompletelyBusted, None).
Proof.
  destruct bs as [|a [|b t]]; intro H; try reflexivity.
  exfalso. unfold llen in H. cbn [length] in H. lia.
Qed.
