(* Wire/WireModel.v -- executable model of protocol/deserialise.rs
   (Message::from_octets) and protocol/serialise.rs (Message::to_octets).
   Definitions only. *)
From RV Require Import Base.Prelude Base.Cursor Name.NameModel Wire.WireTypes.

(* ------------------------------------------------------------------ *)
(* decoder                                                             *)
(* ------------------------------------------------------------------ *)

(* error = kind + the id carried (None for CompletelyBusted) *)
Definition werr := (werr_kind * option N)%type.

Definition bit (flags mask : N) : bool := negb (N.land flags mask =? 0).

(* Header::deserialise *)
Definition decode_header (c : cur) : res werr (header * cur) :=
  match next_u16 c with
  | None => Err (CompletelyBusted, None)
  | Some (id, c1) =>
    match next_u8 c1 with
    | None => Err (HeaderTooShort, Some id)
    | Some (flags1, c2) =>
      match next_u8 c2 with
      | None => Err (HeaderTooShort, Some id)
      | Some (flags2, c3) =>
        Ok ({| h_id := id;
               h_qr := bit flags1 HEADER_MASK_QR;
               h_opcode := N.land (N.shiftr (N.land flags1 HEADER_MASK_OPCODE) HEADER_OFFSET_OPCODE) OPCODE_FROM_MASK;
               h_aa := bit flags1 HEADER_MASK_AA;
               h_tc := bit flags1 HEADER_MASK_TC;
               h_rd := bit flags1 HEADER_MASK_RD;
               h_ra := bit flags2 HEADER_MASK_RA;
               h_rcode := N.land (N.shiftr (N.land flags2 HEADER_MASK_RCODE) HEADER_OFFSET_RCODE) RCODE_FROM_MASK |}, c3)
      end
    end
  end.

Section WithBuffer.
  Variable bs : list byte.        (* the whole message, for pointers *)
  Variable id : N.

  Definition E (k : werr_kind) : werr := (k, Some id).

  Definition dname_at (c : cur) : res werr (dname * cur) :=
    match decode_name HOP_FUEL bs c with
    | Ok x => Ok x
    | Err k => Err (E k)
    | Panic => Panic
    | OutOfFuel => OutOfFuel
    end.

  Definition u8_or (k : werr_kind) (c : cur) : res werr (N * cur) := of_opt (next_u8 c) (E k).
  Definition u16_or (k : werr_kind) (c : cur) : res werr (N * cur) := of_opt (next_u16 c) (E k).
  Definition u32_or (k : werr_kind) (c : cur) : res werr (N * cur) := of_opt (next_u32 c) (E k).

  (* Question::deserialise *)
  Definition decode_question (c : cur) : res werr (question * cur) :=
    let* (n, c1) := dname_at c in
    let* (qt, c2) := u16_or QuestionTooShort c1 in
    let* (qc, c3) := u16_or QuestionTooShort c2 in
    Ok ({| q_name := n; q_type := qt; q_class := qc |}, c3).

  Fixpoint decode_u16s (k : nat) (c : cur) : res werr (list N * cur) :=
    match k with
    | O => Ok ([], c)
    | S k' => let* (v, c1) := u16_or ResourceRecordTooShort c in
              let* (vs, c2) := decode_u16s k' c1 in
              Ok (v :: vs, c2)
    end.

  (* the RDATA part of ResourceRecord::deserialise *)
  Definition decode_rdata (rtype rdlength : N) (c : cur) : res werr (rdata * cur) :=
    match shape_of_type rtype with
    | ShA => let* (a, c1) := u32_or ResourceRecordTooShort c in Ok (RD_A a, c1)
    | ShName => let* (n, c1) := dname_at c in Ok (RD_Name n, c1)
    | ShSOA =>
      let* (m, c1) := dname_at c in
      let* (r, c2) := dname_at c1 in
      let* (serial, c3) := u32_or ResourceRecordTooShort c2 in
      let* (refresh, c4) := u32_or ResourceRecordTooShort c3 in
      let* (retry, c5) := u32_or ResourceRecordTooShort c4 in
      let* (expire, c6) := u32_or ResourceRecordTooShort c5 in
      let* (minimum, c7) := u32_or ResourceRecordTooShort c6 in
      Ok (RD_SOA m r serial refresh retry expire minimum, c7)
    | ShOctets =>
      match take rdlength c with
      | Some (os, c1) => Ok (RD_Octets os, c1)
      | None => Err (E ResourceRecordTooShort)
      end
    | ShMINFO =>
      let* (r, c1) := dname_at c in
      let* (e, c2) := dname_at c1 in
      Ok (RD_MINFO r e, c2)
    | ShMX =>
      let* (p, c1) := u16_or ResourceRecordTooShort c in
      let* (e, c2) := dname_at c1 in
      Ok (RD_MX p e, c2)
    | ShAAAA => let* (segs, c1) := decode_u16s 8 c in Ok (RD_AAAA segs, c1)
    | ShSRV =>
      let* (p, c1) := u16_or ResourceRecordTooShort c in
      let* (w, c2) := u16_or ResourceRecordTooShort c1 in
      let* (o, c3) := u16_or ResourceRecordTooShort c2 in
      let* (t, c4) := dname_at c3 in
      Ok (RD_SRV p w o t, c4)
    end.

  (* ResourceRecord::deserialise *)
  Definition decode_rr (c : cur) : res werr (rr * cur) :=
    let* (n, c1) := dname_at c in
    let* (rtype, c2) := u16_or ResourceRecordTooShort c1 in
    let* (rclass, c3) := u16_or ResourceRecordTooShort c2 in
    let* (ttl, c4) := u32_or ResourceRecordTooShort c3 in
    let* (rdlength, c5) := u16_or ResourceRecordTooShort c4 in
    let rdata_start := cpos c5 in
    let* (d, c6) := decode_rdata rtype rdlength c5 in
    if cpos c6 =? rdata_start + rdlength then
      Ok ({| rr_name := n; rr_type := rtype; rr_class := rclass; rr_ttl := ttl; rr_data := d |}, c6)
    else Err (E ResourceRecordInvalid).

  (* `for _ in 0..count { v.push(f(buffer)?) }` *)
  Fixpoint decode_many {A} (f : cur -> res werr (A * cur)) (count : nat) (c : cur)
    : res werr (list A * cur) :=
    match count with
    | O => Ok ([], c)
    | S k => let* (x, c1) := f c in
             let* (xs, c2) := decode_many f k c1 in
             Ok (x :: xs, c2)
    end.
End WithBuffer.

(* Message::from_octets *)
Definition decode (bs : list byte) : res werr message :=
  let* (h, c0) := decode_header (cur_new bs) in
  let id := h_id h in
  let hts := (HeaderTooShort, Some id) in
  let* (qd, c1) := of_opt (next_u16 c0) hts in
  let* (an, c2) := of_opt (next_u16 c1) hts in
  let* (ns, c3) := of_opt (next_u16 c2) hts in
  let* (ar, c4) := of_opt (next_u16 c3) hts in
  let* (qs, c5) := decode_many (decode_question bs id) (N.to_nat qd) c4 in
  let* (ans, c6) := decode_many (decode_rr bs id) (N.to_nat an) c5 in
  let* (auth, c7) := decode_many (decode_rr bs id) (N.to_nat ns) c6 in
  let* (addl, _) := decode_many (decode_rr bs id) (N.to_nat ar) c7 in
  Ok {| m_header := h; m_questions := qs; m_answers := ans; m_authority := auth; m_additional := addl |}.

(* Error::id() *)
Definition werr_id (e : werr) : option N := snd e.

(* ------------------------------------------------------------------ *)
(* encoder                                                             *)
(* ------------------------------------------------------------------ *)

(* WritableBuffer: octets (in order) and the name_pointers map.  The buffer is
   kept reversed-free: [wb_octets] is the bytes written so far; [wb_len] its
   length (kept explicitly so that index() is O(1)). *)
Record wbuf := { wb_rev : list byte;      (* octets written so far, REVERSED *)
                 wb_len : N;              (* = length of wb_rev *)
                 wb_ptrs : list (dname * N) }.

Definition wb_empty : wbuf := {| wb_rev := []; wb_len := 0; wb_ptrs := [] |}.
(* = rev (wb_rev b) (lemma wb_octets_rev in Wire/WireModelFacts.v); rev_append is linear *)
Definition wb_octets (b : wbuf) : list byte := rev_append (wb_rev b) [].

Definition write_octets (os : list byte) (b : wbuf) : wbuf :=
  {| wb_rev := rev_append os (wb_rev b); wb_len := wb_len b + llen os; wb_ptrs := wb_ptrs b |}.
Definition write_u8 (v : N) (b : wbuf) : wbuf := write_octets [v] b.
Definition write_u16 (v : N) (b : wbuf) : wbuf := write_octets (u16_bytes v) b.
Definition write_u32 (v : N) (b : wbuf) : wbuf := write_octets (u32_bytes v) b.

(* memoise_name (after the fix: only offsets below 0x4000 are memoised) *)
Definition memoise_name (n : dname) (b : wbuf) : wbuf :=
  if negb (is_root n) && negb (match alookup dname_eqb n (wb_ptrs b) with Some _ => true | None => false end)
  then if (wb_len b <? 65536) && (wb_len b <? 16384)
       then {| wb_rev := wb_rev b; wb_len := wb_len b;
               wb_ptrs := wb_ptrs b ++ [(n, u16_be (N.lor (u16_hi (wb_len b)) 192) (u16_lo (wb_len b)))] |}
       else b
  else b.

Definition write_labels (ls : list label) (b : wbuf) : wbuf :=
  fold_left (fun acc l => write_octets l (write_u8 (llen l) acc)) ls b.

(* DomainName::serialise *)
Definition encode_name (n : dname) (compress : bool) (b : wbuf) : wbuf :=
  match (if compress then alookup dname_eqb n (wb_ptrs b) else None) with
  | Some ptr => write_u16 ptr b
  | None => write_labels (labels n) (memoise_name n b)
  end.

(* Header::serialise *)
Definition encode_header (h : header) (b : wbuf) : wbuf :=
  let flag (x : bool) (m : N) := if x then m else 0 in
  let field_opcode := N.land HEADER_MASK_OPCODE (N.land (N.shiftl (h_opcode h) HEADER_OFFSET_OPCODE) 255) in
  let field_rcode := N.land HEADER_MASK_RCODE (N.land (N.shiftl (h_rcode h) HEADER_OFFSET_RCODE) 255) in
  let f1 := N.lor (N.lor (N.lor (N.lor (flag (h_qr h) HEADER_MASK_QR) field_opcode)
                                 (flag (h_aa h) HEADER_MASK_AA)) (flag (h_tc h) HEADER_MASK_TC))
                  (flag (h_rd h) HEADER_MASK_RD) in
  let f2 := N.lor (flag (h_ra h) HEADER_MASK_RA) field_rcode in
  write_u8 f2 (write_u8 f1 (write_u16 (h_id h) b)).

Definition encode_question (q : question) (b : wbuf) : wbuf :=
  write_u16 (q_class q) (write_u16 (q_type q) (encode_name (q_name q) true b)).

Definition encode_rdata (d : rdata) (b : wbuf) : wbuf :=
  match d with
  | RD_A a => write_octets (u32_bytes a) b
  | RD_Name n => encode_name n false b
  | RD_SOA m r serial refresh retry expire minimum =>
    write_u32 minimum (write_u32 expire (write_u32 retry (write_u32 refresh (write_u32 serial
      (encode_name r false (encode_name m false b))))))
  | RD_Octets os => write_octets os b
  | RD_MINFO r e => encode_name e false (encode_name r false b)
  | RD_MX p e => encode_name e false (write_u16 p b)
  | RD_AAAA segs => write_octets (flat_map u16_bytes segs) b
  | RD_SRV p w o t => encode_name t false (write_u16 o (write_u16 w (write_u16 p b)))
  end.

(* serialisation errors: CounterTooLarge *)
Inductive serr := CounterTooLarge (counter : N).

(* ResourceRecord::serialise: RDLENGTH is back-patched; functionally: encode the
   RDATA after a 2-octet placeholder, then overwrite the placeholder *)
Definition patch_u16 (at_ v : N) (b : wbuf) : wbuf :=
  (* overwrite octets [at_], [at_+1] of the buffer with v (big endian) *)
  let k := N.to_nat (wb_len b - at_ - 2) in            (* octets after the field *)
  let tail := firstn k (wb_rev b) in                   (* reversed: newest first *)
  let before := skipn (k + 2) (wb_rev b) in
  {| wb_rev := tail ++ u16_lo v :: u16_hi v :: before; wb_len := wb_len b; wb_ptrs := wb_ptrs b |}.

Definition encode_rr (r : rr) (b : wbuf) : res serr wbuf :=
  let b1 := encode_name (rr_name r) true b in
  let b2 := write_u32 (rr_ttl r) (write_u16 (rr_class r) (write_u16 (rr_type r) b1)) in
  let rdlength_index := wb_len b2 in
  let b3 := write_u16 0 b2 in
  let b4 := encode_rdata (rr_data r) b3 in
  let rdlen := wb_len b4 - rdlength_index - 2 in
  if rdlen <? 65536 then Ok (patch_u16 rdlength_index rdlen b4)
  else Err (CounterTooLarge rdlen).

Fixpoint encode_rrs (rs : list rr) (b : wbuf) : res serr wbuf :=
  match rs with
  | [] => Ok b
  | r :: t => let* b1 := encode_rr r b in encode_rrs t b1
  end.

Definition usize_to_u16 (n : N) : res serr N := if n <? 65536 then Ok n else Err (CounterTooLarge n).

(* Message::to_octets *)
Definition encode (m : message) : res serr (list byte) :=
  let* qd := usize_to_u16 (llen (m_questions m)) in
  let* an := usize_to_u16 (llen (m_answers m)) in
  let* ns := usize_to_u16 (llen (m_authority m)) in
  let* ar := usize_to_u16 (llen (m_additional m)) in
  let b0 := write_u16 ar (write_u16 ns (write_u16 an (write_u16 qd (encode_header (m_header m) wb_empty)))) in
  let b1 := fold_left (fun acc q => encode_question q acc) (m_questions m) b0 in
  let* b2 := encode_rrs (m_answers m) b1 in
  let* b3 := encode_rrs (m_authority m) b2 in
  let* b4 := encode_rrs (m_additional m) b3 in
  Ok (wb_octets b4).
