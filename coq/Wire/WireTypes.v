(* Wire/WireTypes.v -- the data types of protocol/types.rs shared by every model:
   Header, Question, ResourceRecord, RecordTypeWithData, Message.

   Representation choices (each justified by a table lemma in Base/TablesOk.v):
   * RecordType / QueryType / RecordClass / QueryClass are their u16 codes
     (From<u16>/Into<u16> are mutually inverse bijections);
   * Opcode / Rcode are their 4-bit codes;
   * RecordTypeWithData is (type code, rdata) where the shape of the rdata is
     determined by the code ([shape_of_type]); [wf_rr] states that. *)
From RV Require Import Base.Prelude Name.NameModel.

Inductive rdata :=
| RD_A (addr : N)                                   (* u32 *)
| RD_Name (n : dname)                               (* NS MD MF CNAME MB MG MR PTR *)
| RD_SOA (mname rname : dname) (serial refresh retry expire minimum : N)
| RD_Octets (os : list byte)                        (* NULL WKS HINFO TXT Unknown *)
| RD_MINFO (rmailbx emailbx : dname)
| RD_MX (preference : N) (exchange : dname)
| RD_AAAA (segs : list N)                           (* 8 x u16 *)
| RD_SRV (priority weight port : N) (target : dname).

Inductive shape := ShA | ShName | ShSOA | ShOctets | ShMINFO | ShMX | ShAAAA | ShSRV.

Definition shape_of_type (t : N) : shape :=
  if t =? RT_A then ShA
  else if (t =? RT_NS) || (t =? RT_MD) || (t =? RT_MF) || (t =? RT_CNAME)
          || (t =? RT_MB) || (t =? RT_MG) || (t =? RT_MR) || (t =? RT_PTR) then ShName
  else if t =? RT_SOA then ShSOA
  else if t =? RT_MINFO then ShMINFO
  else if t =? RT_MX then ShMX
  else if t =? RT_AAAA then ShAAAA
  else if t =? RT_SRV then ShSRV
  else ShOctets.                                     (* NULL WKS HINFO TXT Unknown(_) *)

Definition shape_of_rdata (d : rdata) : shape :=
  match d with
  | RD_A _ => ShA | RD_Name _ => ShName | RD_SOA _ _ _ _ _ _ _ => ShSOA
  | RD_Octets _ => ShOctets | RD_MINFO _ _ => ShMINFO | RD_MX _ _ => ShMX
  | RD_AAAA _ => ShAAAA | RD_SRV _ _ _ _ => ShSRV
  end.

Definition shape_eqb (a b : shape) : bool :=
  match a, b with
  | ShA, ShA | ShName, ShName | ShSOA, ShSOA | ShOctets, ShOctets
  | ShMINFO, ShMINFO | ShMX, ShMX | ShAAAA, ShAAAA | ShSRV, ShSRV => true
  | _, _ => false
  end.

(* RecordType::is_unknown: not one of the 18 known codes *)
Definition rtype_known (t : N) : bool := existsb (fun p => N.eqb (fst p) t) rtype_table.
Definition rtype_is_unknown (t : N) : bool := negb (rtype_known t).
(* QueryType::is_unknown: Record(Unknown) *)
Definition qtype_is_unknown (t : N) : bool :=
  negb (existsb (fun p => N.eqb (fst p) t) qtype_table) && rtype_is_unknown t.
Definition rclass_is_unknown (c : N) : bool := negb (c =? RC_IN).
Definition qclass_is_unknown (c : N) : bool := negb (c =? QC_Wildcard) && rclass_is_unknown c.

(* RecordType::matches(qtype) *)
Definition rtype_matches (t qt : N) : bool :=
  if qt =? QT_Wildcard then true
  else if existsb (fun p => N.eqb (fst p) qt) qtype_table then false   (* AXFR MAILB MAILA *)
  else t =? qt.
Definition rclass_matches (c qc : N) : bool :=
  if qc =? QC_Wildcard then true else c =? qc.

Definition rdata_eqb (a b : rdata) : bool :=
  match a, b with
  | RD_A x, RD_A y => x =? y
  | RD_Name x, RD_Name y => dname_eqb x y
  | RD_SOA m1 r1 a1 b1 c1 d1 e1, RD_SOA m2 r2 a2 b2 c2 d2 e2 =>
    dname_eqb m1 m2 && dname_eqb r1 r2 && (a1 =? a2) && (b1 =? b2) && (c1 =? c2) && (d1 =? d2) && (e1 =? e2)
  | RD_Octets x, RD_Octets y => leqb x y
  | RD_MINFO r1 e1, RD_MINFO r2 e2 => dname_eqb r1 r2 && dname_eqb e1 e2
  | RD_MX p1 e1, RD_MX p2 e2 => (p1 =? p2) && dname_eqb e1 e2
  | RD_AAAA x, RD_AAAA y => leqb x y
  | RD_SRV p1 w1 o1 t1, RD_SRV p2 w2 o2 t2 => (p1 =? p2) && (w1 =? w2) && (o1 =? o2) && dname_eqb t1 t2
  | _, _ => false
  end.

Record rr := { rr_name : dname; rr_type : N; rr_class : N; rr_ttl : N; rr_data : rdata }.

Definition rr_eqb (a b : rr) : bool :=
  dname_eqb (rr_name a) (rr_name b) && (rr_type a =? rr_type b) && (rr_class a =? rr_class b)
  && (rr_ttl a =? rr_ttl b) && rdata_eqb (rr_data a) (rr_data b).

Record question := { q_name : dname; q_type : N; q_class : N }.

Definition question_eqb (a b : question) : bool :=
  dname_eqb (q_name a) (q_name b) && (q_type a =? q_type b) && (q_class a =? q_class b).

Definition question_is_unknown (q : question) : bool :=
  qtype_is_unknown (q_type q) || qclass_is_unknown (q_class q).
Definition rr_is_unknown (r : rr) : bool :=
  rtype_is_unknown (rr_type r) || rclass_is_unknown (rr_class r).
Definition rr_matches (r : rr) (q : question) : bool :=
  rtype_matches (rr_type r) (q_type q) && rclass_matches (rr_class r) (q_class q).

Record header := {
  h_id : N; h_qr : bool; h_opcode : N; h_aa : bool; h_tc : bool; h_rd : bool; h_ra : bool; h_rcode : N }.

Record message := {
  m_header : header;
  m_questions : list question;
  m_answers : list rr;
  m_authority : list rr;
  m_additional : list rr }.

(* Message::make_response *)
Definition make_response (m : message) : message :=
  {| m_header := {| h_id := h_id (m_header m); h_qr := true; h_opcode := h_opcode (m_header m);
                    h_aa := false; h_tc := false; h_rd := h_rd (m_header m); h_ra := true;
                    h_rcode := RCODE_NoError |};
     m_questions := m_questions m; m_answers := []; m_authority := []; m_additional := [] |}.

Definition make_format_error_response (id : N) : message :=
  {| m_header := {| h_id := id; h_qr := true; h_opcode := OPCODE_Standard; h_aa := false; h_tc := false;
                    h_rd := false; h_ra := true; h_rcode := RCODE_FormatError |};
     m_questions := []; m_answers := []; m_authority := []; m_additional := [] |}.

Definition from_question (id : N) (q : question) : message :=
  {| m_header := {| h_id := id; h_qr := false; h_opcode := OPCODE_Standard; h_aa := false; h_tc := false;
                    h_rd := false; h_ra := false; h_rcode := RCODE_NoError |};
     m_questions := [q]; m_answers := []; m_authority := []; m_additional := [] |}.

(* well-formedness of values as the public constructors build them *)
Definition u16 (x : N) : Prop := x < 65536.
Definition u32 (x : N) : Prop := x < 4294967296.
