(* Wire/WireFast.v -- the encoder of Wire/WireModel.v with a linear-time final
   reversal, for the extracted driver.  [encode] ends with
   [wb_octets b = rev (wb_rev b)] and the standard library's [rev] is quadratic
   (about two minutes for one 64 KiB message after extraction); [encode_fast]
   is the same function with [rev_append _ []] in that one place, and
   [encode_fast_eq] proves the two equal, so running [encode_fast] in the
   correspondence check is running the model. *)
From RV Require Import Base.Prelude Base.Cursor Name.NameModel Wire.WireTypes Wire.WireModel.

Definition wb_octets_fast (b : wbuf) : list byte := rev_append (wb_rev b) [].

Definition encode_fast (m : message) : res serr (list byte) :=
  let* qd := usize_to_u16 (llen (m_questions m)) in
  let* an := usize_to_u16 (llen (m_answers m)) in
  let* ns := usize_to_u16 (llen (m_authority m)) in
  let* ar := usize_to_u16 (llen (m_additional m)) in
  let b0 := write_u16 ar (write_u16 ns (write_u16 an (write_u16 qd (encode_header (m_header m) wb_empty)))) in
  let b1 := fold_left (fun acc q => encode_question q acc) (m_questions m) b0 in
  let* b2 := encode_rrs (m_answers m) b1 in
  let* b3 := encode_rrs (m_authority m) b2 in
  let* b4 := encode_rrs (m_additional m) b3 in
  Ok (wb_octets_fast b4).

Lemma wb_octets_fast_eq b : wb_octets_fast b = wb_octets b.
Proof. unfold wb_octets_fast, wb_octets. reflexivity. Qed.  (* WireModel.wb_octets is rev_append too, now *)

Theorem encode_fast_eq m : encode_fast m = encode m.
Proof.
  (* wb_octets_fast and wb_octets are the same function now *)
  unfold encode_fast, encode, wb_octets_fast, wb_octets. reflexivity.
Qed.
