(* Wire/WireModelFacts.v -- characterising lemmas for the encoder's buffer. *)
From RV Require Import Base.Prelude Wire.WireTypes Wire.WireModel.

Lemma wb_octets_rev (b : wbuf) : wb_octets b = rev (wb_rev b).
Proof. unfold wb_octets. symmetry. apply rev_alt. Qed.
