(* Wire/WireEncodeProofs.v -- C04: the encoder of Wire/WireModel.v (a model of
   protocol/serialise.rs) produces byte strings that the relational grammar of
   Wire/WireGrammar.v parses back to the same message.

   Structure:
     1. list / N helpers, append-stability of the grammar predicates
     2. plain (pointer-free) names: [wire_labels], [PlainAt], [plain_NameAt]
     3. the buffer invariant [wb_ok] (enc_table_inv) and its preservation
     4. encode_name / encode_rdata / encode_question / encode_rr / header
     5. RDLENGTH back-patching eliminated ([encode_rr_unpatched])
     6. encode_parses, encode_bytes, encode_succeeds *)
From Coq Require Import ZArith.
From RV Require Import Base.Prelude Base.Cursor Name.NameModel Name.NameSpec
  Wire.WireTypes Wire.WireModel Wire.WireModelFacts Wire.WireGrammar.
Open Scope N_scope.

(* lia with division / modulo by constants *)
Ltac dlia := zify; Z.to_euclidean_division_equations; lia.
(* split syntactic conjunctions only (never unfolds a definition, never splits an [exists]) *)
(* equalities between differently bracketed appends / conses *)
Ltac norm_app := cbn [app]; rewrite <- ?app_assoc; cbn [app]; rewrite <- ?app_assoc; reflexivity.
Ltac splits := repeat match goal with |- _ /\ _ => split end.

(* ------------------------------------------------------------------ *)
(* 1. helpers                                                          *)
(* ------------------------------------------------------------------ *)

Lemma llen_nil {A} : llen (@nil A) = 0.
Proof. reflexivity. Qed.
Lemma llen_cons {A} (x : A) l : llen (x :: l) = 1 + llen l.
Proof. unfold llen; cbn [length]; lia. Qed.
Lemma llen_app {A} (a b : list A) : llen (a ++ b) = llen a + llen b.
Proof. unfold llen; rewrite app_length; lia. Qed.

Lemma leqb_eq a b : leqb a b = true <-> a = b.
Proof.
  revert b; induction a as [|x a IH]; destruct b as [|y b]; cbn; split; try congruence; intros H.
  - apply andb_true_iff in H as [H1 H2]. apply N.eqb_eq in H1. apply IH in H2. congruence.
  - injection H as -> ->. rewrite N.eqb_refl. cbn. now apply IH.
Qed.
Lemma lleqb_eq a b : lleqb a b = true <-> a = b.
Proof.
  revert b; induction a as [|x a IH]; destruct b as [|y b]; cbn; split; try congruence; intros H.
  - apply andb_true_iff in H as [H1 H2]. apply leqb_eq in H1. apply IH in H2. congruence.
  - injection H as -> ->. rewrite (proj2 (leqb_eq _ _) eq_refl). cbn. now apply IH.
Qed.
Lemma dname_eqb_eq a b : dname_eqb a b = true <-> a = b.
Proof.
  unfold dname_eqb. rewrite andb_true_iff, lleqb_eq, N.eqb_eq.
  destruct a, b; cbn; split; [intros [-> ->]; reflexivity | intros [= -> ->]; auto].
Qed.

Lemma alookup_some {V} n (m : list (dname * V)) v :
  alookup dname_eqb n m = Some v -> In (n, v) m.
Proof.
  induction m as [|[k w] m IH]; cbn; [discriminate|].
  destruct (dname_eqb n k) eqn:E.
  - intros [= ->]. apply dname_eqb_eq in E. subst. now left.
  - intros H. right. auto.
Qed.
Lemma alookup_none {V} n (m : list (dname * V)) :
  alookup dname_eqb n m = None -> ~ In n (map fst m).
Proof.
  induction m as [|[k w] m IH]; cbn; [tauto|].
  destruct (dname_eqb n k) eqn:E; [discriminate|].
  intros H [Hk|Hin]; [|now apply IH].
  subst k. rewrite (proj2 (dname_eqb_eq n n) eq_refl) in E. discriminate.
Qed.

Lemma nthN_app_l {A} (l l' : list A) i x : nthN l i = Some x -> nthN (l ++ l') i = Some x.
Proof.
  unfold nthN; intros H. rewrite nth_error_app1; auto.
  apply nth_error_Some. congruence.
Qed.
Lemma nthN_app_r {A} (pre post : list A) i : nthN (pre ++ post) (llen pre + i) = nthN post i.
Proof.
  unfold nthN, llen. rewrite nth_error_app2 by lia. f_equal. lia.
Qed.
Lemma nthN_app_mid {A} (pre : list A) x post : nthN (pre ++ x :: post) (llen pre) = Some x.
Proof.
  replace (llen pre) with (llen pre + 0) by lia. rewrite nthN_app_r. reflexivity.
Qed.
Lemma nthN_lt {A} (l : list A) i x : nthN l i = Some x -> i < llen l.
Proof.
  unfold nthN, llen. intros H.
  assert (N.to_nat i < length l)%nat by (apply nth_error_Some; congruence). lia.
Qed.

Lemma sliceN_app_l {A} (l l' : list A) i n os :
  sliceN l i n = Some os -> sliceN (l ++ l') i n = Some os.
Proof.
  unfold sliceN. destruct (i + n <=? llen l) eqn:E; [|discriminate].
  intros [= <-]. apply N.leb_le in E.
  rewrite (proj2 (N.leb_le _ _)) by (rewrite llen_app; lia).
  f_equal. rewrite skipn_app, firstn_app.
  replace (N.to_nat n - length (skipn (N.to_nat i) l))%nat with 0%nat
    by (rewrite skipn_length; unfold llen in E; lia).
  cbn [firstn]. now rewrite app_nil_r.
Qed.
Lemma skipn_app_exact {A} (pre l : list A) : skipn (length pre) (pre ++ l) = l.
Proof. induction pre; cbn; auto. Qed.
Lemma firstn_app_exact {A} (os l : list A) : firstn (length os) (os ++ l) = os.
Proof. induction os; cbn; [reflexivity | f_equal; auto]. Qed.
Lemma sliceN_app_mid {A} (pre os post : list A) :
  sliceN (pre ++ os ++ post) (llen pre) (llen os) = Some os.
Proof.
  unfold sliceN. rewrite (proj2 (N.leb_le _ _)) by (rewrite !llen_app; lia).
  f_equal. unfold llen. rewrite !Nat2N.id, skipn_app_exact, firstn_app_exact. reflexivity.
Qed.
Lemma sliceN_len {A} (l : list A) i n os : sliceN l i n = Some os -> llen os = n /\ i + n <= llen l.
Proof.
  unfold sliceN. destruct (i + n <=? llen l) eqn:E; [|discriminate].
  intros [= <-]. apply N.leb_le in E. split; auto.
  unfold llen in *. rewrite firstn_length, skipn_length. lia.
Qed.

(* big-endian fields as written *)
Lemma u16_bytes_val v : v < 65536 -> v = u16_hi v * 256 + u16_lo v.
Proof. unfold u16_hi, u16_lo. intros. dlia. Qed.
Lemma u32_bytes_val v : v < 4294967296 ->
  v = (((v / 16777216) mod 256 * 256 + (v / 65536) mod 256) * 256 + (v / 256) mod 256) * 256 + v mod 256.
Proof. intros. dlia. Qed.
Lemma u16_hi_lt v : u16_hi v < 256.
Proof. unfold u16_hi. dlia. Qed.
Lemma u16_lo_lt v : u16_lo v < 256.
Proof. unfold u16_lo. dlia. Qed.

Definition bytes (l : list N) : Prop := Forall (fun b => b < 256) l.

Lemma bytes_u16 v : bytes (u16_bytes v).
Proof. repeat constructor; [apply u16_hi_lt | apply u16_lo_lt]. Qed.
Lemma bytes_u32 v : bytes (u32_bytes v).
Proof. unfold u32_bytes. repeat constructor; dlia. Qed.
Lemma bytes_app a b : bytes a -> bytes b -> bytes (a ++ b).
Proof. unfold bytes. intros. apply Forall_app. auto. Qed.

(* finite sweeps *)
Lemma N_lt_sweep (P : N -> bool) (k : nat) :
  forallb P (map N.of_nat (seq 0 k)) = true -> forall x, x < N.of_nat k -> P x = true.
Proof.
  intros H x Hx. rewrite forallb_forall in H. apply H.
  apply in_map_iff. exists (N.to_nat x). split; [lia|]. apply in_seq. lia.
Qed.

Lemma lor_192 x : x < 64 -> N.lor x 192 = x + 192.
Proof.
  intros Hx.
  assert (H : (N.lor x 192 =? x + 192) = true).
  { revert x Hx. apply (N_lt_sweep (fun x => N.lor x 192 =? x + 192) 64). vm_compute. reflexivity. }
  now apply N.eqb_eq in H.
Qed.

(* ---- the grammar predicates only read the octets they mention: appending is harmless ---- *)

Lemma at_app bs more i x : at_ bs i = Some x -> at_ (bs ++ more) i = Some x.
Proof. apply nthN_app_l. Qed.
Lemma u16At_app bs more i v : u16At bs i v -> u16At (bs ++ more) i v.
Proof. intros (a & b & Ha & Hb & E). exists a, b. auto using at_app. Qed.
Lemma u32At_app bs more i v : u32At bs i v -> u32At (bs ++ more) i v.
Proof. intros (a & b & c & d & Ha & Hb & Hc & Hd & E). exists a, b, c, d. auto 6 using at_app. Qed.
Lemma octetsAt_app bs more i n os : octetsAt bs i n os -> octetsAt (bs ++ more) i n os.
Proof. apply sliceN_app_l. Qed.
Lemma u16sAt_app bs more vs : forall i, u16sAt bs i vs -> u16sAt (bs ++ more) i vs.
Proof. induction vs; cbn; auto. intros i [H1 H2]. auto using u16At_app. Qed.
Lemma NameAt_app bs more s p ls nx : NameAt bs s p ls nx -> NameAt (bs ++ more) s p ls nx.
Proof.
  induction 1.
  - apply NA_root. now apply at_app.
  - eapply NA_label; eauto using at_app, octetsAt_app.
  - eapply NA_ptr; eauto using at_app.
Qed.
Lemma NameIs_app bs more p n nx : NameIs bs p n nx -> NameIs (bs ++ more) p n nx.
Proof. intros (H & ?). split; auto using NameAt_app. Qed.
Lemma RDataAt_app bs more ty len pos d nx :
  RDataAt bs ty len pos d nx -> RDataAt (bs ++ more) ty len pos d nx.
Proof.
  destruct 1;
    [ eapply RDA_A | eapply RDA_Name | eapply RDA_SOA | eapply RDA_Octets | eapply RDA_MINFO
    | eapply RDA_MX | eapply RDA_AAAA | eapply RDA_SRV ];
    eauto using u32At_app, u16At_app, NameIs_app, octetsAt_app, u16sAt_app.
Qed.
Lemma RRAt_app bs more pos r nx : RRAt bs pos r nx -> RRAt (bs ++ more) pos r nx.
Proof.
  intros (p1 & len & H1 & H2 & H3 & H4 & H5 & H6 & H7). exists p1, len.
  splits; auto using NameIs_app, u16At_app, u32At_app, RDataAt_app.
Qed.
Lemma QuestionAt_app bs more pos q nx : QuestionAt bs pos q nx -> QuestionAt (bs ++ more) pos q nx.
Proof.
  intros (p1 & H1 & H2 & H3 & H4). exists p1. splits; auto using NameIs_app, u16At_app.
Qed.
Lemma SeqAt_app {A} (P : list byte -> N -> A -> N -> Prop) bs more
  (HP : forall pos x nx, P bs pos x nx -> P (bs ++ more) pos x nx) xs :
  forall pos nx, SeqAt (P bs) pos xs nx -> SeqAt (P (bs ++ more)) pos xs nx.
Proof.
  induction xs; cbn; auto. intros pos nx (mid & H1 & H2). exists mid. auto.
Qed.
Lemma HeaderIs_app bs more h : HeaderIs bs h -> HeaderIs (bs ++ more) h.
Proof.
  intros (f1 & f2 & H0 & H1 & H2 & H). exists f1, f2. auto using u16At_app, at_app.
Qed.

(* ------------------------------------------------------------------ *)
(* 2. plain (pointer-free) names                                       *)
(* ------------------------------------------------------------------ *)

(* the octets [write_labels] produces *)
Definition wire_labels (ls : list label) : list byte := flat_map (fun l => llen l :: l) ls.

Lemma llen_wire_labels ls : llen (wire_labels ls) = sum_lens ls.
Proof.
  induction ls as [|l ls IH]; [reflexivity|].
  cbn [wire_labels flat_map sum_lens]. fold (wire_labels ls).
  change (llen l :: l ++ wire_labels ls) with ((llen l :: l) ++ wire_labels ls).
  rewrite llen_app, llen_cons, IH. lia.
Qed.

(* the labels [ls] are written out in full, length octet + octets each, from offset [off] *)
Definition PlainAt (bs : list byte) (off : N) (ls : list label) : Prop :=
  exists pre post, bs = pre ++ wire_labels ls ++ post /\ llen pre = off.

Lemma PlainAt_app bs more off ls : PlainAt bs off ls -> PlainAt (bs ++ more) off ls.
Proof.
  intros (pre & post & -> & H). exists pre, (post ++ more). split; auto.
  now rewrite <- !app_assoc.
Qed.
Lemma PlainAt_end bs off ls : PlainAt bs off ls -> off + sum_lens ls <= llen bs.
Proof.
  intros (pre & post & -> & H). rewrite !llen_app, llen_wire_labels. lia.
Qed.

Definition lab_ok (l : label) : Prop := l <> [] /\ wf_label l.

Lemma map_lower_id l : Forall (fun b => b < 256 /\ is_upper b = false) l -> map lower l = l.
Proof.
  induction 1 as [|x l [_ Hx] _ IH]; cbn; [reflexivity|].
  unfold lower at 1. rewrite Hx. now f_equal.
Qed.

Lemma NA_label_plain bs start pos l ls next :
  lab_ok l -> at_ bs pos = Some (llen l) -> octetsAt bs (pos + 1) (llen l) l ->
  NameAt bs start (pos + 1 + llen l) ls next ->
  NameAt bs start pos (l :: ls) next.
Proof.
  intros [Hne [Hlen Hl]] Hat Hos Hrest.
  rewrite <- (map_lower_id l Hl).
  eapply NA_label; eauto.
  destruct l; [congruence|]. rewrite llen_cons in *. lia.
Qed.

Lemma sum_lens_root : sum_lens [[]] = 1.
Proof. reflexivity. Qed.
Lemma sum_lens_cons l ls : sum_lens (l :: ls) = 1 + llen l + sum_lens ls.
Proof. reflexivity. Qed.

(* a plainly written well-formed label sequence parses as a name, whatever [start] is *)
Lemma plain_NameAt front : forall pre post start, Forall lab_ok front ->
  NameAt (pre ++ wire_labels (front ++ [[]]) ++ post) start (llen pre) (front ++ [[]])
         (llen pre + sum_lens (front ++ [[]])).
Proof.
  induction front as [|l front IH]; intros pre post start Hf.
  - cbn [app]. rewrite sum_lens_root. apply NA_root. cbn. apply nthN_app_mid.
  - inversion Hf as [|? ? Hl Hf']; subst.
    cbn [app]. rewrite sum_lens_cons.
    cbn [wire_labels flat_map]. fold (wire_labels (front ++ [[]])).
    set (W := wire_labels (front ++ [[]])). cbn [app].
    apply NA_label_plain; auto.
    + cbn [app]. unfold at_. apply nthN_app_mid.
    + unfold octetsAt.
      match goal with |- sliceN ?L _ _ = _ =>
        replace L with ((pre ++ [llen l]) ++ l ++ (W ++ post)) by norm_app end.
      replace (llen pre + 1) with (llen (pre ++ [llen l])) by (rewrite llen_app, llen_cons, llen_nil; lia).
      apply sliceN_app_mid.
    + match goal with |- NameAt ?L _ _ _ _ =>
        replace L with ((pre ++ [llen l] ++ l) ++ W ++ post) by norm_app end.
      replace (llen pre + 1 + llen l) with (llen (pre ++ [llen l] ++ l))
        by (rewrite !llen_app, llen_cons, llen_nil; lia).
      replace (llen pre + (1 + llen l + sum_lens (front ++ [[]])))
        with (llen (pre ++ [llen l] ++ l) + sum_lens (front ++ [[]]))
        by (rewrite !llen_app, llen_cons, llen_nil; lia).
      apply IH; auto.
Qed.

Lemma wf_name_front n : wf_name n ->
  exists front, labels n = front ++ [[]] /\ Forall lab_ok front
                /\ nlen n = sum_lens (labels n) /\ nlen n <= 255.
Proof.
  intros [(front & E & Hf & Hs) Hn]. exists front. splits; auto. lia.
Qed.

Lemma PlainAt_NameAt bs off n start : wf_name n -> PlainAt bs off (labels n) ->
  NameAt bs start off (labels n) (off + nlen n).
Proof.
  intros Hwf (pre & post & -> & <-).
  destruct (wf_name_front n Hwf) as (front & E & Hf & Hn & _).
  rewrite Hn, E. now apply plain_NameAt.
Qed.

Lemma PlainAt_NameIs bs off n : wf_name n -> PlainAt bs off (labels n) ->
  NameIs bs off n (off + nlen n).
Proof.
  intros Hwf Hp. destruct (wf_name_front n Hwf) as (front & E & Hf & Hn & Hle).
  split; [now apply PlainAt_NameAt | auto].
Qed.

(* ------------------------------------------------------------------ *)
(* 3. the buffer invariant                                             *)
(* ------------------------------------------------------------------ *)

(* [wb_octets b = rev (wb_rev b)] is [wb_octets_rev] of Wire/WireModelFacts.v *)
Lemma octets_write_octets os b : wb_octets (write_octets os b) = wb_octets b ++ os.
Proof.
  rewrite !wb_octets_rev. unfold write_octets; cbn [wb_rev].
  now rewrite rev_append_rev, rev_app_distr, rev_involutive.
Qed.
Lemma len_write_octets os b : wb_len (write_octets os b) = wb_len b + llen os.
Proof. reflexivity. Qed.
Lemma ptrs_write_octets os b : wb_ptrs (write_octets os b) = wb_ptrs b.
Proof. reflexivity. Qed.

(* one entry of the name -> pointer table: the pointer is 0xC000 + off with off < 2^14, and
   the (non-root, well-formed) name is written out in full, without pointers, at [off] *)
Definition entry_ok (bs : list byte) (e : dname * N) : Prop :=
  exists off, snd e = 49152 + off /\ off < 16384 /\ wf_name (fst e) /\ is_root (fst e) = false
              /\ PlainAt bs off (labels (fst e)).

Record wb_ok (b : wbuf) : Prop := {
  ok_len : wb_len b = llen (wb_octets b);
  ok_bytes : bytes (wb_octets b);
  ok_ptrs : Forall (entry_ok (wb_octets b)) (wb_ptrs b);
  ok_keys : NoDup (map fst (wb_ptrs b)) }.

Lemma entry_ok_app bs more e : entry_ok bs e -> entry_ok (bs ++ more) e.
Proof.
  intros (off & H1 & H2 & H3 & H4 & H5). exists off. splits; auto using PlainAt_app.
Qed.

Lemma wb_ok_empty : wb_ok wb_empty.
Proof. split; cbn; try constructor. Qed.

Lemma wb_ok_write_octets os b : bytes os -> wb_ok b -> wb_ok (write_octets os b).
Proof.
  intros Hos [H1 H2 H3 H4]. split.
  - rewrite len_write_octets, octets_write_octets, llen_app. lia.
  - rewrite octets_write_octets. now apply bytes_app.
  - rewrite octets_write_octets, ptrs_write_octets.
    eapply Forall_impl; [|exact H3]. intros e. apply entry_ok_app.
  - now rewrite ptrs_write_octets.
Qed.

(* what the invariant says about a pointer found in the table (DESIGN C04 T1): it addresses
   the start of an identical name written earlier, in full, strictly before the write position *)
Lemma enc_table_inv_lookup b n p : wb_ok b -> alookup dname_eqb n (wb_ptrs b) = Some p ->
  exists off, p = 49152 + off /\ off < 16384 /\ off < wb_len b /\ wf_name n /\ is_root n = false
    /\ PlainAt (wb_octets b) off (labels n)
    /\ (forall start, NameAt (wb_octets b) start off (labels n) (off + nlen n))
    /\ off + nlen n <= wb_len b.
Proof.
  intros Hok Hl. apply alookup_some in Hl.
  pose proof (ok_ptrs b Hok) as Hp. rewrite Forall_forall in Hp.
  destruct (Hp _ Hl) as (off & H1 & H2 & H3 & H4 & H5). cbn [fst snd] in *.
  pose proof (PlainAt_end _ _ _ H5) as He.
  destruct (wf_name_front n H3) as (front & E & Hf & Hn & Hle).
  assert (1 <= sum_lens (labels n)).
  { rewrite E. clear. induction front; cbn [app]; [rewrite sum_lens_root; lia | rewrite sum_lens_cons; lia]. }
  exists off. rewrite (ok_len b Hok). splits; auto; try lia.
  intros start. now apply PlainAt_NameAt.
Qed.

(* write_labels *)
Lemma write_labels_spec ls : forall b,
  wb_octets (write_labels ls b) = wb_octets b ++ wire_labels ls
  /\ wb_len (write_labels ls b) = wb_len b + sum_lens ls
  /\ wb_ptrs (write_labels ls b) = wb_ptrs b.
Proof.
  unfold write_labels.
  induction ls as [|l ls IH]; intros b; cbn [fold_left].
  - cbn. rewrite app_nil_r. splits; auto. lia.
  - destruct (IH (write_octets l (write_u8 (llen l) b))) as (H1 & H2 & H3).
    rewrite H1, H2, H3. unfold write_u8.
    rewrite !octets_write_octets, !len_write_octets, !ptrs_write_octets.
    cbn [wire_labels flat_map]. rewrite sum_lens_cons, llen_cons, llen_nil.
    splits; auto; [|lia]. rewrite <- !app_assoc. reflexivity.
Qed.

Lemma bytes_wire_labels front : Forall lab_ok front -> bytes (wire_labels (front ++ [[]])).
Proof.
  induction 1 as [|l front [Hne [Hlen Hl]] _ IH]; cbn [app wire_labels flat_map].
  - repeat constructor.
  - fold (wire_labels (front ++ [[]])). cbn [app]. constructor; [cbn beta; unfold byte in *; lia|]. apply bytes_app; auto.
    eapply Forall_impl; [|exact Hl]. cbn beta. tauto.
Qed.

(* ------------------------------------------------------------------ *)
(* 4. the encoder steps                                                *)
(* ------------------------------------------------------------------ *)

(* [b'] has the octets of [b] plus some more *)
Definition ext (b b' : wbuf) : Prop := exists os, wb_octets b' = wb_octets b ++ os.

Lemma ext_refl b : ext b b.
Proof. exists []. now rewrite app_nil_r. Qed.
Lemma ext_trans a b c : ext a b -> ext b c -> ext a c.
Proof. intros [x Hx] [y Hy]. exists (x ++ y). now rewrite Hy, Hx, app_assoc. Qed.
Lemma ext_write_octets os b : ext b (write_octets os b).
Proof. exists os. apply octets_write_octets. Qed.
Lemma ext_len a b : wb_ok a -> wb_ok b -> ext a b -> wb_len a <= wb_len b.
Proof. intros Ha Hb [os E]. rewrite (ok_len a Ha), (ok_len b Hb), E, llen_app. lia. Qed.

Ltac solve_ext :=
  repeat first [ assumption | apply ext_refl | apply ext_write_octets
               | eapply ext_trans; [eassumption|] ].

Lemma at_ext a b i x : ext a b -> at_ (wb_octets a) i = Some x -> at_ (wb_octets b) i = Some x.
Proof. intros [os ->]. apply at_app. Qed.
Lemma u16At_ext a b i v : ext a b -> u16At (wb_octets a) i v -> u16At (wb_octets b) i v.
Proof. intros [os ->]. apply u16At_app. Qed.
Lemma u32At_ext a b i v : ext a b -> u32At (wb_octets a) i v -> u32At (wb_octets b) i v.
Proof. intros [os ->]. apply u32At_app. Qed.
Lemma NameIs_ext a b p n nx : ext a b -> NameIs (wb_octets a) p n nx -> NameIs (wb_octets b) p n nx.
Proof. intros [os ->]. apply NameIs_app. Qed.
Lemma RDataAt_ext a b ty len pos d nx :
  ext a b -> RDataAt (wb_octets a) ty len pos d nx -> RDataAt (wb_octets b) ty len pos d nx.
Proof. intros [os ->]. apply RDataAt_app. Qed.
Lemma RRAt_ext a b pos r nx : ext a b -> RRAt (wb_octets a) pos r nx -> RRAt (wb_octets b) pos r nx.
Proof. intros [os ->]. apply RRAt_app. Qed.
Lemma QuestionAt_ext a b pos q nx :
  ext a b -> QuestionAt (wb_octets a) pos q nx -> QuestionAt (wb_octets b) pos q nx.
Proof. intros [os ->]. apply QuestionAt_app. Qed.
Lemma SeqRR_ext a b pos rs nx :
  ext a b -> SeqAt (RRAt (wb_octets a)) pos rs nx -> SeqAt (RRAt (wb_octets b)) pos rs nx.
Proof. intros [os ->]. apply (SeqAt_app RRAt). intros. now apply RRAt_app. Qed.
Lemma SeqQ_ext a b pos qs nx :
  ext a b -> SeqAt (QuestionAt (wb_octets a)) pos qs nx -> SeqAt (QuestionAt (wb_octets b)) pos qs nx.
Proof. intros [os ->]. apply (SeqAt_app QuestionAt). intros. now apply QuestionAt_app. Qed.
Lemma HeaderIs_ext a b h : ext a b -> HeaderIs (wb_octets a) h -> HeaderIs (wb_octets b) h.
Proof. intros [os ->]. apply HeaderIs_app. Qed.

(* fixed-width fields *)
Lemma write_octets_ok os b : bytes os -> wb_ok b ->
  wb_ok (write_octets os b) /\ ext b (write_octets os b)
  /\ wb_len (write_octets os b) = wb_len b + llen os
  /\ octetsAt (wb_octets (write_octets os b)) (wb_len b) (llen os) os.
Proof.
  intros Hos Hok. splits; auto using wb_ok_write_octets, ext_write_octets.
  rewrite octets_write_octets, (ok_len b Hok). unfold octetsAt.
  rewrite <- (app_nil_r os) at 1. apply sliceN_app_mid.
Qed.

Lemma write_u8_ok v b : v < 256 -> wb_ok b ->
  wb_ok (write_u8 v b) /\ ext b (write_u8 v b) /\ wb_len (write_u8 v b) = wb_len b + 1
  /\ at_ (wb_octets (write_u8 v b)) (wb_len b) = Some v.
Proof.
  intros Hv Hok. unfold write_u8. splits; auto using ext_write_octets.
  - apply wb_ok_write_octets; auto. repeat constructor. exact Hv.
  - rewrite octets_write_octets, (ok_len b Hok). apply nthN_app_mid.
Qed.

Lemma write_u16_ok v b : wb_ok b ->
  wb_ok (write_u16 v b) /\ ext b (write_u16 v b) /\ wb_len (write_u16 v b) = wb_len b + 2
  /\ (u16 v -> u16At (wb_octets (write_u16 v b)) (wb_len b) v).
Proof.
  intros Hok. unfold write_u16. splits; auto using wb_ok_write_octets, ext_write_octets, bytes_u16.
  intros Hv. rewrite octets_write_octets, (ok_len b Hok).
  exists (u16_hi v), (u16_lo v). splits.
  - apply nthN_app_mid.
  - unfold at_. rewrite nthN_app_r. reflexivity.
  - now apply u16_bytes_val.
Qed.

Lemma write_u32_ok v b : wb_ok b ->
  wb_ok (write_u32 v b) /\ ext b (write_u32 v b) /\ wb_len (write_u32 v b) = wb_len b + 4
  /\ (u32 v -> u32At (wb_octets (write_u32 v b)) (wb_len b) v).
Proof.
  intros Hok. unfold write_u32. splits; auto using wb_ok_write_octets, ext_write_octets, bytes_u32.
  intros Hv. rewrite octets_write_octets, (ok_len b Hok).
  exists ((v / 16777216) mod 256), ((v / 65536) mod 256), ((v / 256) mod 256), (v mod 256). splits.
  - apply nthN_app_mid.
  - unfold at_. rewrite nthN_app_r. reflexivity.
  - unfold at_. rewrite nthN_app_r. reflexivity.
  - unfold at_. rewrite nthN_app_r. reflexivity.
  - now apply u32_bytes_val.
Qed.

(* memoise_name: octets untouched; the table gains at most the entry for the current offset,
   and only when that offset is below 2^14 *)
Lemma memoise_name_spec n b :
  wb_octets (memoise_name n b) = wb_octets b /\ wb_len (memoise_name n b) = wb_len b
  /\ (wb_ptrs (memoise_name n b) = wb_ptrs b
      \/ (wb_ptrs (memoise_name n b) = wb_ptrs b ++ [(n, 49152 + wb_len b)]
          /\ wb_len b < 16384 /\ is_root n = false /\ alookup dname_eqb n (wb_ptrs b) = None)).
Proof.
  unfold memoise_name.
  destruct (is_root n) eqn:R; cbn [negb andb]; auto.
  destruct (alookup dname_eqb n (wb_ptrs b)) eqn:L; cbn [negb]; auto.
  destruct (wb_len b <? 65536) eqn:L1; cbn [andb]; auto.
  destruct (wb_len b <? 16384) eqn:L2; auto.
  apply N.ltb_lt in L2. cbn [wb_octets wb_rev wb_len wb_ptrs]. splits; auto. right. splits; auto.
  do 3 f_equal. unfold u16_be. rewrite lor_192 by (unfold u16_hi; dlia).
  unfold u16_hi, u16_lo. dlia.
Qed.

Lemma NoDup_snoc {A} (l : list A) x : NoDup l -> ~ In x l -> NoDup (l ++ [x]).
Proof.
  induction 1 as [|a l Ha Hl IH]; cbn; intros Hx.
  - repeat constructor. tauto.
  - constructor; [|apply IH; tauto].
    intros H. apply in_app_or in H as [H|[H|[]]]; [tauto|]. subst. tauto.
Qed.

(* DomainName::serialise *)
Lemma encode_name_ok n c b : wb_ok b -> wf_name n ->
  wb_ok (encode_name n c b) /\ ext b (encode_name n c b)
  /\ NameIs (wb_octets (encode_name n c b)) (wb_len b) n (wb_len (encode_name n c b))
  /\ (c = false -> wb_len (encode_name n c b) = wb_len b + nlen n).
Proof.
  intros Hok Hwf. unfold encode_name.
  destruct (if c then alookup dname_eqb n (wb_ptrs b) else None) as [p|] eqn:L.
  - (* a pointer to an earlier occurrence *)
    destruct c; [|discriminate].
    destruct (enc_table_inv_lookup b n p Hok L) as (off & Hp & Ho & Hlt & _ & _ & _ & Hna & _).
    destruct (write_u16_ok p b Hok) as (ok1 & e1 & l1 & _).
    splits; auto; [|discriminate].
    destruct (wf_name_front n Hwf) as (front & E & Hf & Hn & Hle).
    split; [|auto]. rewrite l1.
    unfold write_u16. rewrite octets_write_octets.
    assert (Hhi : u16_hi p = 192 + off / 256) by (unfold u16_hi; dlia).
    assert (Hlo : u16_lo p = off mod 256) by (unfold u16_lo; dlia).
    assert (Ht : (u16_hi p - 192) * 256 + u16_lo p = off) by (rewrite Hhi, Hlo; dlia).
    eapply NA_ptr with (hi := u16_hi p) (lo := u16_lo p).
    + rewrite (ok_len b Hok). apply nthN_app_mid.
    + rewrite Hhi. dlia.
    + rewrite (ok_len b Hok). unfold at_. rewrite nthN_app_r. reflexivity.
    + rewrite Ht. exact Hlt.
    + rewrite Ht. apply NameAt_app. apply Hna.
  - (* written in full *)
    destruct (memoise_name_spec n b) as (Ho & Hl & Hp).
    destruct (write_labels_spec (labels n) (memoise_name n b)) as (Wo & Wl & Wp).
    rewrite Ho in Wo. rewrite Hl in Wl.
    destruct (wf_name_front n Hwf) as (front & E & Hf & Hn & Hle).
    assert (Hplain : PlainAt (wb_octets (write_labels (labels n) (memoise_name n b))) (wb_len b) (labels n)).
    { rewrite Wo. exists (wb_octets b), []. rewrite app_nil_r. split; auto.
      symmetry. apply (ok_len b Hok). }
    assert (ok' : wb_ok (write_labels (labels n) (memoise_name n b))).
    { split.
      - rewrite Wl, Wo, llen_app, llen_wire_labels, (ok_len b Hok). reflexivity.
      - rewrite Wo. apply bytes_app; [apply (ok_bytes b Hok)|]. rewrite E. now apply bytes_wire_labels.
      - rewrite Wp, Wo. destruct Hp as [-> | (-> & Hlt & Hr & Hnone)].
        + eapply Forall_impl; [|apply (ok_ptrs b Hok)]. intros e. apply entry_ok_app.
        + apply Forall_app. split.
          * eapply Forall_impl; [|apply (ok_ptrs b Hok)]. intros e. apply entry_ok_app.
          * constructor; [|constructor]. exists (wb_len b). cbn [fst snd]. splits; auto.
            rewrite <- Wo. exact Hplain.
      - rewrite Wp. destruct Hp as [-> | (-> & Hlt & Hr & Hnone)]; [apply (ok_keys b Hok)|].
        rewrite map_app. cbn [map fst]. apply NoDup_snoc; [apply (ok_keys b Hok)|].
        now apply alookup_none. }
    splits; auto.
    + exists (wire_labels (labels n)). exact Wo.
    + rewrite Wl, <- Hn. now apply PlainAt_NameIs.
    + intros _. rewrite Wl. lia.
Qed.

(* AAAA: eight big-endian u16 segments *)
Lemma bytes_u16s segs : bytes (flat_map u16_bytes segs).
Proof. induction segs; cbn [flat_map]; [constructor | apply bytes_app; auto using bytes_u16]. Qed.
Lemma llen_u16s segs : llen (flat_map u16_bytes segs) = 2 * llen segs.
Proof.
  induction segs; cbn [flat_map]; [reflexivity|].
  rewrite llen_app, IHsegs, llen_cons. change (llen (u16_bytes a)) with 2. lia.
Qed.
Lemma u16sAt_written segs : forall pre post, Forall u16 segs ->
  u16sAt (pre ++ flat_map u16_bytes segs ++ post) (llen pre) segs.
Proof.
  induction segs as [|v segs IH]; intros pre post H; cbn [u16sAt]; auto.
  inversion H as [|? ? Hv Hs]; subst. cbn [flat_map]. split.
  - exists (u16_hi v), (u16_lo v). unfold u16_bytes. cbn [app]. splits.
    + apply nthN_app_mid.
    + unfold at_. rewrite nthN_app_r. reflexivity.
    + now apply u16_bytes_val.
  - replace (pre ++ (u16_bytes v ++ flat_map u16_bytes segs) ++ post)
      with ((pre ++ u16_bytes v) ++ flat_map u16_bytes segs ++ post) by norm_app.
    replace (llen pre + 2) with (llen (pre ++ u16_bytes v)) by (rewrite llen_app; reflexivity).
    now apply IH.
Qed.

(* number of RDATA octets the encoder writes *)
Definition rdata_len (d : rdata) : N :=
  match d with
  | RD_A _ => 4
  | RD_Name n => nlen n
  | RD_SOA m r _ _ _ _ _ => nlen m + nlen r + 20
  | RD_Octets os => llen os
  | RD_MINFO r e => nlen r + nlen e
  | RD_MX _ e => 2 + nlen e
  | RD_AAAA segs => 2 * llen segs
  | RD_SRV _ _ _ t => 6 + nlen t
  end.

(* the RDATA part of ResourceRecord::serialise.  The RDLENGTH argument of the grammar is the
   number of octets actually written. *)
Lemma encode_rdata_ok ty d b : wb_ok b -> wf_rdata ty d ->
  wb_ok (encode_rdata d b) /\ ext b (encode_rdata d b)
  /\ wb_len (encode_rdata d b) = wb_len b + rdata_len d
  /\ RDataAt (wb_octets (encode_rdata d b)) ty (rdata_len d) (wb_len b) d (wb_len (encode_rdata d b)).
Proof.
  intros Hok [Hsh Hwf]. symmetry in Hsh.
  destruct d as [a | n | m r serial refresh retry expire minimum | os | r e | p e | segs | p w o t];
    cbn [encode_rdata shape_of_rdata rdata_len] in *.
  - (* A *)
    destruct (write_u32_ok a b Hok) as (ok1 & e1 & l1 & U1).
    change (write_octets (u32_bytes a) b) with (write_u32 a b).
    splits; auto. rewrite l1. apply RDA_A; auto.
  - (* NS CNAME PTR ... *)
    destruct (encode_name_ok n false b Hok Hwf) as (ok1 & e1 & N1 & L1).
    splits; auto. apply RDA_Name; auto.
  - (* SOA *)
    destruct Hwf as (Hm & Hr & H1 & H2 & H3 & H4 & H5).
    destruct (encode_name_ok m false b Hok Hm) as (ok1 & e1 & N1 & L1). specialize (L1 eq_refl).
    set (b1 := encode_name m false b) in *.
    destruct (encode_name_ok r false b1 ok1 Hr) as (ok2 & e2 & N2 & L2). specialize (L2 eq_refl).
    set (b2 := encode_name r false b1) in *.
    destruct (write_u32_ok serial b2 ok2) as (ok3 & e3 & l3 & U3). set (b3 := write_u32 serial b2) in *.
    destruct (write_u32_ok refresh b3 ok3) as (ok4 & e4 & l4 & U4). set (b4 := write_u32 refresh b3) in *.
    destruct (write_u32_ok retry b4 ok4) as (ok5 & e5 & l5 & U5). set (b5 := write_u32 retry b4) in *.
    destruct (write_u32_ok expire b5 ok5) as (ok6 & e6 & l6 & U6). set (b6 := write_u32 expire b5) in *.
    destruct (write_u32_ok minimum b6 ok6) as (ok7 & e7 & l7 & U7). set (b7 := write_u32 minimum b6) in *.
    splits; auto; [solve_ext | lia |].
    replace (wb_len b7) with (wb_len b2 + 20) by lia.
    apply RDA_SOA with (p1 := wb_len b1); auto.
    + eapply NameIs_ext; [|exact N1]. solve_ext.
    + eapply NameIs_ext; [|exact N2]. solve_ext.
    + eapply u32At_ext; [|exact (U3 H1)]. solve_ext.
    + replace (wb_len b2 + 4) with (wb_len b3) by lia. eapply u32At_ext; [|exact (U4 H2)]. solve_ext.
    + replace (wb_len b2 + 8) with (wb_len b4) by lia. eapply u32At_ext; [|exact (U5 H3)]. solve_ext.
    + replace (wb_len b2 + 12) with (wb_len b5) by lia. eapply u32At_ext; [|exact (U6 H4)]. solve_ext.
    + replace (wb_len b2 + 16) with (wb_len b6) by lia. exact (U7 H5).
  - (* NULL WKS HINFO TXT Unknown *)
    destruct (write_octets_ok os b Hwf Hok) as (ok1 & e1 & l1 & O1).
    splits; auto. rewrite l1. apply RDA_Octets; auto.
  - (* MINFO *)
    destruct Hwf as (Hr & He).
    destruct (encode_name_ok r false b Hok Hr) as (ok1 & e1 & N1 & L1). specialize (L1 eq_refl).
    set (b1 := encode_name r false b) in *.
    destruct (encode_name_ok e false b1 ok1 He) as (ok2 & e2 & N2 & L2). specialize (L2 eq_refl).
    set (b2 := encode_name e false b1) in *.
    splits; auto; [solve_ext | lia |].
    apply RDA_MINFO with (p1 := wb_len b1); auto.
    eapply NameIs_ext; [|exact N1]. solve_ext.
  - (* MX *)
    destruct Hwf as (Hp & He).
    destruct (write_u16_ok p b Hok) as (ok1 & e1 & l1 & U1). set (b1 := write_u16 p b) in *.
    destruct (encode_name_ok e false b1 ok1 He) as (ok2 & e2 & N2 & L2). specialize (L2 eq_refl).
    set (b2 := encode_name e false b1) in *.
    splits; auto; [solve_ext | lia |].
    apply RDA_MX; auto.
    eapply u16At_ext; [|exact (U1 Hp)]. solve_ext.
  - (* AAAA *)
    destruct Hwf as (Hlen & Hsegs).
    destruct (write_octets_ok (flat_map u16_bytes segs) b (bytes_u16s segs) Hok) as (ok1 & e1 & l1 & _).
    rewrite llen_u16s in l1.
    splits; auto.
    replace (wb_len (write_octets (flat_map u16_bytes segs) b)) with (wb_len b + 16)
      by (rewrite l1; unfold llen; rewrite Hlen; reflexivity).
    apply RDA_AAAA; auto.
    rewrite octets_write_octets, (ok_len b Hok).
    rewrite <- (app_nil_r (flat_map u16_bytes segs)). now apply u16sAt_written.
  - (* SRV *)
    destruct Hwf as (Hp & Hw & Ho & Ht).
    destruct (write_u16_ok p b Hok) as (ok1 & e1 & l1 & U1). set (b1 := write_u16 p b) in *.
    destruct (write_u16_ok w b1 ok1) as (ok2 & e2 & l2 & U2). set (b2 := write_u16 w b1) in *.
    destruct (write_u16_ok o b2 ok2) as (ok3 & e3 & l3 & U3). set (b3 := write_u16 o b2) in *.
    destruct (encode_name_ok t false b3 ok3 Ht) as (ok4 & e4 & N4 & L4). specialize (L4 eq_refl).
    set (b4 := encode_name t false b3) in *.
    splits; auto; [solve_ext | lia |].
    apply RDA_SRV; auto.
    + eapply u16At_ext; [|exact (U1 Hp)]. solve_ext.
    + replace (wb_len b + 2) with (wb_len b1) by lia. eapply u16At_ext; [|exact (U2 Hw)]. solve_ext.
    + replace (wb_len b + 4) with (wb_len b2) by lia. eapply u16At_ext; [|exact (U3 Ho)]. solve_ext.
    + replace (wb_len b + 6) with (wb_len b3) by lia. exact N4.
Qed.

(* Question::serialise *)
Lemma encode_question_ok q b : wb_ok b -> wf_question q ->
  wb_ok (encode_question q b) /\ ext b (encode_question q b)
  /\ QuestionAt (wb_octets (encode_question q b)) (wb_len b) q (wb_len (encode_question q b)).
Proof.
  intros Hok (Hn & Ht & Hc). unfold encode_question.
  destruct (encode_name_ok (q_name q) true b Hok Hn) as (ok1 & e1 & N1 & _).
  set (b1 := encode_name (q_name q) true b) in *.
  destruct (write_u16_ok (q_type q) b1 ok1) as (ok2 & e2 & l2 & U2). set (b2 := write_u16 (q_type q) b1) in *.
  destruct (write_u16_ok (q_class q) b2 ok2) as (ok3 & e3 & l3 & U3). set (b3 := write_u16 (q_class q) b2) in *.
  splits; auto; [solve_ext|].
  exists (wb_len b1). splits.
  - eapply NameIs_ext; [|exact N1]. solve_ext.
  - eapply u16At_ext; [|exact (U2 Ht)]. solve_ext.
  - replace (wb_len b1 + 2) with (wb_len b2) by lia. exact (U3 Hc).
  - lia.
Qed.

Lemma encode_questions_ok qs : forall b, wb_ok b -> Forall wf_question qs ->
  let b' := fold_left (fun acc q => encode_question q acc) qs b in
  wb_ok b' /\ ext b b' /\ SeqAt (QuestionAt (wb_octets b')) (wb_len b) qs (wb_len b').
Proof.
  induction qs as [|q qs IH]; intros b Hok Hwf; cbn [fold_left SeqAt].
  - splits; auto using ext_refl.
  - inversion Hwf as [|? ? Hq Hqs]; subst.
    destruct (encode_question_ok q b Hok Hq) as (ok1 & e1 & Q1).
    destruct (IH (encode_question q b) ok1 Hqs) as (ok2 & e2 & S2).
    splits; auto; [solve_ext|].
    exists (wb_len (encode_question q b)). split; auto.
    eapply QuestionAt_ext; [|exact Q1]. exact e2.
Qed.

(* ------------------------------------------------------------------ *)
(* 5. RDLENGTH back-patching                                           *)
(* ------------------------------------------------------------------ *)

(* Two buffers that were equal up to some point, differ in the octets [sa] / [sb] written
   then (same number of octets), and have since received the same writes.  No encoder step
   looks at octets already written, so every step preserves the relation. *)
Definition differ (sa sb : list byte) (a b : wbuf) : Prop :=
  exists news, wb_rev a = news ++ sa /\ wb_rev b = news ++ sb
               /\ wb_len a = wb_len b /\ wb_ptrs a = wb_ptrs b.

Lemma differ_write_octets sa sb os a b : differ sa sb a b -> differ sa sb (write_octets os a) (write_octets os b).
Proof.
  intros (news & Ha & Hb & Hl & Hp). exists (rev os ++ news). unfold write_octets; cbn [wb_rev wb_len wb_ptrs].
  rewrite !rev_append_rev, Ha, Hb, Hl, Hp, <- !app_assoc. auto.
Qed.
Lemma differ_memoise sa sb n a b : differ sa sb a b -> differ sa sb (memoise_name n a) (memoise_name n b).
Proof.
  intros (news & Ha & Hb & Hl & Hp). unfold memoise_name. rewrite Hl, Hp.
  destruct (negb (is_root n) && negb match alookup dname_eqb n (wb_ptrs b) with Some _ => true | None => false end).
  - destruct ((wb_len b <? 65536) && (wb_len b <? 16384)).
    + exists news. cbn [wb_rev wb_len wb_ptrs]. auto.
    + exists news. auto.
  - exists news. auto.
Qed.
Lemma differ_write_labels sa sb ls : forall a b, differ sa sb a b ->
  differ sa sb (write_labels ls a) (write_labels ls b).
Proof.
  unfold write_labels. induction ls as [|l ls IH]; intros a b H; cbn [fold_left]; auto.
  apply IH. unfold write_u8. auto using differ_write_octets.
Qed.
Lemma differ_encode_name sa sb n c a b : differ sa sb a b ->
  differ sa sb (encode_name n c a) (encode_name n c b).
Proof.
  intros H. unfold encode_name.
  replace (wb_ptrs a) with (wb_ptrs b) by (destruct H as (? & ? & ? & ? & ?); auto).
  destruct (if c then alookup dname_eqb n (wb_ptrs b) else None).
  - unfold write_u16. now apply differ_write_octets.
  - now apply differ_write_labels, differ_memoise.
Qed.
Lemma differ_encode_rdata sa sb d a b : differ sa sb a b ->
  differ sa sb (encode_rdata d a) (encode_rdata d b).
Proof.
  intros H. destruct d; cbn [encode_rdata]; unfold write_u32, write_u16;
    auto 12 using differ_write_octets, differ_encode_name.
Qed.

Lemma firstn_app_exact' {A} (a b : list A) k : k = length a -> firstn k (a ++ b) = a.
Proof. intros ->. apply firstn_app_exact. Qed.
Lemma skipn_app_exact' {A} (a b : list A) k : k = length a -> skipn k (a ++ b) = b.
Proof. intros ->. apply skipn_app_exact. Qed.

Lemma wb_len_rev b : wb_ok b -> wb_len b = llen (wb_rev b).
Proof. intros H. rewrite (ok_len b H), wb_octets_rev. unfold llen. now rewrite rev_length. Qed.

(* patching the placeholder afterwards = having written the final value in the first place *)
Lemma patch_differ a b tail x1 x0 v :
  wb_len a = llen (wb_rev a) ->
  differ (x0 :: x1 :: tail) (u16_lo v :: u16_hi v :: tail) a b ->
  patch_u16 (llen tail) v a = b.
Proof.
  intros Hlen (news & Ha & Hb & Hl & Hp). unfold patch_u16.
  assert (Hk : N.to_nat (wb_len a - llen tail - 2) = length news).
  { rewrite Hlen, Ha. unfold llen. rewrite app_length. cbn [length]. lia. }
  rewrite Hk, Ha.
  rewrite firstn_app_exact' by reflexivity.
  replace (news ++ x0 :: x1 :: tail) with ((news ++ [x0; x1]) ++ tail) by norm_app.
  rewrite skipn_app_exact' by (rewrite app_length; cbn [length]; lia).
  destruct b as [br bl bp]; cbn [wb_rev wb_len wb_ptrs] in *. subst. reflexivity.
Qed.

(* ResourceRecord::serialise without the back-patch: RDLENGTH is the number of RDATA octets *)
Definition rr_fixed (r : rr) (b : wbuf) : wbuf :=
  write_u32 (rr_ttl r) (write_u16 (rr_class r) (write_u16 (rr_type r) (encode_name (rr_name r) true b))).

Lemma rr_fixed_ok r b : wb_ok b -> wf_rr r -> wb_ok (rr_fixed r b).
Proof.
  intros Hok (Hn & _). unfold rr_fixed.
  destruct (encode_name_ok (rr_name r) true b Hok Hn) as (ok1 & _).
  apply write_u32_ok, write_u16_ok, write_u16_ok, ok1.
Qed.

Lemma encode_rr_unpatched r b : wb_ok b -> wf_rr r ->
  encode_rr r b =
    if rdata_len (rr_data r) <? 65536
    then Ok (encode_rdata (rr_data r) (write_u16 (rdata_len (rr_data r)) (rr_fixed r b)))
    else Err (CounterTooLarge (rdata_len (rr_data r))).
Proof.
  intros Hok Hwf. pose proof (rr_fixed_ok r b Hok Hwf) as ok2.
  destruct Hwf as (_ & _ & _ & _ & Hd).
  unfold encode_rr. fold (rr_fixed r b). set (b2 := rr_fixed r b) in *.
  destruct (write_u16_ok 0 b2 ok2) as (ok3 & _ & l3 & _).
  destruct (encode_rdata_ok _ (rr_data r) (write_u16 0 b2) ok3 Hd) as (ok4 & _ & l4 & _).
  replace (wb_len (encode_rdata (rr_data r) (write_u16 0 b2)) - wb_len b2 - 2)
    with (rdata_len (rr_data r)) by lia.
  destruct (rdata_len (rr_data r) <? 65536); [|reflexivity].
  f_equal. rewrite (wb_len_rev b2 ok2).
  eapply patch_differ with (x0 := 0) (x1 := 0); [now apply wb_len_rev|].
  apply differ_encode_rdata.
  exists []. cbn [app]. unfold write_u16, write_octets; cbn [wb_rev wb_len wb_ptrs rev_append u16_bytes].
  splits; auto.
Qed.

(* ResourceRecord::serialise *)
Lemma encode_rr_ok r b b' : wb_ok b -> wf_rr r -> encode_rr r b = Ok b' ->
  wb_ok b' /\ ext b b' /\ RRAt (wb_octets b') (wb_len b) r (wb_len b').
Proof.
  intros Hok Hwf. rewrite (encode_rr_unpatched r b Hok Hwf).
  destruct (rdata_len (rr_data r) <? 65536) eqn:Hfit; [|discriminate]. intros [= <-].
  apply N.ltb_lt in Hfit.
  destruct Hwf as (Hn & Ht & Hc & Httl & Hd). unfold rr_fixed.
  destruct (encode_name_ok (rr_name r) true b Hok Hn) as (ok1 & e1 & N1 & _).
  set (b1 := encode_name (rr_name r) true b) in *.
  destruct (write_u16_ok (rr_type r) b1 ok1) as (ok2 & e2 & l2 & U2). set (b2 := write_u16 (rr_type r) b1) in *.
  destruct (write_u16_ok (rr_class r) b2 ok2) as (ok3 & e3 & l3 & U3). set (b3 := write_u16 (rr_class r) b2) in *.
  destruct (write_u32_ok (rr_ttl r) b3 ok3) as (ok4 & e4 & l4 & U4). set (b4 := write_u32 (rr_ttl r) b3) in *.
  destruct (write_u16_ok (rdata_len (rr_data r)) b4 ok4) as (ok5 & e5 & l5 & U5).
  set (b5 := write_u16 (rdata_len (rr_data r)) b4) in *.
  destruct (encode_rdata_ok _ (rr_data r) b5 ok5 Hd) as (ok6 & e6 & l6 & R6).
  set (b6 := encode_rdata (rr_data r) b5) in *.
  splits; auto; [solve_ext|].
  exists (wb_len b1), (rdata_len (rr_data r)). splits.
  - eapply NameIs_ext; [|exact N1]. solve_ext.
  - eapply u16At_ext; [|exact (U2 Ht)]. solve_ext.
  - replace (wb_len b1 + 2) with (wb_len b2) by lia. eapply u16At_ext; [|exact (U3 Hc)]. solve_ext.
  - replace (wb_len b1 + 4) with (wb_len b3) by lia. eapply u32At_ext; [|exact (U4 Httl)]. solve_ext.
  - replace (wb_len b1 + 8) with (wb_len b4) by lia. eapply u16At_ext; [|exact (U5 Hfit)]. solve_ext.
  - replace (wb_len b1 + 10) with (wb_len b5) by lia. exact R6.
  - lia.
Qed.

Lemma encode_rrs_ok rs : forall b b', wb_ok b -> Forall wf_rr rs -> encode_rrs rs b = Ok b' ->
  wb_ok b' /\ ext b b' /\ SeqAt (RRAt (wb_octets b')) (wb_len b) rs (wb_len b').
Proof.
  induction rs as [|r rs IH]; intros b b' Hok Hwf; cbn [encode_rrs SeqAt].
  - intros [= <-]. splits; auto using ext_refl.
  - inversion Hwf as [|? ? Hr Hrs]; subst.
    destruct (encode_rr r b) as [b1| | |] eqn:E1; cbn [bind]; try discriminate.
    intros E2.
    destruct (encode_rr_ok r b b1 Hok Hr E1) as (ok1 & e1 & R1).
    destruct (IH b1 b' ok1 Hrs E2) as (ok2 & e2 & S2).
    splits; auto; [solve_ext|].
    exists (wb_len b1). split; auto.
    eapply RRAt_ext; [|exact R1]. exact e2.
Qed.

(* ------------------------------------------------------------------ *)
(* 6. header and whole message                                         *)
(* ------------------------------------------------------------------ *)

(* the two flag octets of Header::serialise *)
Definition hdr_flag (x : bool) (m : N) : N := if x then m else 0.
Definition hdr_f1 (qr : bool) (op : N) (aa tc rd : bool) : N :=
  N.lor (N.lor (N.lor (N.lor (hdr_flag qr HEADER_MASK_QR)
                             (N.land HEADER_MASK_OPCODE (N.land (N.shiftl op HEADER_OFFSET_OPCODE) 255)))
                      (hdr_flag aa HEADER_MASK_AA)) (hdr_flag tc HEADER_MASK_TC))
        (hdr_flag rd HEADER_MASK_RD).
Definition hdr_f2 (ra : bool) (rc : N) : N :=
  N.lor (hdr_flag ra HEADER_MASK_RA) (N.land HEADER_MASK_RCODE (N.land (N.shiftl rc HEADER_OFFSET_RCODE) 255)).

Lemma encode_header_eq h b :
  encode_header h b =
  write_u8 (hdr_f2 (h_ra h) (h_rcode h))
    (write_u8 (hdr_f1 (h_qr h) (h_opcode h) (h_aa h) (h_tc h) (h_rd h)) (write_u16 (h_id h) b)).
Proof. reflexivity. Qed.

(* the RFC's reading of the flag octets (bit 7 = QR, bits 6..3 = OPCODE, ...) against the
   code's masks: a sweep over all 2^4 * 16 and 2 * 16 combinations *)
Definition chk_f1 (qr aa tc rd : bool) (op : N) : bool :=
  let f1 := hdr_f1 qr op aa tc rd in
  (f1 <? 256) && Bool.eqb qr (N.testbit f1 7) && (op =? (f1 / 8) mod 16)
  && Bool.eqb aa (N.testbit f1 2) && Bool.eqb tc (N.testbit f1 1) && Bool.eqb rd (N.testbit f1 0).
Definition chk_f2 (ra : bool) (rc : N) : bool :=
  let f2 := hdr_f2 ra rc in
  (f2 <? 256) && Bool.eqb ra (N.testbit f2 7) && (rc =? f2 mod 16).

Lemma chk_f1_all qr aa tc rd op : op < 16 -> chk_f1 qr aa tc rd op = true.
Proof.
  intros H. destruct qr, aa, tc, rd;
    (apply (N_lt_sweep (chk_f1 _ _ _ _) 16); [vm_compute; reflexivity | exact H]).
Qed.
Lemma chk_f2_all ra rc : rc < 16 -> chk_f2 ra rc = true.
Proof.
  intros H. destruct ra;
    (apply (N_lt_sweep (chk_f2 _) 16); [vm_compute; reflexivity | exact H]).
Qed.

Lemma hdr_f1_spec qr aa tc rd op : op < 16 ->
  let f1 := hdr_f1 qr op aa tc rd in
  f1 < 256 /\ qr = N.testbit f1 7 /\ op = (f1 / 8) mod 16 /\ aa = N.testbit f1 2
  /\ tc = N.testbit f1 1 /\ rd = N.testbit f1 0.
Proof.
  intros H. pose proof (chk_f1_all qr aa tc rd op H) as C. unfold chk_f1 in C.
  repeat (apply andb_true_iff in C; destruct C as [C ?]).
  cbn zeta. splits; try (now apply eqb_prop); [now apply N.ltb_lt | now apply N.eqb_eq].
Qed.
Lemma hdr_f2_spec ra rc : rc < 16 ->
  let f2 := hdr_f2 ra rc in f2 < 256 /\ ra = N.testbit f2 7 /\ rc = f2 mod 16.
Proof.
  intros H. pose proof (chk_f2_all ra rc H) as C. unfold chk_f2 in C.
  repeat (apply andb_true_iff in C; destruct C as [C ?]).
  cbn zeta. splits; [now apply N.ltb_lt | now apply eqb_prop | now apply N.eqb_eq].
Qed.

(* Header::serialise on the empty buffer *)
Lemma encode_header_ok h : wf_header h ->
  wb_ok (encode_header h wb_empty) /\ wb_len (encode_header h wb_empty) = 4
  /\ HeaderIs (wb_octets (encode_header h wb_empty)) h.
Proof.
  intros (Hid & Hop & Hrc). rewrite encode_header_eq.
  destruct (hdr_f1_spec (h_qr h) (h_aa h) (h_tc h) (h_rd h) (h_opcode h) Hop) as (F1 & A1 & A2 & A3 & A4 & A5).
  destruct (hdr_f2_spec (h_ra h) (h_rcode h) Hrc) as (F2 & B1 & B2).
  set (f1 := hdr_f1 _ _ _ _ _) in *. set (f2 := hdr_f2 _ _) in *.
  destruct (write_u16_ok (h_id h) wb_empty wb_ok_empty) as (ok1 & e1 & l1 & U1).
  set (b1 := write_u16 (h_id h) wb_empty) in *.
  destruct (write_u8_ok f1 b1 F1 ok1) as (ok2 & e2 & l2 & U2). set (b2 := write_u8 f1 b1) in *.
  destruct (write_u8_ok f2 b2 F2 ok2) as (ok3 & e3 & l3 & U3). set (b3 := write_u8 f2 b2) in *.
  change (wb_len wb_empty) with 0 in *.
  splits; auto; try lia.
  (* the octets of this 4-octet buffer are explicit, so the positional facts hold by computation *)
  exists f1, f2. splits; auto.
Qed.

Lemma usize_to_u16_ok n v : usize_to_u16 n = Ok v -> v = n /\ n < 65536.
Proof.
  unfold usize_to_u16. destruct (n <? 65536) eqn:E; [|discriminate].
  intros [= <-]. split; auto. now apply N.ltb_lt.
Qed.

(* The whole run of Message::to_octets, in one statement: the final buffer satisfies the
   invariant, and its octets parse (by the grammar) as the message. *)
Lemma encode_run m bs : wf_message m -> encode m = Ok bs ->
  exists b, bs = wb_octets b /\ wb_ok b /\ Parses bs m.
Proof.
  intros (Hh & Hq & Han & Hns & Har). unfold encode.
  destruct (usize_to_u16 (llen (m_questions m))) as [qd| | |] eqn:Eqd; cbn [bind]; try discriminate.
  destruct (usize_to_u16 (llen (m_answers m))) as [an| | |] eqn:Ean; cbn [bind]; try discriminate.
  destruct (usize_to_u16 (llen (m_authority m))) as [ns| | |] eqn:Ens; cbn [bind]; try discriminate.
  destruct (usize_to_u16 (llen (m_additional m))) as [ar| | |] eqn:Ear; cbn [bind]; try discriminate.
  apply usize_to_u16_ok in Eqd as [-> Hqd], Ean as [-> Hand], Ens as [-> Hnsd], Ear as [-> Hard].
  destruct (encode_header_ok (m_header m) Hh) as (okh & lh & HH).
  set (bh := encode_header (m_header m) wb_empty) in *.
  destruct (write_u16_ok (llen (m_questions m)) bh okh) as (ok1 & e1 & l1 & U1).
  set (c1 := write_u16 (llen (m_questions m)) bh) in *.
  destruct (write_u16_ok (llen (m_answers m)) c1 ok1) as (ok2 & e2 & l2 & U2).
  set (c2 := write_u16 (llen (m_answers m)) c1) in *.
  destruct (write_u16_ok (llen (m_authority m)) c2 ok2) as (ok3 & e3 & l3 & U3).
  set (c3 := write_u16 (llen (m_authority m)) c2) in *.
  destruct (write_u16_ok (llen (m_additional m)) c3 ok3) as (ok4 & e4 & l4 & U4).
  set (b0 := write_u16 (llen (m_additional m)) c3) in *.
  destruct (encode_questions_ok (m_questions m) b0 ok4 Hq) as (okq & eq & Sq).
  set (b1 := fold_left (fun acc q => encode_question q acc) (m_questions m) b0) in *.
  destruct (encode_rrs (m_answers m) b1) as [b2| | |] eqn:E2; cbn [bind]; try discriminate.
  destruct (encode_rrs (m_authority m) b2) as [b3| | |] eqn:E3; cbn [bind]; try discriminate.
  destruct (encode_rrs (m_additional m) b3) as [b4| | |] eqn:E4; cbn [bind]; try discriminate.
  intros [= <-].
  destruct (encode_rrs_ok _ _ _ okq Han E2) as (okan & ean & San).
  destruct (encode_rrs_ok _ _ _ okan Hns E3) as (okns & ens & Sns).
  destruct (encode_rrs_ok _ _ _ okns Har E4) as (okar & ear & Sar).
  exists b4. split; [reflexivity|]. split; [exact okar|]. unfold Parses. splits.
  - eapply HeaderIs_ext; [|exact HH]. solve_ext.
  - replace 4 with (wb_len bh) by lia. eapply u16At_ext; [|exact (U1 Hqd)]. solve_ext.
  - replace 6 with (wb_len c1) by lia. eapply u16At_ext; [|exact (U2 Hand)]. solve_ext.
  - replace 8 with (wb_len c2) by lia. eapply u16At_ext; [|exact (U3 Hnsd)]. solve_ext.
  - replace 10 with (wb_len c3) by lia. eapply u16At_ext; [|exact (U4 Hard)]. solve_ext.
  - exists (wb_len b1), (wb_len b2), (wb_len b3), (wb_len b4). splits.
    + replace 12 with (wb_len b0) by lia. eapply SeqQ_ext; [|exact Sq]. solve_ext.
    + eapply SeqRR_ext; [|exact San]. solve_ext.
    + eapply SeqRR_ext; [|exact Sns]. solve_ext.
    + exact Sar.
Qed.

(* DESIGN C04 T2 *)
Theorem encode_parses m bs : wf_message m -> encode m = Ok bs -> Parses bs m.
Proof. intros Hwf E. destruct (encode_run m bs Hwf E) as (b & _ & _ & P). exact P. Qed.

(* the encoder emits octets *)
Theorem encode_bytes m bs : wf_message m -> encode m = Ok bs -> Forall (fun b => b < 256) bs.
Proof. intros Hwf E. destruct (encode_run m bs Hwf E) as (b & -> & ok & _). apply (ok_bytes b ok). Qed.

(* ------------------------------------------------------------------ *)
(* 7. DESIGN C04 T1 in one place                                       *)
(* ------------------------------------------------------------------ *)

(* what [wb_ok] says about every table entry *)
Theorem enc_table_inv_entry b n p : wb_ok b -> In (n, p) (wb_ptrs b) ->
  exists off, p = 49152 + off /\ off < 16384 /\ off < wb_len b /\ off + nlen n <= wb_len b
    /\ wf_name n /\ is_root n = false
    /\ PlainAt (wb_octets b) off (labels n)
    /\ NameAt (wb_octets b) off off (labels n) (off + nlen n)
    /\ NameIs (wb_octets b) off n (off + nlen n).
Proof.
  intros Hok Hin.
  pose proof (ok_ptrs b Hok) as Hp. rewrite Forall_forall in Hp.
  destruct (Hp _ Hin) as (off & H1 & H2 & H3 & H4 & H5). cbn [fst snd] in *.
  pose proof (PlainAt_end _ _ _ H5) as He.
  destruct (wf_name_front n H3) as (front & E & Hf & Hn & Hle).
  assert (1 <= sum_lens (labels n)).
  { rewrite E. clear. induction front; cbn [app]; [rewrite sum_lens_root; lia | rewrite sum_lens_cons; lia]. }
  exists off. rewrite (ok_len b Hok). splits; auto; try lia.
  - now apply PlainAt_NameAt.
  - now apply PlainAt_NameIs.
Qed.

(* the table has one entry per name, and lookup finds it *)
Theorem enc_table_inv_keys b : wb_ok b -> NoDup (map fst (wb_ptrs b)).
Proof. apply ok_keys. Qed.

(* the invariant holds initially and is preserved by every encoder step *)
Theorem enc_table_inv :
  wb_ok wb_empty
  /\ (forall os b, bytes os -> wb_ok b -> wb_ok (write_octets os b))
  /\ (forall v b, wb_ok b -> wb_ok (write_u16 v b))
  /\ (forall v b, wb_ok b -> wb_ok (write_u32 v b))
  /\ (forall n c b, wf_name n -> wb_ok b -> wb_ok (encode_name n c b))
  /\ (forall ty d b, wf_rdata ty d -> wb_ok b -> wb_ok (encode_rdata d b))
  /\ (forall q b, wf_question q -> wb_ok b -> wb_ok (encode_question q b))
  /\ (forall h, wf_header h -> wb_ok (encode_header h wb_empty))
  /\ (forall r b b', wf_rr r -> wb_ok b -> encode_rr r b = Ok b' -> wb_ok b')
  /\ (forall rs b b', Forall wf_rr rs -> wb_ok b -> encode_rrs rs b = Ok b' -> wb_ok b').
Proof.
  splits.
  - exact wb_ok_empty.
  - intros. now apply wb_ok_write_octets.
  - intros. now apply write_u16_ok.
  - intros. now apply write_u32_ok.
  - intros. now apply encode_name_ok.
  - intros ty d b H1 H2. eapply encode_rdata_ok; eauto.
  - intros. now apply encode_question_ok.
  - intros. now apply encode_header_ok.
  - intros r b b' H1 H2 H3. eapply encode_rr_ok; eauto.
  - intros rs b b' H1 H2 H3. eapply encode_rrs_ok; eauto.
Qed.

(* DESIGN C04 T1, last clause: every pointer the encoder emits addresses the start of an
   identical name written earlier (in full), strictly before the pointer itself *)
Theorem encode_name_pointer b n p : wb_ok b -> alookup dname_eqb n (wb_ptrs b) = Some p ->
  exists off,
    wb_octets (encode_name n true b) = wb_octets b ++ [192 + off / 256; off mod 256]
    /\ off < 16384 /\ off + nlen n <= wb_len b
    /\ PlainAt (wb_octets b) off (labels n)
    /\ NameIs (wb_octets b) off n (off + nlen n).
Proof.
  intros Hok L.
  destruct (enc_table_inv_entry b n p Hok (alookup_some _ _ _ L))
    as (off & -> & Ho & Hlt & He & Hwf & _ & Hp & _ & Hn).
  exists off. splits; auto.
  unfold encode_name. rewrite L. unfold write_u16. rewrite octets_write_octets.
  unfold u16_bytes, u16_hi, u16_lo. do 2 f_equal; [dlia | f_equal; dlia].
Qed.

(* DESIGN C04 T1/T2 for one name (the statement asked for as encode_name_parses) *)
Theorem encode_name_parses n c b : wb_ok b -> wf_name n ->
  wb_ok (encode_name n c b)
  /\ NameIs (wb_octets (encode_name n c b)) (wb_len b) n (wb_len (encode_name n c b)).
Proof. intros H1 H2. destruct (encode_name_ok n c b H1 H2) as (? & _ & ? & _). auto. Qed.

Theorem encode_question_parses q b : wb_ok b -> wf_question q ->
  wb_ok (encode_question q b)
  /\ QuestionAt (wb_octets (encode_question q b)) (wb_len b) q (wb_len (encode_question q b)).
Proof. intros H1 H2. destruct (encode_question_ok q b H1 H2) as (? & _ & ?). auto. Qed.

Theorem encode_rr_parses r b b' : wb_ok b -> wf_rr r -> encode_rr r b = Ok b' ->
  wb_ok b' /\ RRAt (wb_octets b') (wb_len b) r (wb_len b').
Proof. intros H1 H2 H3. destruct (encode_rr_ok r b b' H1 H2 H3) as (? & _ & ?). auto. Qed.

(* ------------------------------------------------------------------ *)
(* 8. when the encoder succeeds                                        *)
(* ------------------------------------------------------------------ *)

(* the only ways to fail: a section with 65536 or more entries, or opaque RDATA of 65536 or
   more octets (RDATA made of names and fixed fields is at most 530 octets) *)
Definition rr_fits (r : rr) : Prop :=
  match rr_data r with RD_Octets os => llen os < 65536 | _ => True end.
Definition encodable (m : message) : Prop :=
  llen (m_questions m) < 65536 /\ llen (m_answers m) < 65536
  /\ llen (m_authority m) < 65536 /\ llen (m_additional m) < 65536
  /\ Forall rr_fits (m_answers m) /\ Forall rr_fits (m_authority m) /\ Forall rr_fits (m_additional m).

Lemma wf_name_nlen n : wf_name n -> nlen n <= 255.
Proof. intros H. destruct (wf_name_front n H) as (? & ? & ? & ? & ?). auto. Qed.

Lemma rdata_len_bound r : wf_rr r -> rr_fits r -> rdata_len (rr_data r) < 65536.
Proof.
  intros (_ & _ & _ & _ & _ & Hd). unfold rr_fits.
  destruct (rr_data r); cbn [rdata_len]; intros Hfit; auto;
    repeat match goal with
           | H : _ /\ _ |- _ => destruct H
           | H : wf_name _ |- _ => apply wf_name_nlen in H
           end; try lia.
  unfold llen in *. lia.
Qed.

Lemma encode_rr_succeeds r b : wb_ok b -> wf_rr r -> rr_fits r -> exists b', encode_rr r b = Ok b'.
Proof.
  intros Hok Hwf Hfit. rewrite (encode_rr_unpatched r b Hok Hwf).
  rewrite (proj2 (N.ltb_lt _ _) (rdata_len_bound r Hwf Hfit)). eauto.
Qed.

Lemma encode_rrs_succeeds rs : forall b, wb_ok b -> Forall wf_rr rs -> Forall rr_fits rs ->
  exists b', encode_rrs rs b = Ok b'.
Proof.
  induction rs as [|r rs IH]; intros b Hok Hwf Hfit; cbn [encode_rrs]; [eauto|].
  inversion Hwf; inversion Hfit; subst.
  destruct (encode_rr_succeeds r b) as (b1 & E1); auto. rewrite E1. cbn [bind].
  apply IH; auto. eapply encode_rr_ok; eauto.
Qed.

Theorem encode_succeeds m : wf_message m -> encodable m -> exists bs, encode m = Ok bs.
Proof.
  intros (Hh & Hq & Han & Hns & Har) (C1 & C2 & C3 & C4 & F1 & F2 & F3).
  unfold encode, usize_to_u16.
  rewrite (proj2 (N.ltb_lt _ _) C1), (proj2 (N.ltb_lt _ _) C2),
          (proj2 (N.ltb_lt _ _) C3), (proj2 (N.ltb_lt _ _) C4). cbn [bind].
  destruct (encode_header_ok (m_header m) Hh) as (okh & _).
  set (b0 := write_u16 _ (write_u16 _ (write_u16 _ (write_u16 _ _)))).
  assert (ok0 : wb_ok b0) by (apply write_u16_ok, write_u16_ok, write_u16_ok, write_u16_ok, okh).
  destruct (encode_questions_ok (m_questions m) b0 ok0 Hq) as (ok1 & _).
  set (b1 := fold_left _ _ b0) in *.
  destruct (encode_rrs_succeeds _ b1 ok1 Han F1) as (b2 & E2). rewrite E2. cbn [bind].
  destruct (encode_rrs_ok _ _ _ ok1 Han E2) as (ok2 & _).
  destruct (encode_rrs_succeeds _ b2 ok2 Hns F2) as (b3 & E3). rewrite E3. cbn [bind].
  destruct (encode_rrs_ok _ _ _ ok2 Hns E3) as (ok3 & _).
  destruct (encode_rrs_succeeds _ b3 ok3 Har F3) as (b4 & E4). rewrite E4. cbn [bind].
  eauto.
Qed.

(* anything the grammar parses out of a string of octets is encodable: the counts and every
   RDLENGTH were read from 16-bit fields *)
Lemma u16At_lt bs i v : bytes bs -> u16At bs i v -> v < 65536.
Proof.
  intros Hb (a & b & Ha & Hb' & ->). unfold bytes in Hb. rewrite Forall_forall in Hb.
  apply nth_error_In, Hb in Ha. apply nth_error_In, Hb in Hb'. cbn beta in *. lia.
Qed.

Lemma RRAt_fits bs pos r nx : bytes bs -> RRAt bs pos r nx -> rr_fits r.
Proof.
  intros Hb (p1 & len & _ & _ & _ & _ & Hlen & Hd & _). unfold rr_fits.
  apply (u16At_lt _ _ _ Hb) in Hlen.
  destruct Hd; auto.
  match goal with H : octetsAt _ _ _ _ |- _ => apply sliceN_len in H as [<- _] end. exact Hlen.
Qed.

Lemma SeqRR_fits bs rs : forall pos nx, bytes bs -> SeqAt (RRAt bs) pos rs nx -> Forall rr_fits rs.
Proof.
  induction rs as [|r rs IH]; intros pos nx Hb; cbn [SeqAt]; [constructor|].
  intros (mid & H1 & H2). constructor; eauto using RRAt_fits.
Qed.

Theorem parses_encodable bs m : bytes bs -> Parses bs m -> encodable m.
Proof.
  intros Hb (_ & U1 & U2 & U3 & U4 & p1 & p2 & p3 & p4 & _ & S2 & S3 & S4).
  unfold encodable. splits; eauto using u16At_lt, SeqRR_fits.
Qed.

(* DESIGN C04 T3 against the grammar: whatever parses (as a well-formed message) can be
   re-encoded, and the re-encoding parses to the same message.  No extra hypothesis is needed:
   names that were compressed inside RDATA are written out in full by the encoder, but RDATA
   that contains names is at most 530 octets long, and opaque RDATA is re-emitted octet for
   octet, so RDLENGTH cannot overflow. *)
Theorem reencode_parses bs m : bytes bs -> Parses bs m -> wf_message m ->
  exists bs', encode m = Ok bs' /\ Parses bs' m /\ bytes bs'.
Proof.
  intros Hb HP Hwf.
  destruct (encode_succeeds m Hwf (parses_encodable bs m Hb HP)) as (bs' & E).
  exists bs'. splits; auto; [eapply encode_parses | eapply encode_bytes]; eauto.
Qed.

(* the encoder succeeds exactly on the encodable messages *)
Theorem encode_ok_iff m : wf_message m -> ((exists bs, encode m = Ok bs) <-> encodable m).
Proof.
  intros Hwf. split.
  - intros (bs & E). eapply parses_encodable; [eapply encode_bytes | eapply encode_parses]; eauto.
  - now apply encode_succeeds.
Qed.

(* ---- patch_u16 read directly (not needed above, where the patch is eliminated): it
   replaces the two octets at [p] and nothing else ---- *)
Lemma skipn_add {A} a c : forall l : list A, skipn (a + c) l = skipn c (skipn a l).
Proof.
  induction a as [|a IH]; intros l; [reflexivity|].
  destruct l; cbn [Nat.add skipn]; [now rewrite skipn_nil | apply IH].
Qed.

Lemma octets_patch_u16 b p v : wb_ok b -> p + 2 <= wb_len b ->
  exists A x y B, wb_octets b = A ++ [x; y] ++ B /\ llen A = p
                  /\ wb_octets (patch_u16 p v b) = A ++ [u16_hi v; u16_lo v] ++ B.
Proof.
  intros Hok Hp. pose proof (wb_len_rev b Hok) as Hl. unfold llen in Hl.
  rewrite !wb_octets_rev. unfold patch_u16. cbn [wb_rev].
  set (k := N.to_nat (wb_len b - p - 2)). set (r := wb_rev b) in *.
  assert (Hs : length (skipn k r) = N.to_nat (p + 2)) by (rewrite skipn_length; lia).
  destruct (skipn k r) as [|y [|x rest]] eqn:E; cbn [length] in Hs; try lia.
  assert (Er : skipn (k + 2) r = rest).
  { rewrite skipn_add, E. reflexivity. }
  exists (rev rest), x, y, (rev (firstn k r)). splits.
  - rewrite <- (firstn_skipn k r) at 1. rewrite E, rev_app_distr. cbn [rev]. norm_app.
  - unfold llen. rewrite rev_length. lia.
  - rewrite Er, rev_app_distr. cbn [rev]. norm_app.
Qed.

Lemma patch_u16_nth b p v i : wb_ok b -> p + 2 <= wb_len b -> i < p \/ p + 2 <= i ->
  nthN (wb_octets (patch_u16 p v b)) i = nthN (wb_octets b) i.
Proof.
  intros Hok Hp Hi. destruct (octets_patch_u16 b p v Hok Hp) as (A & x & y & B & -> & <- & ->).
  unfold nthN, llen in *. destruct Hi as [Hi|Hi].
  - rewrite !nth_error_app1 by lia. reflexivity.
  - rewrite !nth_error_app2 by lia.
    rewrite !nth_error_app2 by (cbn [length]; lia). reflexivity.
Qed.

Lemma patch_u16_written b p v : wb_ok b -> p + 2 <= wb_len b -> v < 65536 ->
  u16At (wb_octets (patch_u16 p v b)) p v.
Proof.
  intros Hok Hp Hv. destruct (octets_patch_u16 b p v Hok Hp) as (A & x & y & B & _ & <- & ->).
  exists (u16_hi v), (u16_lo v). cbn [app]. splits.
  - apply nthN_app_mid.
  - unfold at_. rewrite nthN_app_r. reflexivity.
  - now apply u16_bytes_val.
Qed.

(* ------------------------------------------------------------------ *)
(* 9. a decision procedure for wf_message (for closed examples)        *)
(* ------------------------------------------------------------------ *)

Definition wf_label_b (l : label) : bool :=
  (llen l <=? 63) && forallb (fun b => (b <? 256) && negb (is_upper b)) l.
Definition wf_name_b (n : dname) : bool :=
  match rev (labels n) with
  | [] :: rfront =>
    forallb (fun l => negb (is_nil l) && wf_label_b l) rfront
    && (sum_lens (labels n) <=? 255) && (nlen n =? sum_lens (labels n))
  | _ => false
  end.
Definition u16_b (x : N) : bool := x <? 65536.
Definition u32_b (x : N) : bool := x <? 4294967296.
Definition wf_rdata_b (ty : N) (d : rdata) : bool :=
  shape_eqb (shape_of_rdata d) (shape_of_type ty) &&
  match d with
  | RD_A a => u32_b a
  | RD_Name n => wf_name_b n
  | RD_SOA m r a b c d e => wf_name_b m && wf_name_b r && u32_b a && u32_b b && u32_b c && u32_b d && u32_b e
  | RD_Octets os => forallb (fun x => x <? 256) os
  | RD_MINFO r e => wf_name_b r && wf_name_b e
  | RD_MX p e => u16_b p && wf_name_b e
  | RD_AAAA segs => Nat.eqb (length segs) 8 && forallb u16_b segs
  | RD_SRV p w o t => u16_b p && u16_b w && u16_b o && wf_name_b t
  end.
Definition wf_rr_b (r : rr) : bool :=
  wf_name_b (rr_name r) && u16_b (rr_type r) && u16_b (rr_class r) && u32_b (rr_ttl r)
  && wf_rdata_b (rr_type r) (rr_data r).
Definition wf_question_b (q : question) : bool :=
  wf_name_b (q_name q) && u16_b (q_type q) && u16_b (q_class q).
Definition wf_header_b (h : header) : bool := u16_b (h_id h) && (h_opcode h <? 16) && (h_rcode h <? 16).
Definition wf_message_b (m : message) : bool :=
  wf_header_b (m_header m) && forallb wf_question_b (m_questions m) && forallb wf_rr_b (m_answers m)
  && forallb wf_rr_b (m_authority m) && forallb wf_rr_b (m_additional m).

Ltac bsplit H := repeat (let H' := fresh H in apply andb_true_iff in H as [H H']).

Lemma wf_label_b_sound l : wf_label_b l = true -> wf_label l.
Proof.
  unfold wf_label_b, wf_label. intros H. bsplit H. split; [now apply N.leb_le|].
  rewrite forallb_forall in H0. apply Forall_forall. intros x Hx. apply H0 in Hx.
  bsplit Hx. split; [now apply N.ltb_lt | now apply negb_true_iff].
Qed.

Lemma wf_name_b_sound n : wf_name_b n = true -> wf_name n.
Proof.
  unfold wf_name_b, wf_name, wf_labels. intros H.
  destruct (rev (labels n)) as [|[|] rfront] eqn:E; try discriminate.
  bsplit H. apply N.leb_le in H1. apply N.eqb_eq in H0.
  assert (El : labels n = rev rfront ++ [[]]).
  { rewrite <- (rev_involutive (labels n)), E. reflexivity. }
  split; auto. exists (rev rfront). splits; auto.
  apply Forall_forall. intros l Hl. apply in_rev in Hl.
  rewrite forallb_forall in H. apply H in Hl. bsplit Hl. split.
  - destruct l; [discriminate | congruence].
  - now apply wf_label_b_sound.
Qed.

Lemma shape_eqb_eq a b : shape_eqb a b = true -> a = b.
Proof. destruct a, b; cbn; congruence. Qed.

Lemma wf_rdata_b_sound ty d : wf_rdata_b ty d = true -> wf_rdata ty d.
Proof.
  unfold wf_rdata_b, wf_rdata, u16_b, u32_b, u16, u32. intros H. bsplit H.
  split; [now apply shape_eqb_eq|].
  destruct d; bsplit H0;
    repeat match goal with
           | H : wf_name_b _ = true |- _ => apply wf_name_b_sound in H
           | H : (_ <? _) = true |- _ => apply N.ltb_lt in H
           end; splits; auto.
  - apply Forall_forall. intros x Hx. rewrite forallb_forall in H0. apply H0 in Hx. now apply N.ltb_lt.
  - now apply Nat.eqb_eq.
  - apply Forall_forall. intros x Hx. rewrite forallb_forall in H1. apply H1 in Hx. now apply N.ltb_lt.
Qed.

Lemma wf_rr_b_sound r : wf_rr_b r = true -> wf_rr r.
Proof.
  unfold wf_rr_b, wf_rr, u16_b, u32_b, u16, u32. intros H. bsplit H.
  splits; auto using wf_name_b_sound, wf_rdata_b_sound; now apply N.ltb_lt.
Qed.
Lemma wf_question_b_sound q : wf_question_b q = true -> wf_question q.
Proof.
  unfold wf_question_b, wf_question, u16_b, u16. intros H. bsplit H.
  splits; auto using wf_name_b_sound; now apply N.ltb_lt.
Qed.
Lemma forallb_Forall {A} (f : A -> bool) (P : A -> Prop) l :
  (forall x, f x = true -> P x) -> forallb f l = true -> Forall P l.
Proof.
  intros Hf H. rewrite forallb_forall in H. apply Forall_forall. auto.
Qed.
Theorem wf_message_b_sound m : wf_message_b m = true -> wf_message m.
Proof.
  unfold wf_message_b, wf_message, wf_header_b, wf_header, u16_b, u16. intros H. bsplit H.
  splits; try (now apply N.ltb_lt);
    eauto using forallb_Forall, wf_question_b_sound, wf_rr_b_sound.
Qed.

(* ------------------------------------------------------------------ *)
(* 10. examples                                                        *)
(* ------------------------------------------------------------------ *)

Definition mkname (front : list label) : dname :=
  {| labels := front ++ [[]]; nlen := sum_lens (front ++ [[]]) |}.

Definition L_www : label := [119; 119; 119].
Definition L_example : label := [101; 120; 97; 109; 112; 108; 101].
Definition L_com : label := [99; 111; 109].
Definition L_ns : label := [110; 115].
Definition L_host : label := [104; 111; 115; 116].
Definition N_www := mkname [L_www; L_example; L_com].
Definition N_host := mkname [L_host; L_example; L_com].
Definition N_example := mkname [L_example; L_com].
Definition N_ns := mkname [L_ns; L_example; L_com].
(* a name of maximal length: 3 labels of 63 octets and one of 61 *)
Definition N_max := mkname [repeat 97 63; repeat 98 63; repeat 99 63; repeat 100 61].

Definition mkrr n ty d := {| rr_name := n; rr_type := ty; rr_class := RC_IN; rr_ttl := 300; rr_data := d |}.

(* every record shape, names repeated as owners (compressed) and inside RDATA (not compressed,
   but memoised), a maximal name, empty RDATA *)
Definition ex_msg : message :=
  {| m_header := {| h_id := 4660; h_qr := true; h_opcode := 0; h_aa := true; h_tc := false;
                    h_rd := true; h_ra := true; h_rcode := 3 |};
     m_questions := [ {| q_name := N_www; q_type := 255; q_class := 1 |} ];
     m_answers := [ mkrr N_www RT_CNAME (RD_Name N_host);
                    mkrr N_host RT_A (RD_A 3232235777);
                    mkrr N_host RT_AAAA (RD_AAAA [8193; 3512; 0; 0; 0; 0; 0; 1]);
                    mkrr N_host RT_TXT (RD_Octets []);
                    mkrr N_max 65280 (RD_Octets [1; 2; 255]) ];
     m_authority := [ mkrr N_example RT_NS (RD_Name N_ns);
                      mkrr N_example RT_SOA (RD_SOA N_ns N_host 1 2 3 4 4294967295);
                      mkrr N_max RT_MINFO (RD_MINFO N_max N_ns) ];
     m_additional := [ mkrr N_ns RT_A (RD_A 167772161);
                       mkrr N_example RT_MX (RD_MX 10 N_host);
                       mkrr N_www RT_SRV (RD_SRV 1 2 443 N_host) ] |}.

Example ex_msg_wf : wf_message ex_msg.
Proof. apply wf_message_b_sound. vm_compute. reflexivity. Qed.

(* it encodes, to 859 octets; the model's own decoder returns the message *)
Example ex_msg_roundtrip :
  exists bs, encode ex_msg = Ok bs /\ llen bs = 859 /\ decode bs = Ok ex_msg.
Proof. eexists. split; [vm_compute; reflexivity|]. split; vm_compute; reflexivity. Qed.

(* a small message byte for byte: the question name is written once, the owner of the answer
   is the pointer 0xC00C to it, the CNAME target is written in full (RDATA is never
   compressed) and the owner of the second answer is the pointer 0xC02D to that target *)
Example ex_small_bytes :
  encode {| m_header := {| h_id := 258; h_qr := true; h_opcode := 0; h_aa := false; h_tc := false;
                           h_rd := true; h_ra := true; h_rcode := 0 |};
            m_questions := [ {| q_name := N_www; q_type := 1; q_class := 1 |} ];
            m_answers := [ mkrr N_www RT_CNAME (RD_Name N_host); mkrr N_host RT_A (RD_A 16909060) ];
            m_authority := []; m_additional := [] |}
  = Ok ([1; 2; 129; 128; 0; 1; 0; 2; 0; 0; 0; 0]
        ++ [3; 119; 119; 119; 7; 101; 120; 97; 109; 112; 108; 101; 3; 99; 111; 109; 0] ++ [0; 1; 0; 1]
        ++ [192; 12] ++ [0; 5; 0; 1; 0; 0; 1; 44] ++ [0; 18]
        ++ [4; 104; 111; 115; 116; 7; 101; 120; 97; 109; 112; 108; 101; 3; 99; 111; 109; 0]
        ++ [192; 45] ++ [0; 1; 0; 1; 0; 0; 1; 44] ++ [0; 4] ++ [1; 2; 3; 4]).
Proof. vm_compute. reflexivity. Qed.

(* beyond the range of compression pointers: 17000 octets of TXT, then a new name three
   times.  Its first occurrence is at offset 17029 >= 16384, so it is never memoised and is
   written in full each time (3 * 17 octets); [N_www], first written at offset 12, is still
   compressed. *)
Definition ex_big : message :=
  {| m_header := {| h_id := 1; h_qr := true; h_opcode := 0; h_aa := false; h_tc := false;
                    h_rd := false; h_ra := false; h_rcode := 0 |};
     m_questions := [ {| q_name := N_www; q_type := 16; q_class := 1 |} ];
     m_answers := [ mkrr N_www RT_TXT (RD_Octets (repeat 7 (N.to_nat 17000)));
                    mkrr N_ns RT_A (RD_A 1);
                    mkrr N_ns RT_A (RD_A 2);
                    mkrr N_www RT_NS (RD_Name N_ns) ];
     m_authority := []; m_additional := [] |}.

Example ex_big_wf : wf_message ex_big.
Proof. apply wf_message_b_sound. vm_cast_no_check (@eq_refl bool true). Qed.

Lemma ok_match (r : res serr (list byte)) (P : list byte -> Prop) :
  match r with Ok bs => P bs | _ => False end -> exists bs, r = Ok bs /\ P bs.
Proof. destruct r; [eauto | contradiction..]. Qed.

(* (one evaluation by the kernel's virtual machine, at Qed) *)
Example ex_big_roundtrip :
  exists bs, encode ex_big = Ok bs /\ decode bs = Ok ex_big
    /\ llen bs = 12 + (17 + 4) + (2 + 10 + 17000) + 2 * (16 + 10 + 4) + (2 + 10 + 16).
Proof.
  apply ok_match.
  vm_cast_no_check (conj (@eq_refl _ (@Ok werr message ex_big)) (@eq_refl N 17133)).
Qed.

(* a record the encoder refuses: 65536 octets of opaque RDATA (so [encode_parses] and
   [roundtrip] keep the hypothesis that encoding succeeded) *)
Example ex_too_long :
  let m := {| m_header := m_header ex_big; m_questions := [];
              m_answers := [ mkrr N_www RT_TXT (RD_Octets (repeat 7 (N.to_nat 65536))) ];
              m_authority := []; m_additional := [] |} in
  wf_message m /\ encode m = Err (CounterTooLarge 65536).
Proof.
  split; [apply wf_message_b_sound; vm_cast_no_check (@eq_refl bool true)|].
  vm_cast_no_check (@eq_refl (res serr (list byte)) (Err (CounterTooLarge 65536))).
Qed.
