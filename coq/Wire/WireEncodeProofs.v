(* Wire/WireEncodeProofs.v -- C04: the encoder of Wire/WireModel.v (a model of
   protocol/serialise.rs) produces byte strings that the relational grammar of
   Wire/WireGrammar.v parses back to the same message.

   Structure:
     1. list / N helpers, append-stability of the grammar predicates
     2. plain (pointer-free) names: [wire_labels], [PlainAt], [plain_NameAt]
     3. the buffer invariant [wb_ok] (enc_table_inv) and its preservation
     4. encode_name / encode_rdata / encode_question / encode_rr / header
     5. RDLENGTH back-patching eliminated ([encode_rr_unpatched])
     6. encode_parses, encode_bytes, encode_succeeds *)
From Coq Require Import ZArith.
From RV Require Import Base.Prelude Base.Cursor Name.NameModel Name.NameSpec
  Wire.WireTypes Wire.WireModel Wire.WireGrammar.
Open Scope N_scope.

(* lia with division / modulo by constants *)
Ltac dlia := zify; Z.to_euclidean_division_equations; lia.

(* ------------------------------------------------------------------ *)
(* 1. helpers                                                          *)
(* ------------------------------------------------------------------ *)

Lemma llen_nil {A} : llen (@nil A) = 0.
Proof. reflexivity. Qed.
Lemma llen_cons {A} (x : A) l : llen (x :: l) = 1 + llen l.
Proof. unfold llen; cbn [length]; lia. Qed.
Lemma llen_app {A} (a b : list A) : llen (a ++ b) = llen a + llen b.
Proof. unfold llen; rewrite app_length; lia. Qed.

Lemma leqb_eq a b : leqb a b = true <-> a = b.
Proof.
  revert b; induction a as [|x a IH]; destruct b as [|y b]; cbn; split; try congruence; intros H.
  - apply andb_true_iff in H as [H1 H2]. apply N.eqb_eq in H1. apply IH in H2. congruence.
  - injection H as -> ->. rewrite N.eqb_refl. cbn. now apply IH.
Qed.
Lemma lleqb_eq a b : lleqb a b = true <-> a = b.
Proof.
  revert b; induction a as [|x a IH]; destruct b as [|y b]; cbn; split; try congruence; intros H.
  - apply andb_true_iff in H as [H1 H2]. apply leqb_eq in H1. apply IH in H2. congruence.
  - injection H as -> ->. rewrite (proj2 (leqb_eq _ _) eq_refl). cbn. now apply IH.
Qed.
Lemma dname_eqb_eq a b : dname_eqb a b = true <-> a = b.
Proof.
  unfold dname_eqb. rewrite andb_true_iff, lleqb_eq, N.eqb_eq.
  destruct a, b; cbn; split; [intros [-> ->]; reflexivity | intros [= -> ->]; auto].
Qed.

Lemma alookup_some {V} n (m : list (dname * V)) v :
  alookup dname_eqb n m = Some v -> In (n, v) m.
Proof.
  induction m as [|[k w] m IH]; cbn; [discriminate|].
  destruct (dname_eqb n k) eqn:E.
  - intros [= ->]. apply dname_eqb_eq in E. subst. now left.
  - intros H. right. auto.
Qed.
Lemma alookup_none {V} n (m : list (dname * V)) :
  alookup dname_eqb n m = None -> ~ In n (map fst m).
Proof.
  induction m as [|[k w] m IH]; cbn; [tauto|].
  destruct (dname_eqb n k) eqn:E; [discriminate|].
  intros H [Hk|Hin]; [|now apply IH].
  subst k. rewrite (proj2 (dname_eqb_eq n n) eq_refl) in E. discriminate.
Qed.

Lemma nthN_app_l {A} (l l' : list A) i x : nthN l i = Some x -> nthN (l ++ l') i = Some x.
Proof.
  unfold nthN; intros H. rewrite nth_error_app1; auto.
  apply nth_error_Some. congruence.
Qed.
Lemma nthN_app_r {A} (pre post : list A) i : nthN (pre ++ post) (llen pre + i) = nthN post i.
Proof.
  unfold nthN, llen. rewrite nth_error_app2 by lia. f_equal. lia.
Qed.
Lemma nthN_app_mid {A} (pre : list A) x post : nthN (pre ++ x :: post) (llen pre) = Some x.
Proof.
  replace (llen pre) with (llen pre + 0) by lia. rewrite nthN_app_r. reflexivity.
Qed.
Lemma nthN_lt {A} (l : list A) i x : nthN l i = Some x -> i < llen l.
Proof.
  unfold nthN, llen. intros H.
  assert (N.to_nat i < length l)%nat by (apply nth_error_Some; congruence). lia.
Qed.

Lemma sliceN_app_l {A} (l l' : list A) i n os :
  sliceN l i n = Some os -> sliceN (l ++ l') i n = Some os.
Proof.
  unfold sliceN. destruct (i + n <=? llen l) eqn:E; [|discriminate].
  intros [= <-]. apply N.leb_le in E.
  rewrite (proj2 (N.leb_le _ _)) by (rewrite llen_app; lia).
  f_equal. rewrite skipn_app, firstn_app.
  replace (N.to_nat n - length (skipn (N.to_nat i) l))%nat with 0%nat
    by (rewrite skipn_length; unfold llen in E; lia).
  cbn [firstn]. now rewrite app_nil_r.
Qed.
Lemma skipn_app_exact {A} (pre l : list A) : skipn (length pre) (pre ++ l) = l.
Proof. induction pre; cbn; auto. Qed.
Lemma firstn_app_exact {A} (os l : list A) : firstn (length os) (os ++ l) = os.
Proof. induction os; cbn; [reflexivity | f_equal; auto]. Qed.
Lemma sliceN_app_mid {A} (pre os post : list A) :
  sliceN (pre ++ os ++ post) (llen pre) (llen os) = Some os.
Proof.
  unfold sliceN. rewrite (proj2 (N.leb_le _ _)) by (rewrite !llen_app; lia).
  f_equal. unfold llen. rewrite !Nat2N.id, skipn_app_exact, firstn_app_exact. reflexivity.
Qed.
Lemma sliceN_len {A} (l : list A) i n os : sliceN l i n = Some os -> llen os = n /\ i + n <= llen l.
Proof.
  unfold sliceN. destruct (i + n <=? llen l) eqn:E; [|discriminate].
  intros [= <-]. apply N.leb_le in E. split; auto.
  unfold llen in *. rewrite firstn_length, skipn_length. lia.
Qed.

(* big-endian fields as written *)
Lemma u16_bytes_val v : v < 65536 -> v = u16_hi v * 256 + u16_lo v.
Proof. unfold u16_hi, u16_lo. intros. dlia. Qed.
Lemma u32_bytes_val v : v < 4294967296 ->
  v = (((v / 16777216) mod 256 * 256 + (v / 65536) mod 256) * 256 + (v / 256) mod 256) * 256 + v mod 256.
Proof. intros. dlia. Qed.
Lemma u16_hi_lt v : u16_hi v < 256.
Proof. unfold u16_hi. dlia. Qed.
Lemma u16_lo_lt v : u16_lo v < 256.
Proof. unfold u16_lo. dlia. Qed.

Definition bytes (l : list N) : Prop := Forall (fun b => b < 256) l.

Lemma bytes_u16 v : bytes (u16_bytes v).
Proof. repeat constructor; [apply u16_hi_lt | apply u16_lo_lt]. Qed.
Lemma bytes_u32 v : bytes (u32_bytes v).
Proof. unfold u32_bytes. repeat constructor; dlia. Qed.
Lemma bytes_app a b : bytes a -> bytes b -> bytes (a ++ b).
Proof. unfold bytes. intros. apply Forall_app. auto. Qed.

(* finite sweeps *)
Lemma N_lt_sweep (P : N -> bool) (k : nat) :
  forallb P (map N.of_nat (seq 0 k)) = true -> forall x, x < N.of_nat k -> P x = true.
Proof.
  intros H x Hx. rewrite forallb_forall in H. apply H.
  apply in_map_iff. exists (N.to_nat x). split; [lia|]. apply in_seq. lia.
Qed.

Lemma lor_192 x : x < 64 -> N.lor x 192 = x + 192.
Proof.
  intros Hx.
  assert (H : (N.lor x 192 =? x + 192) = true).
  { revert x Hx. apply (N_lt_sweep (fun x => N.lor x 192 =? x + 192) 64). vm_compute. reflexivity. }
  now apply N.eqb_eq in H.
Qed.

(* ---- the grammar predicates only read the octets they mention: appending is harmless ---- *)

Lemma at_app bs more i x : at_ bs i = Some x -> at_ (bs ++ more) i = Some x.
Proof. apply nthN_app_l. Qed.
Lemma u16At_app bs more i v : u16At bs i v -> u16At (bs ++ more) i v.
Proof. intros (a & b & Ha & Hb & E). exists a, b. auto using at_app. Qed.
Lemma u32At_app bs more i v : u32At bs i v -> u32At (bs ++ more) i v.
Proof. intros (a & b & c & d & Ha & Hb & Hc & Hd & E). exists a, b, c, d. auto 6 using at_app. Qed.
Lemma octetsAt_app bs more i n os : octetsAt bs i n os -> octetsAt (bs ++ more) i n os.
Proof. apply sliceN_app_l. Qed.
Lemma u16sAt_app bs more vs : forall i, u16sAt bs i vs -> u16sAt (bs ++ more) i vs.
Proof. induction vs; cbn; auto. intros i [H1 H2]. auto using u16At_app. Qed.
Lemma NameAt_app bs more s p ls nx : NameAt bs s p ls nx -> NameAt (bs ++ more) s p ls nx.
Proof.
  induction 1.
  - apply NA_root. now apply at_app.
  - eapply NA_label; eauto using at_app, octetsAt_app.
  - eapply NA_ptr; eauto using at_app.
Qed.
Lemma NameIs_app bs more p n nx : NameIs bs p n nx -> NameIs (bs ++ more) p n nx.
Proof. intros (H & ?). split; auto using NameAt_app. Qed.
Lemma RDataAt_app bs more ty len pos d nx :
  RDataAt bs ty len pos d nx -> RDataAt (bs ++ more) ty len pos d nx.
Proof.
  destruct 1;
    [ eapply RDA_A | eapply RDA_Name | eapply RDA_SOA | eapply RDA_Octets | eapply RDA_MINFO
    | eapply RDA_MX | eapply RDA_AAAA | eapply RDA_SRV ];
    eauto using u32At_app, u16At_app, NameIs_app, octetsAt_app, u16sAt_app.
Qed.
Lemma RRAt_app bs more pos r nx : RRAt bs pos r nx -> RRAt (bs ++ more) pos r nx.
Proof.
  intros (p1 & len & H1 & H2 & H3 & H4 & H5 & H6 & H7). exists p1, len.
  repeat (apply conj); auto using NameIs_app, u16At_app, u32At_app, RDataAt_app.
Qed.
Lemma QuestionAt_app bs more pos q nx : QuestionAt bs pos q nx -> QuestionAt (bs ++ more) pos q nx.
Proof.
  intros (p1 & H1 & H2 & H3 & H4). exists p1. repeat (apply conj); auto using NameIs_app, u16At_app.
Qed.
Lemma SeqAt_app {A} (P : list byte -> N -> A -> N -> Prop) bs more
  (HP : forall pos x nx, P bs pos x nx -> P (bs ++ more) pos x nx) xs :
  forall pos nx, SeqAt (P bs) pos xs nx -> SeqAt (P (bs ++ more)) pos xs nx.
Proof.
  induction xs; cbn; auto. intros pos nx (mid & H1 & H2). exists mid. auto.
Qed.
Lemma HeaderIs_app bs more h : HeaderIs bs h -> HeaderIs (bs ++ more) h.
Proof.
  intros (f1 & f2 & H0 & H1 & H2 & H). exists f1, f2. auto using u16At_app, at_app.
Qed.
