(* Wire/WireDecodeSteps.v -- C03 T.2 (decode_steps): the work done by the wire
   decoder is bounded.

   The decoder of Wire/WireModel.v is written again with a step counter: every
   function returns, beside its result, the number of CURSOR OPERATIONS it
   performed (one per call of next_u8 / next_u16 / next_u32 / take; these are
   the only primitives that touch the buffer).  The instrumented functions have
   the same control flow as the model, and [decode_c_result] proves that the
   result component IS the model's result, so the counter counts the
   operations of the model and nothing else.

   Bounds proved (none of them depends on the fuel of the model):
     - one nested call of DomainName::deserialise does at most 128 iterations
       of its loop (2 cursor operations each) because every iteration that
       continues adds at least 2 to the length and stops above 255;
     - a name whose first octet is at [pos] costs at most
       256 * min (pos + 1, hops) operations, hence at most 256 * 16385;
     - a question costs at most that + 2, a resource record at most
       3 * that + 12 (owner + two names of an SOA/MINFO; 8 reads for AAAA);
     - every successful question/record decoder strictly advances the cursor
       and stays inside the buffer, so the count loops call their decoder at
       most |bs| - 11 times altogether whatever the four 16-bit counts claim;
     - therefore [decode] performs at most 769 * (|bs| + 1) * 16384 cursor
       operations ([decode_steps]). *)
From RV Require Import Base.Prelude Base.Cursor Name.NameModel Name.NameSpec
  Wire.WireTypes Wire.WireModel Wire.WireGrammar Wire.WireDecodeProofs.
Open Scope N_scope.
Set Default Timeout 120.

(* ------------------------------------------------------------------ *)
(* 1. results with a step counter                                      *)
(* ------------------------------------------------------------------ *)

Definition resc (X A : Type) : Type := (res X A * N)%type.

Definition bindc {X A B} (r : resc X A) (f : A -> resc X B) : resc X B :=
  match fst r with
  | Ok a => (fst (f a), snd r + snd (f a))
  | Err e => (Err e, snd r)
  | Panic => (Panic, snd r)
  | OutOfFuel => (OutOfFuel, snd r)
  end.
Notation "'letc' x ':=' r 'in' k" := (bindc r (fun x => k))
  (at level 200, x pattern, r at level 100, k at level 200, right associativity).

(* one cursor operation / none *)
Definition tick {X A} (r : res X A) : resc X A := (r, 1).
Definition done {X A} (r : res X A) : resc X A := (r, 0).

Lemma snd_pair {A B} (a : A) (b : B) : snd (a, b) = b.
Proof. reflexivity. Qed.
Lemma fst_pair {A B} (a : A) (b : B) : fst (a, b) = a.
Proof. reflexivity. Qed.

Lemma fst_bindc {X A B} (r : resc X A) (f : A -> resc X B) :
  fst (bindc r f) = bind (fst r) (fun a => fst (f a)).
Proof. unfold bindc. destruct (fst r); reflexivity. Qed.

Lemma bind_cong {X A B} (r1 r2 : res X A) (f g : A -> res X B) :
  r1 = r2 -> (forall a, f a = g a) -> bind r1 f = bind r2 g.
Proof. intros -> H. destruct r2; cbn [bind]; auto. Qed.

Lemma snd_bindc_eq {X A B} (r : resc X A) (f : A -> resc X B) :
  snd (bindc r f) = snd r + match fst r with Ok a => snd (f a) | _ => 0 end.
Proof. unfold bindc. destruct (fst r); cbn [snd]; lia. Qed.

Lemma snd_bindc_le {X A B} (r : resc X A) (f : A -> resc X B) a b :
  snd r <= a -> (forall x, fst r = Ok x -> snd (f x) <= b) -> snd (bindc r f) <= a + b.
Proof.
  intros Ha Hb. rewrite snd_bindc_eq. destruct (fst r) as [x| | |]; [specialize (Hb x eq_refl)|..]; lia.
Qed.

(* ------------------------------------------------------------------ *)
(* 2. names                                                            *)
(* ------------------------------------------------------------------ *)

Section NameLoopC.
  Variable rec : N -> resc werr_kind (dname * cur).
  Variable start : N.

  (* NameModel.name_loop with a counter: same branches in the same order *)
  Fixpoint name_loop_c (lf : nat) (c : cur) (len : N) (acc : list label)
    : resc werr_kind (dname * cur) :=
    match lf with
    | O => (OutOfFuel, 0)
    | S lf' =>
      match next_u8 c with
      | None => (Err DomainTooShort, 1)
      | Some (size, c1) =>
        if size <=? LABEL_MAX_LEN then
          let len1 := len + 1 in
          if size =? 0 then (name_finish (acc ++ [[]]) len1 c1, 1)
          else match take size c1 with
               | None => (Err DomainTooShort, 2)
               | Some (os, c2) =>
                 let len2 := len1 + size in
                 let acc2 := acc ++ [map lower os] in
                 if DOMAINNAME_MAX_LEN <? len2 then (name_finish acc2 len2 c2, 2)
                 else let r := name_loop_c lf' c2 len2 acc2 in (fst r, 2 + snd r)
               end
        else if 192 <=? size then
          let hi := N.land size 63 in
          match next_u8 c1 with
          | None => (Err DomainTooShort, 2)
          | Some (lo, c2) =>
            let ptr := u16_be hi lo in
            if start <=? ptr then (Err DomainPointerInvalid, 2)
            else let r := rec ptr in
                 (match fst r with
                  | Ok (other, _) => name_finish (acc ++ labels other) (len + nlen other) c2
                  | Err e => Err e
                  | Panic => Panic
                  | OutOfFuel => OutOfFuel
                  end, 2 + snd r)
          end
        else (Err DomainLabelInvalid, 1)
      end
    end.
End NameLoopC.

Fixpoint decode_name_c (hops : nat) (bs : list byte) (c : cur) : resc werr_kind (dname * cur) :=
  match hops with
  | O => (OutOfFuel, 0)
  | S h => name_loop_c (fun ptr => decode_name_c h bs (at_offset bs ptr)) (cpos c) LABEL_FUEL c 0 []
  end.

Lemma name_loop_c_fst rec rec' start :
  (forall p, fst (rec p) = rec' p) ->
  forall lf c len acc, fst (name_loop_c rec start lf c len acc) = name_loop rec' start lf c len acc.
Proof.
  intro Hr. induction lf as [|lf IH]; intros c len acc; cbn [name_loop_c name_loop]; [reflexivity|].
  destruct (next_u8 c) as [[size c1]|]; [|reflexivity].
  destruct (size <=? LABEL_MAX_LEN).
  - destruct (size =? 0); [reflexivity|]. destruct (take size c1) as [[os c2]|]; [|reflexivity].
    destruct (DOMAINNAME_MAX_LEN <? len + 1 + size); [reflexivity|]. cbn [fst]. apply IH.
  - destruct (192 <=? size); [|reflexivity]. destruct (next_u8 c1) as [[lo c2]|]; [|reflexivity].
    destruct (start <=? u16_be (N.land size 63) lo); [reflexivity|]. cbn [fst]. rewrite Hr. reflexivity.
Qed.

Lemma decode_name_c_fst bs : forall h c, fst (decode_name_c h bs c) = decode_name h bs c.
Proof.
  induction h as [|h IH]; intro c; cbn [decode_name_c decode_name]; [reflexivity|].
  apply name_loop_c_fst. intro p. apply IH.
Qed.

(* one nested call: at most 128 iterations of 2 operations, plus what the name
   a pointer refers to costs *)
Lemma name_loop_c_cost rec start R :
  (forall p, p < start -> snd (rec p) <= R) ->
  forall lf c len acc, len <= 255 ->
    exists k, snd (name_loop_c rec start lf c len acc) <= 2 * k + R /\ 2 * k + len <= 257.
Proof.
  intro Hr. induction lf as [|lf IH]; intros c len acc Hlen; cbn [name_loop_c].
  - exists 0. cbn [snd]. lia.
  - destruct (next_u8 c) as [[size c1]|]; [|exists 1; cbn [snd]; lia].
    unfold LABEL_MAX_LEN, DOMAINNAME_MAX_LEN.
    destruct (N.leb_spec size 63) as [Hle|Hgt].
    + destruct (N.eqb_spec size 0) as [->|Hnz]; [exists 1; cbn [snd]; lia|].
      destruct (take size c1) as [[os c2]|]; [|exists 1; cbn [snd]; lia].
      destruct (N.ltb_spec 255 (len + 1 + size)) as [Hlong|Hshort]; [exists 1; cbn [snd]; lia|].
      destruct (IH c2 (len + 1 + size) (acc ++ [map lower os]) Hshort) as (k & Hk & Hk2).
      exists (k + 1). cbn [snd]. lia.
    + destruct (N.leb_spec 192 size) as [H192|]; [|exists 1; cbn [snd]; lia].
      destruct (next_u8 c1) as [[lo c2]|]; [|exists 1; cbn [snd]; lia].
      destruct (N.leb_spec start (u16_be (N.land size 63) lo)) as [|Hlt]; [exists 1; cbn [snd]; lia|].
      exists 1. cbn [snd]. specialize (Hr _ Hlt). lia.
Qed.

(* a name whose first octet is at [cpos c]: pointer targets strictly decrease,
   so there are at most [cpos c + 1] nested calls (and at most [h] by fuel) *)
Lemma decode_name_c_cost bs : forall h c,
  snd (decode_name_c h bs c) <= 256 * N.min (cpos c + 1) (N.of_nat h).
Proof.
  induction h as [|h IH]; intro c; cbn [decode_name_c]; [cbn [snd]; lia|].
  destruct (name_loop_c_cost (fun ptr => decode_name_c h bs (at_offset bs ptr)) (cpos c)
              (256 * N.min (cpos c) (N.of_nat h))) with (lf := LABEL_FUEL) (c := c) (len := 0)
              (acc := @nil label) as (k & Hk & Hk2).
  - intros p Hp. eapply N.le_trans; [apply IH|]. change (cpos (at_offset bs p)) with p. lia.
  - lia.
  - lia.
Qed.

(* the cost of any one name, in cursor operations *)
Definition NAME_STEPS : N := 256 * 16385.

Lemma decode_name_c_steps bs c : snd (decode_name_c HOP_FUEL bs c) <= NAME_STEPS.
Proof.
  eapply N.le_trans; [apply decode_name_c_cost|]. unfold HOP_FUEL, NAME_STEPS. rewrite N2Nat.id. lia.
Qed.

(* ------------------------------------------------------------------ *)
(* 3. questions, RDATA, records, the count loops                       *)
(* ------------------------------------------------------------------ *)

Section WithBufferC.
  Variable bs : list byte.
  Variable id : N.

  Definition dname_at_c (c : cur) : resc werr (dname * cur) :=
    let r := decode_name_c HOP_FUEL bs c in
    (match fst r with
     | Ok x => Ok x
     | Err k => Err (E id k)
     | Panic => Panic
     | OutOfFuel => OutOfFuel
     end, snd r).

  Definition u16_or_c (k : werr_kind) (c : cur) : resc werr (N * cur) := tick (u16_or id k c).
  Definition u32_or_c (k : werr_kind) (c : cur) : resc werr (N * cur) := tick (u32_or id k c).

  Definition decode_question_c (c : cur) : resc werr (question * cur) :=
    letc (n, c1) := dname_at_c c in
    letc (qt, c2) := u16_or_c QuestionTooShort c1 in
    letc (qc, c3) := u16_or_c QuestionTooShort c2 in
    done (Ok ({| q_name := n; q_type := qt; q_class := qc |}, c3)).

  Fixpoint decode_u16s_c (k : nat) (c : cur) : resc werr (list N * cur) :=
    match k with
    | O => done (Ok ([], c))
    | S k' => letc (v, c1) := u16_or_c ResourceRecordTooShort c in
              letc (vs, c2) := decode_u16s_c k' c1 in
              done (Ok (v :: vs, c2))
    end.

  Definition decode_rdata_c (rtype rdlength : N) (c : cur) : resc werr (rdata * cur) :=
    match shape_of_type rtype with
    | ShA => letc (a, c1) := u32_or_c ResourceRecordTooShort c in done (Ok (RD_A a, c1))
    | ShName => letc (n, c1) := dname_at_c c in done (Ok (RD_Name n, c1))
    | ShSOA =>
      letc (m, c1) := dname_at_c c in
      letc (r, c2) := dname_at_c c1 in
      letc (serial, c3) := u32_or_c ResourceRecordTooShort c2 in
      letc (refresh, c4) := u32_or_c ResourceRecordTooShort c3 in
      letc (retry, c5) := u32_or_c ResourceRecordTooShort c4 in
      letc (expire, c6) := u32_or_c ResourceRecordTooShort c5 in
      letc (minimum, c7) := u32_or_c ResourceRecordTooShort c6 in
      done (Ok (RD_SOA m r serial refresh retry expire minimum, c7))
    | ShOctets =>
      tick (match take rdlength c with
            | Some (os, c1) => Ok (RD_Octets os, c1)
            | None => Err (E id ResourceRecordTooShort)
            end)
    | ShMINFO =>
      letc (r, c1) := dname_at_c c in
      letc (e, c2) := dname_at_c c1 in
      done (Ok (RD_MINFO r e, c2))
    | ShMX =>
      letc (p, c1) := u16_or_c ResourceRecordTooShort c in
      letc (e, c2) := dname_at_c c1 in
      done (Ok (RD_MX p e, c2))
    | ShAAAA => letc (segs, c1) := decode_u16s_c 8 c in done (Ok (RD_AAAA segs, c1))
    | ShSRV =>
      letc (p, c1) := u16_or_c ResourceRecordTooShort c in
      letc (w, c2) := u16_or_c ResourceRecordTooShort c1 in
      letc (o, c3) := u16_or_c ResourceRecordTooShort c2 in
      letc (t, c4) := dname_at_c c3 in
      done (Ok (RD_SRV p w o t, c4))
    end.

  Definition decode_rr_c (c : cur) : resc werr (rr * cur) :=
    letc (n, c1) := dname_at_c c in
    letc (rtype, c2) := u16_or_c ResourceRecordTooShort c1 in
    letc (rclass, c3) := u16_or_c ResourceRecordTooShort c2 in
    letc (ttl, c4) := u32_or_c ResourceRecordTooShort c3 in
    letc (rdlength, c5) := u16_or_c ResourceRecordTooShort c4 in
    let rdata_start := cpos c5 in
    letc (d, c6) := decode_rdata_c rtype rdlength c5 in
    done (if cpos c6 =? rdata_start + rdlength then
            Ok ({| rr_name := n; rr_type := rtype; rr_class := rclass; rr_ttl := ttl; rr_data := d |}, c6)
          else Err (E id ResourceRecordInvalid)).

  Fixpoint decode_many_c {A} (f : cur -> resc werr (A * cur)) (count : nat) (c : cur)
    : resc werr (list A * cur) :=
    match count with
    | O => done (Ok ([], c))
    | S k => letc (x, c1) := f c in
             letc (xs, c2) := decode_many_c f k c1 in
             done (Ok (x :: xs, c2))
    end.

  (* ---- the result component is the model ---- *)
  Lemma dname_at_c_fst c : fst (dname_at_c c) = dname_at bs id c.
  Proof. unfold dname_at_c, dname_at. cbn [fst]. rewrite decode_name_c_fst. reflexivity. Qed.

  Lemma decode_u16s_c_fst : forall k c, fst (decode_u16s_c k c) = decode_u16s id k c.
  Proof.
    induction k as [|k IH]; intro c; cbn [decode_u16s_c decode_u16s]; [reflexivity|].
    rewrite fst_bindc. apply bind_cong; [reflexivity|]. intros [v c1]. cbv beta iota.
    rewrite fst_bindc. apply bind_cong; [apply IH|]. intros [? ?]. reflexivity.
  Qed.

  Ltac proj_step :=
    rewrite fst_bindc; apply bind_cong;
    [ first [ apply dname_at_c_fst | apply decode_u16s_c_fst
            | unfold u16_or_c, u32_or_c, tick; cbn [fst]; reflexivity ]
    | intros [? ?]; cbv beta iota ].

  Lemma decode_question_c_fst c : fst (decode_question_c c) = decode_question bs id c.
  Proof. unfold decode_question_c, decode_question. repeat proj_step. reflexivity. Qed.

  Lemma decode_rdata_c_fst ty len c : fst (decode_rdata_c ty len c) = decode_rdata bs id ty len c.
  Proof.
    unfold decode_rdata_c, decode_rdata. destruct (shape_of_type ty); repeat proj_step; reflexivity.
  Qed.

  Lemma decode_rr_c_fst c : fst (decode_rr_c c) = decode_rr bs id c.
  Proof.
    unfold decode_rr_c, decode_rr. do 5 proj_step.
    rewrite fst_bindc. apply bind_cong; [apply decode_rdata_c_fst|]. intros [? ?]. reflexivity.
  Qed.

  Lemma decode_many_c_fst {A} (fc : cur -> resc werr (A * cur)) f :
    (forall c, fst (fc c) = f c) ->
    forall k c, fst (decode_many_c fc k c) = decode_many f k c.
  Proof.
    intro Hf. induction k as [|k IH]; intro c; cbn [decode_many_c decode_many]; [reflexivity|].
    rewrite fst_bindc. apply bind_cong; [apply Hf|]. intros [x c1]. cbv beta iota.
    rewrite fst_bindc. apply bind_cong; [apply IH|]. intros [? ?]. reflexivity.
  Qed.

  (* ---- cost of one question / record ---- *)
  Lemma dname_at_c_cost c : snd (dname_at_c c) <= NAME_STEPS.
  Proof. unfold dname_at_c. cbv zeta. rewrite snd_pair. apply decode_name_c_steps. Qed.

  Lemma tick_cost {X A} (r : res X A) : snd (tick r) <= 1.
  Proof. cbn [tick snd]. lia. Qed.
  Lemma done_cost {X A} (r : res X A) : snd (done r) <= 0.
  Proof. cbn [done snd]. lia. Qed.

  Ltac cost_step :=
    apply snd_bindc_le;
    [ first [ apply dname_at_c_cost | apply tick_cost ] | intros [? ?] _ ].

  Lemma decode_question_c_cost c : snd (decode_question_c c) <= NAME_STEPS + 2.
  Proof.
    apply N.le_trans with (m := NAME_STEPS + (1 + (1 + 0))); [|lia].
    unfold decode_question_c, u16_or_c. repeat cost_step. apply done_cost.
  Qed.

  Lemma decode_u16s_c_cost : forall k c, snd (decode_u16s_c k c) <= N.of_nat k.
  Proof.
    induction k as [|k IH]; intro c; cbn [decode_u16s_c]; [cbn [done snd]; lia|].
    apply N.le_trans with (m := 1 + (N.of_nat k + 0)); [|lia].
    unfold u16_or_c. cost_step. apply snd_bindc_le; [apply IH|]. intros [? ?] _. apply done_cost.
  Qed.

  Lemma decode_rdata_c_cost ty len c : snd (decode_rdata_c ty len c) <= 2 * NAME_STEPS + 8.
  Proof.
    unfold decode_rdata_c, u16_or_c, u32_or_c. destruct (shape_of_type ty).
    - apply N.le_trans with (m := 1 + 0); [|lia]. repeat cost_step. apply done_cost.
    - apply N.le_trans with (m := NAME_STEPS + 0); [|lia]. repeat cost_step. apply done_cost.
    - apply N.le_trans with (m := NAME_STEPS + (NAME_STEPS + (1 + (1 + (1 + (1 + (1 + 0)))))));
        [|lia]. repeat cost_step. apply done_cost.
    - eapply N.le_trans; [apply tick_cost|lia].
    - apply N.le_trans with (m := NAME_STEPS + (NAME_STEPS + 0)); [|lia]. repeat cost_step. apply done_cost.
    - apply N.le_trans with (m := 1 + (NAME_STEPS + 0)); [|lia]. repeat cost_step. apply done_cost.
    - apply N.le_trans with (m := 8 + 0); [|lia].
      apply snd_bindc_le; [apply (decode_u16s_c_cost 8)|]. intros [? ?] _. apply done_cost.
    - apply N.le_trans with (m := 1 + (1 + (1 + (NAME_STEPS + 0)))); [|lia]. repeat cost_step. apply done_cost.
  Qed.

  Definition RR_STEPS : N := 3 * NAME_STEPS + 12.

  Lemma decode_rr_c_cost c : snd (decode_rr_c c) <= RR_STEPS.
  Proof.
    apply N.le_trans with (m := NAME_STEPS + (1 + (1 + (1 + (1 + ((2 * NAME_STEPS + 8) + 0))))));
      [|unfold RR_STEPS; lia].
    unfold decode_rr_c, u16_or_c, u32_or_c. do 5 cost_step. cbv zeta.
    apply snd_bindc_le; [apply decode_rdata_c_cost|]. intros [? ?] _. apply done_cost.
  Qed.

  (* ---- the count loops: every successful call advances the cursor, so the
          number of calls is bounded by the octets that remain, not by the count ---- *)
  Section ManyC.
    Context {A : Type}.
    Variable fc : cur -> resc werr (A * cur).
    Variable F : N.
    Hypothesis Hcost : forall c, snd (fc c) <= F.
    Hypothesis Hadv : forall p x c', fst (fc (at_offset bs p)) = Ok (x, c') ->
      exists q, c' = at_offset bs q /\ p + 1 <= q /\ q <= llen bs.

    (* [n] = number of calls of [fc] *)
    Lemma decode_many_c_cost : forall k p, p <= llen bs ->
      exists n, snd (decode_many_c fc k (at_offset bs p)) <= F * n
                /\ n + p <= llen bs + 1
                /\ (forall xs c', fst (decode_many_c fc k (at_offset bs p)) = Ok (xs, c') ->
                      exists q, c' = at_offset bs q /\ n + p <= q /\ q <= llen bs).
    Proof.
      induction k as [|k IH]; intros p Hp; cbn [decode_many_c].
      - exists 0. cbn [done fst snd]. split; [lia|]. split; [lia|].
        intros xs c' [= <- <-]. exists p. split; [reflexivity|lia].
      - pose proof (Hcost (at_offset bs p)) as Hc. rewrite snd_bindc_eq, fst_bindc.
        destruct (fst (fc (at_offset bs p))) as [[x c1]| | |] eqn:Ef; cbn [bind].
        + apply Hadv in Ef as (q1 & -> & Hq1 & Hq1').
          destruct (IH q1 Hq1') as (n & Hn & Hn2 & Hok).
          exists (1 + n). rewrite snd_bindc_eq, fst_bindc.
          destruct (fst (decode_many_c fc k (at_offset bs q1))) as [[xs c2]| | |] eqn:Em;
            cbn [bind done fst snd]; rewrite N.mul_add_distr_l, N.mul_1_r.
          * split; [lia|]. split; [lia|]. intros xs' c' [= <- <-].
            destruct (Hok xs c2 eq_refl) as (q & -> & Hq & Hq'). exists q. split; [reflexivity|lia].
          * split; [lia|]. split; [lia|]. discriminate.
          * split; [lia|]. split; [lia|]. discriminate.
          * split; [lia|]. split; [lia|]. discriminate.
        + exists 1. rewrite N.mul_1_r. split; [lia|]. split; [lia|discriminate].
        + exists 1. rewrite N.mul_1_r. split; [lia|]. split; [lia|discriminate].
        + exists 1. rewrite N.mul_1_r. split; [lia|]. split; [lia|discriminate].
    Qed.
  End ManyC.
End WithBufferC.

(* ------------------------------------------------------------------ *)
(* 4. the message decoder                                              *)
(* ------------------------------------------------------------------ *)

(* Header::deserialise reads a u16 and two u8 *)
Definition header_steps (c : cur) : N :=
  match next_u16 c with
  | None => 1
  | Some (_, c1) => match next_u8 c1 with None => 2 | Some _ => 3 end
  end.

Definition decode_c (bs : list byte) : resc werr message :=
  letc (h, c0) := (decode_header (cur_new bs), header_steps (cur_new bs)) in
  let id := h_id h in
  let hts := (HeaderTooShort, Some id) in
  letc (qd, c1) := tick (of_opt (next_u16 c0) hts) in
  letc (an, c2) := tick (of_opt (next_u16 c1) hts) in
  letc (ns, c3) := tick (of_opt (next_u16 c2) hts) in
  letc (ar, c4) := tick (of_opt (next_u16 c3) hts) in
  letc (qs, c5) := decode_many_c (decode_question_c bs id) (N.to_nat qd) c4 in
  letc (ans, c6) := decode_many_c (decode_rr_c bs id) (N.to_nat an) c5 in
  letc (auth, c7) := decode_many_c (decode_rr_c bs id) (N.to_nat ns) c6 in
  letc (addl, _) := decode_many_c (decode_rr_c bs id) (N.to_nat ar) c7 in
  done (Ok {| m_header := h; m_questions := qs; m_answers := ans; m_authority := auth; m_additional := addl |}).

(* the counter does not change what is decoded *)
Theorem decode_c_result bs : fst (decode_c bs) = decode bs.
Proof.
  unfold decode_c, decode.
  rewrite fst_bindc. apply bind_cong; [reflexivity|]. intros [h c0]. cbv beta iota zeta.
  do 4 (rewrite fst_bindc; apply bind_cong; [reflexivity|]; intros [? ?]; cbv beta iota).
  rewrite fst_bindc. apply bind_cong;
    [apply decode_many_c_fst; intro; apply decode_question_c_fst|]. intros [? ?]. cbv beta iota.
  do 3 (rewrite fst_bindc; apply bind_cong;
        [apply decode_many_c_fst; intro; apply decode_rr_c_fst|]; intros [? ?]; cbv beta iota).
  reflexivity.
Qed.

Lemma NameAt_advance bs start pos ls next : NameAt bs start pos ls next -> pos < next.
Proof. induction 1; lia. Qed.

Lemma question_advance bs id (Hbs : bytes_ok bs) p x c' :
  fst (decode_question_c bs id (at_offset bs p)) = Ok (x, c') ->
  exists q, c' = at_offset bs q /\ p + 1 <= q /\ q <= llen bs.
Proof.
  rewrite decode_question_c_fst. intro H.
  apply decode_question_sound in H as (q & (p1 & (Hn & _) & _ & _ & ->) & -> & Hq); [|exact Hbs].
  apply NameAt_advance in Hn. exists (p1 + 4). split; [reflexivity|lia].
Qed.

Lemma rr_advance bs id (Hbs : bytes_ok bs) p x c' :
  fst (decode_rr_c bs id (at_offset bs p)) = Ok (x, c') ->
  exists q, c' = at_offset bs q /\ p + 1 <= q /\ q <= llen bs.
Proof.
  rewrite decode_rr_c_fst. intro H.
  apply decode_rr_sound in H as (q & (p1 & len & (Hn & _) & _ & _ & _ & _ & _ & ->) & -> & Hq); [|exact Hbs].
  apply NameAt_advance in Hn. exists (p1 + 10 + len). split; [reflexivity|lia].
Qed.

Lemma header_steps_le c : header_steps c <= 3.
Proof.
  unfold header_steps. destruct (next_u16 c) as [[? c1]|]; [|lia]. destruct (next_u8 c1); lia.
Qed.

(* DESIGN C03 T.2 with the explicit constant c = 769 *)
Theorem decode_steps bs : bytes_ok bs ->
  snd (decode_c bs) <= 769 * (llen bs + 1) * 16384.
Proof.
  intro Hbs. unfold decode_c.
  change (cur_new bs) with (at_offset bs 0).
  pose proof (header_steps_le (at_offset bs 0)) as Hh.
  rewrite snd_bindc_eq. rewrite fst_pair, snd_pair.
  destruct (decode_header (at_offset bs 0)) as [[h c0]| | |] eqn:Eh; [|lia..].
  apply decode_header_sound in Eh as (_ & -> & H4); [|exact Hbs]. cbv beta iota zeta.
  (* the four counts *)
  rewrite snd_bindc_eq. cbn [tick fst snd]. rewrite next_u16_at.
  destruct (at_ bs 4) as [a4|]; [|cbn [of_opt]; lia]. destruct (at_ bs (4 + 1)) as [a5|]; [|cbn [of_opt]; lia].
  cbn [of_opt]. rewrite snd_bindc_eq. cbn [tick fst snd]. rewrite next_u16_at.
  destruct (at_ bs (4 + 2)) as [a6|]; [|cbn [of_opt]; lia].
  destruct (at_ bs (4 + 2 + 1)) as [a7|]; [|cbn [of_opt]; lia].
  cbn [of_opt]. rewrite snd_bindc_eq. cbn [tick fst snd]. rewrite next_u16_at.
  destruct (at_ bs (4 + 2 + 2)) as [a8|]; [|cbn [of_opt]; lia].
  destruct (at_ bs (4 + 2 + 2 + 1)) as [a9|]; [|cbn [of_opt]; lia].
  cbn [of_opt]. rewrite snd_bindc_eq. cbn [tick fst snd]. rewrite next_u16_at.
  destruct (at_ bs (4 + 2 + 2 + 2)) as [a10|]; [|cbn [of_opt]; lia].
  destruct (at_ bs (4 + 2 + 2 + 2 + 1)) as [a11|] eqn:E11; [|cbn [of_opt]; lia].
  cbn [of_opt]. apply at_lt in E11.
  assert (H12 : 4 + 2 + 2 + 2 + 2 <= llen bs) by lia.
  (* the four loops *)
  set (id := h_id h).
  pose proof (decode_many_c_cost bs (decode_question_c bs id) (NAME_STEPS + 2)
                (decode_question_c_cost bs id) (question_advance bs id Hbs)) as HQ.
  pose proof (decode_many_c_cost bs (decode_rr_c bs id) RR_STEPS
                (decode_rr_c_cost bs id) (rr_advance bs id Hbs)) as HR.
  rewrite snd_bindc_eq.
  destruct (HQ (N.to_nat (u16_be a4 a5)) _ H12) as (n1 & C1 & B1 & K1).
  destruct (fst (decode_many_c (decode_question_c bs id) (N.to_nat (u16_be a4 a5))
                   (at_offset bs (4 + 2 + 2 + 2 + 2)))) as [[qs c5]| | |];
    [|unfold RR_STEPS, NAME_STEPS in *; lia..].
  destruct (K1 qs c5 eq_refl) as (p1 & -> & P1 & P1').
  rewrite snd_bindc_eq.
  destruct (HR (N.to_nat (u16_be a6 a7)) _ P1') as (n2 & C2 & B2 & K2).
  destruct (fst (decode_many_c (decode_rr_c bs id) (N.to_nat (u16_be a6 a7)) (at_offset bs p1)))
    as [[ans c6]| | |]; [|unfold RR_STEPS, NAME_STEPS in *; lia..].
  destruct (K2 ans c6 eq_refl) as (p2 & -> & P2 & P2').
  rewrite snd_bindc_eq.
  destruct (HR (N.to_nat (u16_be a8 a9)) _ P2') as (n3 & C3 & B3 & K3).
  destruct (fst (decode_many_c (decode_rr_c bs id) (N.to_nat (u16_be a8 a9)) (at_offset bs p2)))
    as [[auth c7]| | |]; [|unfold RR_STEPS, NAME_STEPS in *; lia..].
  destruct (K3 auth c7 eq_refl) as (p3 & -> & P3 & P3').
  rewrite snd_bindc_eq.
  destruct (HR (N.to_nat (u16_be a10 a11)) _ P3') as (n4 & C4 & B4 & K4).
  destruct (fst (decode_many_c (decode_rr_c bs id) (N.to_nat (u16_be a10 a11)) (at_offset bs p3)))
    as [[addl c8]| | |]; cbn [done snd]; unfold RR_STEPS, NAME_STEPS in *; lia.
Qed.

(* the same in words of the counts: at most |bs| - 11 decoder calls are made by
   the four loops together, whatever QDCOUNT..ARCOUNT say, and a message that
   decodes has room for every entry it lists *)
Theorem decode_ok_sizes bs m : bytes_ok bs -> decode bs = Ok m ->
  12 + 5 * llen (m_questions m)
     + 11 * (llen (m_answers m) + llen (m_authority m) + llen (m_additional m)) <= llen bs.
Proof.
  intros Hbs H. rewrite decode_eq in H.
  inv_bind H. apply decode_header_sound in Eq as (Hh & -> & H4); [|exact Hbs].
  cbv zeta in H.
  inv_bind H. apply u16_or_sound in Eq as (Hqd & -> & _).
  inv_bind H. apply u16_or_sound in Eq as (Han & -> & _).
  inv_bind H. apply u16_or_sound in Eq as (Hns & -> & _).
  inv_bind H. apply u16_or_sound in Eq as (Har & -> & H12).
  assert (SQ : forall xs p q, SeqAt (QuestionAt bs) p xs q -> p + 5 * llen xs <= q).
  { induction xs as [|x xs IH]; intros p q Hs; cbn [SeqAt] in Hs.
    - subst q. unfold llen. cbn [length]. lia.
    - destruct Hs as (mid & (p1 & (Hn & _) & _ & _ & ->) & Hrest). apply IH in Hrest.
      apply NameAt_advance in Hn. rewrite wd_llen_cons. lia. }
  assert (SR : forall xs p q, SeqAt (RRAt bs) p xs q -> p + 11 * llen xs <= q).
  { induction xs as [|x xs IH]; intros p q Hs; cbn [SeqAt] in Hs.
    - subst q. unfold llen. cbn [length]. lia.
    - destruct Hs as (mid & (p1 & len & (Hn & _) & _ & _ & _ & _ & _ & ->) & Hrest). apply IH in Hrest.
      apply NameAt_advance in Hn. rewrite wd_llen_cons. lia. }
  inv_bind H.
  apply (decode_many_sound bs _ (QuestionAt bs) (decode_question_sound bs Hbs _)) in Eq
    as (p1 & S1 & L1 & -> & Hp1); [|exact H12].
  inv_bind H.
  apply (decode_many_sound bs _ (RRAt bs) (decode_rr_sound bs Hbs _)) in Eq
    as (p2 & S2 & L2 & -> & Hp2); [|exact Hp1].
  inv_bind H.
  apply (decode_many_sound bs _ (RRAt bs) (decode_rr_sound bs Hbs _)) in Eq
    as (p3 & S3 & L3 & -> & Hp3); [|exact Hp2].
  inv_bind H.
  apply (decode_many_sound bs _ (RRAt bs) (decode_rr_sound bs Hbs _)) in Eq
    as (p4 & S4 & L4 & -> & Hp4); [|exact Hp3].
  injection H as <-. cbn [m_questions m_answers m_authority m_additional].
  apply SQ in S1. apply SR in S2, S3, S4. lia.
Qed.
