(* Wire/WireGrammar.v -- RFC 1035 section 4.1 as a relation between byte strings and
   messages: the "independent decoder" of C03/C04.  No fuel, no cursor, no
   error handling: [Parses bs m] says that [bs] is a well-formed encoding of [m]
   (trailing octets permitted, as the implementation permits them).
   Bit positions are written as in the RFC, not taken from the code's masks. *)
From RV Require Import Base.Prelude Name.NameModel Name.NameSpec Wire.WireTypes.

Definition at_ (bs : list byte) (i : N) : option byte := nthN bs i.

Definition u16At (bs : list byte) (i v : N) : Prop :=
  exists a b, at_ bs i = Some a /\ at_ bs (i + 1) = Some b /\ v = a * 256 + b.
Definition u32At (bs : list byte) (i v : N) : Prop :=
  exists a b c d, at_ bs i = Some a /\ at_ bs (i + 1) = Some b /\ at_ bs (i + 2) = Some c
                  /\ at_ bs (i + 3) = Some d /\ v = ((a * 256 + b) * 256 + c) * 256 + d.
Definition octetsAt (bs : list byte) (i n : N) (os : list byte) : Prop :=
  sliceN bs i n = Some os.

(* NameAt bs start pos ls next: reading a name whose first octet is at [start],
   currently at [pos], yields labels [ls] and leaves the cursor at [next].
   RFC 1035 4.1.4: a sequence of labels ending in a zero octet, or in a pointer
   to a PRIOR occurrence (strictly before the first octet of this name). *)
Inductive NameAt (bs : list byte) : N -> N -> list label -> N -> Prop :=
| NA_root start pos :
    at_ bs pos = Some 0 -> NameAt bs start pos [[]] (pos + 1)
| NA_label start pos sz os ls next :
    at_ bs pos = Some sz -> 1 <= sz <= 63 -> octetsAt bs (pos + 1) sz os ->
    NameAt bs start (pos + 1 + sz) ls next ->
    NameAt bs start pos (map lower os :: ls) next
| NA_ptr start pos hi lo ls next' :
    at_ bs pos = Some hi -> 192 <= hi -> at_ bs (pos + 1) = Some lo ->
    (hi - 192) * 256 + lo < start ->
    NameAt bs ((hi - 192) * 256 + lo) ((hi - 192) * 256 + lo) ls next' ->
    NameAt bs start pos ls (pos + 2).

Definition NameIs (bs : list byte) (pos : N) (n : dname) (next : N) : Prop :=
  NameAt bs pos pos (labels n) next /\ nlen n = sum_lens (labels n) /\ nlen n <= 255.

Fixpoint u16sAt (bs : list byte) (i : N) (vs : list N) : Prop :=
  match vs with
  | [] => True
  | v :: t => u16At bs i v /\ u16sAt bs (i + 2) t
  end.

(* RDATA of a record of type [ty] with RDLENGTH [len] starting at [pos] *)
Inductive RDataAt (bs : list byte) (ty len pos : N) : rdata -> N -> Prop :=
| RDA_A a : shape_of_type ty = ShA -> u32At bs pos a -> RDataAt bs ty len pos (RD_A a) (pos + 4)
| RDA_Name n next : shape_of_type ty = ShName -> NameIs bs pos n next ->
    RDataAt bs ty len pos (RD_Name n) next
| RDA_SOA m r serial refresh retry expire minimum p1 p2 :
    shape_of_type ty = ShSOA -> NameIs bs pos m p1 -> NameIs bs p1 r p2 ->
    u32At bs p2 serial -> u32At bs (p2 + 4) refresh -> u32At bs (p2 + 8) retry ->
    u32At bs (p2 + 12) expire -> u32At bs (p2 + 16) minimum ->
    RDataAt bs ty len pos (RD_SOA m r serial refresh retry expire minimum) (p2 + 20)
| RDA_Octets os : shape_of_type ty = ShOctets -> octetsAt bs pos len os ->
    RDataAt bs ty len pos (RD_Octets os) (pos + len)
| RDA_MINFO r e p1 p2 : shape_of_type ty = ShMINFO -> NameIs bs pos r p1 -> NameIs bs p1 e p2 ->
    RDataAt bs ty len pos (RD_MINFO r e) p2
| RDA_MX p e next : shape_of_type ty = ShMX -> u16At bs pos p -> NameIs bs (pos + 2) e next ->
    RDataAt bs ty len pos (RD_MX p e) next
| RDA_AAAA segs : shape_of_type ty = ShAAAA -> length segs = 8%nat -> u16sAt bs pos segs ->
    RDataAt bs ty len pos (RD_AAAA segs) (pos + 16)
| RDA_SRV p w o t next : shape_of_type ty = ShSRV ->
    u16At bs pos p -> u16At bs (pos + 2) w -> u16At bs (pos + 4) o -> NameIs bs (pos + 6) t next ->
    RDataAt bs ty len pos (RD_SRV p w o t) next.

(* a resource record at [pos]; RDLENGTH equals the RDATA actually consumed *)
Definition RRAt (bs : list byte) (pos : N) (r : rr) (next : N) : Prop :=
  exists p1 len,
    NameIs bs pos (rr_name r) p1 /\ u16At bs p1 (rr_type r) /\ u16At bs (p1 + 2) (rr_class r)
    /\ u32At bs (p1 + 4) (rr_ttl r) /\ u16At bs (p1 + 8) len
    /\ RDataAt bs (rr_type r) len (p1 + 10) (rr_data r) next /\ next = p1 + 10 + len.

Definition QuestionAt (bs : list byte) (pos : N) (q : question) (next : N) : Prop :=
  exists p1, NameIs bs pos (q_name q) p1 /\ u16At bs p1 (q_type q) /\ u16At bs (p1 + 2) (q_class q)
             /\ next = p1 + 4.

Fixpoint SeqAt {A} (P : N -> A -> N -> Prop) (pos : N) (xs : list A) (next : N) : Prop :=
  match xs with
  | [] => next = pos
  | x :: t => exists mid, P pos x mid /\ SeqAt P mid t next
  end.

(* header octets 2 and 3, RFC 1035 4.1.1 *)
Definition HeaderIs (bs : list byte) (h : header) : Prop :=
  exists f1 f2, u16At bs 0 (h_id h) /\ at_ bs 2 = Some f1 /\ at_ bs 3 = Some f2
    /\ h_qr h = N.testbit f1 7 /\ h_opcode h = (f1 / 8) mod 16 /\ h_aa h = N.testbit f1 2
    /\ h_tc h = N.testbit f1 1 /\ h_rd h = N.testbit f1 0
    /\ h_ra h = N.testbit f2 7 /\ h_rcode h = f2 mod 16.

Definition Parses (bs : list byte) (m : message) : Prop :=
  HeaderIs bs (m_header m)
  /\ u16At bs 4 (llen (m_questions m)) /\ u16At bs 6 (llen (m_answers m))
  /\ u16At bs 8 (llen (m_authority m)) /\ u16At bs 10 (llen (m_additional m))
  /\ exists p1 p2 p3 p4,
       SeqAt (QuestionAt bs) 12 (m_questions m) p1 /\ SeqAt (RRAt bs) p1 (m_answers m) p2
       /\ SeqAt (RRAt bs) p2 (m_authority m) p3 /\ SeqAt (RRAt bs) p3 (m_additional m) p4.

(* well-formed message values: what the public constructors build and the
   encoder can represent *)
Definition wf_rdata (ty : N) (d : rdata) : Prop :=
  shape_of_rdata d = shape_of_type ty /\
  match d with
  | RD_A a => u32 a
  | RD_Name n => wf_name n
  | RD_SOA m r a b c d e => wf_name m /\ wf_name r /\ u32 a /\ u32 b /\ u32 c /\ u32 d /\ u32 e
  | RD_Octets os => Forall (fun x => x < 256) os
  | RD_MINFO r e => wf_name r /\ wf_name e
  | RD_MX p e => u16 p /\ wf_name e
  | RD_AAAA segs => length segs = 8%nat /\ Forall u16 segs
  | RD_SRV p w o t => u16 p /\ u16 w /\ u16 o /\ wf_name t
  end.
Definition wf_rr (r : rr) : Prop :=
  wf_name (rr_name r) /\ u16 (rr_type r) /\ u16 (rr_class r) /\ u32 (rr_ttl r) /\ wf_rdata (rr_type r) (rr_data r).
Definition wf_question (q : question) : Prop := wf_name (q_name q) /\ u16 (q_type q) /\ u16 (q_class q).
Definition wf_header (h : header) : Prop := u16 (h_id h) /\ h_opcode h < 16 /\ h_rcode h < 16.
Definition wf_message (m : message) : Prop :=
  wf_header (m_header m) /\ Forall wf_question (m_questions m) /\ Forall wf_rr (m_answers m)
  /\ Forall wf_rr (m_authority m) /\ Forall wf_rr (m_additional m).
