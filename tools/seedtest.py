#!/usr/bin/env python3
"""tools/seedtest.py <property-id> <patch.diff> <demo.rs> [--checks C01,C02] [--tier quick]

Confirms a seeded breaking change and runs the checks against it WITHOUT touching
/repo or /verif: a scratch worktree of /repo's HEAD and a copy of /verif are made
under /tmp/mut-<pid>, and the check runs in a private mount namespace in which
they are bind-mounted over /repo and /verif (so every path the checks use is the
usual one).  Steps:
  (a) existing test suite with the change   -> must pass
  (b) demonstration with the change         -> must fail
  (c) demonstration without the change      -> must pass
  (d) ./check <id> against the changed tree -> exit code, VIOLATION line, replay
Writes <patch>.meta.json next to the patch.  The scratch trees are removed.
"""
import json
import os
import re
import shutil
import subprocess
import sys
import time


def sh(cmd, cwd=None, env=None, timeout=3600):
    e = dict(os.environ)
    e["CARGO_NET_OFFLINE"] = "true"
    if env:
        e.update(env)
    p = subprocess.run(cmd, cwd=cwd, env=e, timeout=timeout, stdout=subprocess.PIPE,
                       stderr=subprocess.STDOUT, text=True, shell=isinstance(cmd, str))
    return p.returncode, p.stdout


def main():
    import argparse
    ap = argparse.ArgumentParser()
    ap.add_argument("pid")
    ap.add_argument("patch")
    ap.add_argument("demo")
    ap.add_argument("--checks", default=None)
    ap.add_argument("--tier", default="quick")
    ap.add_argument("--demo-crate", default=None, help="crate dir for the demo test (default: from the demo's header or dns-types)")
    ap.add_argument("--skip-abc", action="store_true")
    args = ap.parse_args()
    patch = os.path.abspath(args.patch)
    demo = os.path.abspath(args.demo)
    checks = (args.checks or args.pid).split(",")
    mut = "/tmp/mut-%d" % os.getpid()
    repo = os.path.join(mut, "repo")
    verif = os.path.join(mut, "verif")
    os.makedirs(mut, exist_ok=True)
    meta = {"property": args.pid, "patch": os.path.basename(patch), "demo": os.path.basename(demo),
            "checked_at": time.strftime("%Y-%m-%d %H:%M:%S"), "checks": {}, "history": []}
    if os.path.exists(patch + ".meta.json"):
        with open(patch + ".meta.json") as f:
            old = json.load(f)
        for k in ("a_suite_with_change", "b_demo_with_change", "c_demo_without_change", "applies"):
            if k in old:
                meta[k] = old[k]
        meta["history"] = old.get("history", []) + [
            {"checked_at": old.get("checked_at"),
             "checks": {c: {"rc": e["rc"], "violation_lines": e["violation_lines"]} for c, e in old.get("checks", {}).items()}}]
    try:
        rc, out = sh(["git", "-C", "/repo", "worktree", "add", "--detach", repo, "HEAD"])
        if rc != 0:
            print(out)
            return 2
        meta["repo_head"] = sh(["git", "-C", "/repo", "rev-parse", "--short", "HEAD"])[1].strip()
        # where does the demo go?
        with open(demo) as f:
            dsrc = f.read()
        m = re.search(r"crates/([\w-]+)/tests/", dsrc)
        crate = args.demo_crate or (m.group(1) if m else "dns-types")
        dname = os.path.splitext(os.path.basename(demo))[0]
        tdir = os.path.join(repo, "crates", crate, "tests")
        tgt = os.path.join(mut, "target")
        env = {"CARGO_TARGET_DIR": tgt}
        if not args.skip_abc:
            # (a) existing suite with the change
            rc, out = sh(["git", "apply", patch], cwd=repo)
            if rc != 0:
                print("patch does not apply:\n" + out)
                meta["applies"] = False
                return 2
            meta["applies"] = True
            rc, out = sh(["cargo", "test", "--workspace", "--no-fail-fast", "--offline"], cwd=repo, env=env)
            passed = sum(int(x) for x in re.findall(r"test result: ok\. (\d+) passed", out))
            failed = sum(int(x) for x in re.findall(r"(\d+) failed", out))
            meta["a_suite_with_change"] = {"rc": rc, "passed": passed, "failed": failed}
            # (b) demo with the change
            os.makedirs(tdir, exist_ok=True)
            shutil.copy(demo, os.path.join(tdir, dname + ".rs"))
            rc, out = sh(["cargo", "test", "--offline", "-p", crate, "--test", dname], cwd=repo, env=env)
            meta["b_demo_with_change"] = {"rc": rc, "tail": out[-600:]}
            # (c) demo without the change
            sh(["git", "apply", "-R", patch], cwd=repo)
            rc, out = sh(["cargo", "test", "--offline", "-p", crate, "--test", dname], cwd=repo, env=env)
            meta["c_demo_without_change"] = {"rc": rc, "tail": out[-300:]}
            os.remove(os.path.join(tdir, dname + ".rs"))
            shutil.rmtree(tgt, ignore_errors=True)
        # (d) the checks, against the changed tree
        rc, out = sh(["git", "apply", patch], cwd=repo)
        if rc != 0:
            print("patch does not apply:\n" + out)
            return 2
        sh(["rsync", "-a", "--exclude", "build/target", "--exclude", "build/target-release", "--exclude", "build/run",
            "--exclude", ".git", "/verif/", verif + "/"])
        for c in checks:
            t0 = time.time()
            cmd = ("unshare -m sh -c 'mount --bind %s /repo && mount --bind %s /verif && cd /verif && "
                   "./check %s --tier %s'" % (repo, verif, c, args.tier))
            rc, out = sh(cmd, timeout=7200)
            vio = [l for l in out.splitlines() if l.startswith("VIOLATION")]
            known = [l for l in out.splitlines() if l.startswith("KNOWN-FINDING")]
            entry = {"rc": rc, "violation_lines": vio, "known_lines": len(known), "wall_s": round(time.time() - t0, 1),
                     "log_tail": out[-1500:]}
            for v in vio:
                m = re.search(r"replay=(\S+)", v)
                if m:
                    rp = m.group(1).replace("/verif/", verif + "/")
                    try:
                        with open(rp) as f:
                            r = json.load(f)
                        entry["first_failure"] = (r.get("failures") or [None])[0]
                        entry["broken"] = r.get("broken")
                        entry["n_failures"] = len(r.get("failures") or [])
                    except OSError:
                        pass
            meta["checks"][c] = entry
            print("%s against %s: rc=%d %s" % (c, os.path.basename(patch), rc, vio[:1]))
        with open(patch + ".meta.json", "w") as f:
            json.dump(meta, f, indent=1)
        ok_abc = ("a_suite_with_change" in meta) and (meta["a_suite_with_change"]["rc"] == 0 and meta["b_demo_with_change"]["rc"] != 0
                                   and meta["c_demo_without_change"]["rc"] == 0)
        print("confirmed (a)(b)(c):", ok_abc)
        return 0
    finally:
        sh(["git", "-C", "/repo", "worktree", "remove", "--force", repo])
        shutil.rmtree(mut, ignore_errors=True)
        sh(["git", "-C", "/repo", "worktree", "prune"])


if __name__ == "__main__":
    sys.exit(main())
