#!/usr/bin/env python3
"""tools/seedmeta.py <property-id>: consolidates seeded/<id>/patch*.diff.meta.json (written by seedtest.py) and
the seeding agent's notes.md into seeded/<id>/meta.json."""
import glob
import json
import os
import re
import sys

pid = sys.argv[1]
d = os.path.join(os.path.dirname(os.path.dirname(os.path.abspath(__file__))), "seeded", pid)
notes = open(os.path.join(d, "notes.md")).read() if os.path.exists(os.path.join(d, "notes.md")) else ""
out = {"property": pid, "changes": []}
for mf in sorted(glob.glob(os.path.join(d, "patch*.diff.meta.json"))):
    m = json.load(open(mf))
    i = re.search(r"patch(\d+)", mf).group(1)
    det = {}
    for c, e in m.get("checks", {}).items():
        ff = e.get("first_failure") or {}
        det[c] = {"detected": e["rc"] != 0, "violation_line": (e["violation_lines"] or [None])[0],
                  "first_failing_input": ff.get("case"), "what": ff.get("what"),
                  "broken": [b.get("what") for b in (e.get("broken") or [])][:2], "wall_s": e.get("wall_s")}
    out["changes"].append({
        "patch": m["patch"], "demo": m["demo"], "breaks": pid,
        "confirmed": {
            "existing_suite_passes_with_change": (m.get("a_suite_with_change") or {}).get("rc") == 0,
            "suite_counts": m.get("a_suite_with_change"),
            "demo_fails_with_change": (m.get("b_demo_with_change") or {}).get("rc", 0) != 0,
            "demo_passes_without_change": (m.get("c_demo_without_change") or {}).get("rc") == 0,
        },
        "ran": "tools/seedtest.py %s seeded/%s/%s seeded/%s/%s (scratch worktree of /repo HEAD %s + copy of /verif, bind-mounted in a private mount namespace; (a) cargo test --workspace, (b)/(c) cargo test --test demo, (d) ./check)" % (pid, pid, m["patch"], pid, m["demo"], m.get("repo_head")),
        "detection": det,
        "earlier_runs": m.get("history", []),
        "needs_to_manifest": "see notes.md, change %s" % i,
    })
out["notes_md"] = "notes.md (written by the seeding agent: what each change is and what it needs to manifest)"
json.dump(out, open(os.path.join(d, "meta.json"), "w"), indent=1)
for c in out["changes"]:
    print(c["patch"], c["confirmed"], {k: v["detected"] for k, v in c["detection"].items()})
