#!/usr/bin/env python3
"""Prints the prompt given to a fresh sub-agent that seeds breaking changes for one property
(only the property text and a scratch worktree; nothing from /verif)."""
import json
import sys

pid = sys.argv[1]
n = int(sys.argv[2]) if len(sys.argv) > 2 else 3
tag = sys.argv[3] if len(sys.argv) > 3 else ""
extra = (" " + sys.argv[4]) if len(sys.argv) > 4 else ""
for line in open("/verif/properties.jsonl"):
    p = json.loads(line)
    if p["id"] == pid:
        break
print(f"""You are testing how well a (hidden) verification suite detects regressions in a Rust DNS server, barrucadu/resolved. You work ONLY in the scratch git worktree `/tmp/wt{tag}_{pid}` (a checkout of the project; build with `cd /tmp/wt{tag}_{pid} && CARGO_TARGET_DIR=/tmp/wt{tag}_{pid}/target cargo build --offline` / `cargo test --workspace --offline`; no network; the machine is busy, be patient with builds). Do not read or touch `/verif` or `/repo`. Do not run any `git worktree`/`git checkout`/`git stash`/`git commit` commands; you may use `git diff` and `git apply` inside the worktree.

The property under test:

Property {pid}: {p['title']}. {p['statement']} (Quantified over: {p['quantifier']['text']}. Code: {', '.join(p['anchors']['files'])}.)

Produce {n} independent, realistic source changes (the kind of bug a developer could plausibly introduce in a refactor, an "optimisation" or a feature tweak), each of which BREAKS this property while the project still compiles and the existing test suite (`cargo test --workspace --offline`) still passes entirely. Prefer changes that need something specific to manifest — a particular boundary value or size, an unusual input shape, a multi-step sequence of operations, a particular interleaving or fault at a particular point, or two cooperating sites that each look fine alone — NOT changes that ordinary use would expose at once. Make the changes different in kind and, where the property has several clauses or several code sites, spread them over different clauses and files.{extra}

For each change i = 1..{n} write into `/tmp/seed{tag}_{pid}/`:
 - `patch<i>.diff`: the change as a unified diff relative to the worktree's HEAD (`git diff` output; it must apply with `git apply` at the repository root);
 - `demo<i>.rs`: a demonstration — a self-contained Rust integration-test file (`#[test]` functions using only the public API of the crates; async code may use a tokio current-thread runtime if the crate already depends on tokio) that FAILS with the change applied and PASSES without it; its header comment must say where to place it, in the form `crates/<crate>/tests/demo<i>.rs`, and how to run it (`cargo test --offline -p <crate> --test demo<i>`);
 - a section in `/tmp/seed{tag}_{pid}/notes.md`: what the change is, which clause of the property it breaks, what exactly is needed for it to manifest, and the outcome of (a) the full existing test suite with the change (must pass), (b) the demo with the change (must fail), (c) the demo without the change (must pass).
Work one change at a time: apply, verify (a) and (b), save the diff, revert by `git apply -R patch<i>.diff`, verify (c), then go on. Run (a) with the demo file removed from the tree. Leave the worktree's tracked files unmodified at the end and remove the demo files from the worktree. Your final message: a short list of the changes and confirmation of (a)(b)(c) for each.""")
