#!/usr/bin/env python3
"""tools/collect_round.py <property-id> <tag> <offset>: copies a seeding agent's output /tmp/seed<tag>_<id>/{patch<i>.diff,
demo<i>.rs,notes.md} into seeded/<id>/ as patch<i+offset>.diff / demo<i+offset>.rs and appends its notes to notes.md."""
import os
import re
import shutil
import sys

pid, tag, off = sys.argv[1], sys.argv[2], int(sys.argv[3])
src = "/tmp/seed%s_%s" % (tag, pid)
dst = os.path.join(os.path.dirname(os.path.dirname(os.path.abspath(__file__))), "seeded", pid)
os.makedirs(dst, exist_ok=True)
n = 0
for i in range(1, 10):
    p, d = os.path.join(src, "patch%d.diff" % i), os.path.join(src, "demo%d.rs" % i)
    if not (os.path.exists(p) and os.path.exists(d)):
        continue
    j = i + off
    shutil.copy(p, os.path.join(dst, "patch%d.diff" % j))
    txt = open(d).read()
    txt = re.sub(r"\bdemo%d\b" % i, "demo%d" % j, txt)
    open(os.path.join(dst, "demo%d.rs" % j), "w").write(txt)
    n += 1
notes = os.path.join(src, "notes.md")
if os.path.exists(notes):
    with open(os.path.join(dst, "notes.md"), "a") as f:
        f.write("\n\n# Round %s (another independent seeding agent; its change i is patch<i+%d> here)\n\n" % (tag, off))
        f.write(open(notes).read())
print("collected %d changes for %s" % (n, pid))
