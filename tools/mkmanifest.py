#!/usr/bin/env python3
"""Regenerates MANIFEST.json from the table below (kept in one place so the file always validates)."""
import json
import os

VERIF = os.path.dirname(os.path.dirname(os.path.abspath(__file__)))
props = {}
for line in open(os.path.join(VERIF, "properties.jsonl")):
    p = json.loads(line)
    props[p["id"]] = p

BASE_NOTE = ("Trusted: Coq 8.16.1 kernel + vm_compute; the hand-written Gallina model, tied to /repo on every run by the "
             "correspondence check (extracted model vs. Rust harness on the same generated cases); extraction with ExtrOcamlBasic "
             "only; OCaml/Rust/python glue; table translator. No axioms (Print Assumptions checked each run).")

CLAIMED = {
    "C16": dict(
        text="Theorems about the Gallina model of DomainName/Label (constructors produce well-formed names, completeness of "
             "rejection, case-insensitivity, dotted round trip, subdomain = suffix, zone selection), proved for all inputs; "
             "model tied to the Rust code by a differential stream over boundary-heavy generated inputs. The stream includes wire names ending in pointers into earlier names with totals sweeping the 255-octet limit; the oracle reads dotted text independently. Case-insensitivity is also proved on the wire (C16_wire_case_insensitive): two byte strings that agree in the length octets and pointers of the name read at an offset and whose label octets are equal after ASCII case folding, through every pointer followed, decode to the same name and next offset (or the same error).",
        design="5/C16", technique="Coq proof over executable model + model/impl correspondence (extraction)"),
    "C02": dict(
        text="Theorems about the Gallina model of Zone/ZoneRecords (new, insert, insert_wildcard, resolve, zone_result_helper): "
             "for every apex, SOA or none, and every list of ordinary and wildcard insertions of well-formed names (any order, any "
             "types, NS at the apex, CNAME next to other data, empty non-terminals, multi-label wildcard matches) building the zone "
             "never panics and the record tree represents exactly the inserted records (duplicates dropped, TTL raised to the SOA "
             "minimum); every lookup of a well-formed name terminates without panic for all 65536 query type codes; and for zones "
             "satisfying deviation D1 the result equals that of an independent flat specification of RFC 1034 4.3.2 / RFC 4592 "
             "(existence = apex or at-or-above an owner, first delegation cut strictly below the apex unless the question is NS at "
             "the cut, CNAME unless asked, wildcard set of the closest encloser, name error otherwise), up to the order of the type "
             "groups of an ANY answer. Corollaries named after the property's sentences: owner is the query name, existing names "
             "incl. empty non-terminals and the apex (whatever NS it carries) give an empty answer, name error only if the name and "
             "any covering wildcard are absent, every returned RR is an inserted record with its TTL and data, an NS question at a "
             "cut is answered directly, names at or beneath a cut get the referral. Model tied to the Rust code by a differential "
             "stream (random zones of <= 12 records over a 3-label alphabet to depth 4, exhaustive small scope, merge of two zones, "
             "malformed over-long names; lookups to depth 5 x 11 query types; dumps of all_records/all_wildcard_records/SOA) on which "
             "the extracted flat specification is also run, with an independent python RFC 1034 lookup as oracle.",
        note="Wildcard NS (RFC 4592 4.2: undefined) is specified as the code's comment says: a delegation of <next label>.<closest "
             "encloser>. Zones with records beneath (or a wildcard at) a non-apex NS owner are outside the refinement (D1) but inside "
             "the no-panic theorem and the correspondence stream.",
        design="5/C02", technique="Coq proof over executable model + model/impl correspondence (extraction)"),
    "C03": dict(
        text="Theorems about the Gallina model of Message::from_octets (header, four count loops, per-type RDATA, name decoding "
             "with pointer following): for every byte string the decoder returns a message or an error (never a panic; the model's "
             "recursion fuel of 16385 nested name decodings and 130 label iterations is never exhausted, because pointer targets "
             "strictly decrease and are below 2^14), every error carries the first two octets as id exactly when two octets exist, "
             "decode bs = Ok m <-> Parses bs m for the relational RFC 1035 grammar (labels <= 63, names <= 255, strictly backward "
             "pointers, RDLENGTH = consumed, sections as long as the counts), and every decoded message is well formed. Bounded work "
             "(decode_steps): the decoder rewritten with a counter of cursor operations (next_u8/u16/u32/take) has the model's result "
             "as its result component and performs at most 769 * (|input| + 1) * 16384 operations: at most 128 label iterations per "
             "nested name call, at most min(start + 1, 16385) nested calls per name, at most three names per record, and at most "
             "|input| - 11 question/record decoder calls whatever the four 16-bit counts claim, since each successful one advances "
             "the cursor. Model tied "
             "to the Rust code by a differential stream (valid, truncated, mutated, random and adversarial inputs up to 64 KiB) and "
             "an independent python RFC 1035 decoder as oracle. The check also sends the maximal backward pointer chain to the real release resolved binary over TCP and requires that it survives (server worker thread stack).",
        note="Stack use per frame is a compiler matter outside the model: the theorem gives the hop bound (<= 16384 nested calls), "
             "the thorough tier decodes the maximal legal pointer chain with the release build on a 2 MiB thread in a subprocess. "
             "The step count of decode_steps is a count of the model's cursor primitives (the instrumented decoder is proved to "
             "return the model's result); time per primitive in the compiled code is outside the model.",
        design="5/C03", technique="Coq proof over executable model + model/impl correspondence (extraction)"),
    "C04": dict(
        text="Theorems about the Gallina model of Message::to_octets (WritableBuffer with the name -> pointer table, whole-name "
             "compression of owner/question names, memoisation of RDATA names, RDLENGTH back-patching): an invariant of the buffer "
             "(every table entry is 0xC000 + off with off < 2^14 and the name is written in full, pointer-free, at off, inside the "
             "buffer) holds initially and is preserved by every encoder step, so every pointer emitted addresses the start of an "
             "identical name written earlier; for every well-formed message of any size, encode m = Ok bs -> Parses bs m for the "
             "relational RFC 1035 grammar (the independent decoder) and decode bs = Ok m for the model of from_octets; the grammar "
             "reads at most one message out of a byte string; encoding succeeds exactly when the four counts and every opaque RDATA "
             "length fit 16 bits; every byte string that decodes re-encodes (unconditionally) to octets that decode to the same "
             "message. Model tied to the Rust code by a byte-exact differential stream (size-targeted messages around offsets "
             "16384 and 65536, header sweep, all record types) with an independent python RFC 1035 decoder and pointer walk as oracle.",
        note="wf_message (names wf_name, integers in range, RDATA shape matching the type code) is the hypothesis on message "
             "values; the harness builds messages through the public constructors, which establish it.",
        design="5/C04", technique="Coq proof over executable model + model/impl correspondence (extraction)"),
    "C05": dict(
        text="Proved in Coq for the hand-written Gallina model of SharedCache/Cache/PartitionedCache (state exactly as in cache.rs; "
             "for every PriorityQueue tie-break): the representation invariant holds initially and is preserved by every "
             "operation, so every history of insert/insert_all/get/raw get/prune/clock steps completes without reaching a panic "
             "site; every operation refines an abstract map (name,type,data)->expiry; over all histories a record returned by get "
             "was last inserted (TTL>0) at t0 with TTL T, now < t0+T and reported TTL*1s <= time left (raw getter: TTL bound only); "
             "every stored record stems from a TTL>0 insertion and expires exactly TTL later (TTL 0 never stored); re-insertion "
             "resets the expiry, changes nothing else and does not grow the count; no answer lists a key twice; a cached record "
             "with >= 1 whole second left is returned for its type and for ANY with TTL = whole seconds left. The model is tied "
             "to the Rust code by comparing outputs and the whole state dump after every operation of generated histories under "
             "a virtual clock; a python oracle evaluates the property on the implementation's output alone. Cached records reaching an answer through resolve_local (directly, through the cached-CNAME fallback, merged behind zone data) are checked with a clock-advanced local stream (op T).",
        note="Interpretation: Cache::get withholds a record during its last incomplete second (its TTL would read 0; proved as "
             "C05_last_second_withheld), so 'not expired' in the last clause is read as 'at least one whole second left'. "
             "'Last inserted' = last insertion with TTL > 0 (SharedCache skips TTL 0). Thread schedules and std::sync::Mutex are "
             "outside the model (each SharedCache method is one critical section).",
        design="5/C05 and C15", technique="Coq proof over executable model + model/impl correspondence (extraction)"),
    "C15": dict(
        text="Proved in Coq for the same model (for every PriorityQueue tie-break): the invariant (unique keys, no duplicate value "
             "per name/type, per-name size = number of records >= 1, next_expiry = earliest expiry, both queues = the names with "
             "priorities last_read/next_expiry, current_size = sum of sizes) holds after every history; no history reaches a "
             "usize-underflow panic site or runs out of fuel, in particular prune terminates with |expiry queue|+1 expiry steps "
             "and |access queue| evictions and its while loop cannot spin on an empty queue; current_size is the cardinality of "
             "the abstract map; prune refines the abstract prune: no entry with expiry <= now remains, at most desired_size "
             "entries remain, whole names are evicted in order, each cached, alive and least recently used at its turn and only "
             "while the count exceeds the desired size, last-use times of survivors are unchanged, and the four reported numbers "
             "are the cardinalities of the corresponding abstract sets; the expired count does not depend on how ties among "
             "equal expiry instants are broken. Model tied to the Rust code by whole-state comparison after every operation of "
             "generated histories under a virtual clock (the regression witness of the fixed upsert defect runs first); a python "
             "oracle evaluates the prune/count clauses on the implementation's dumps alone. The numbers the real server reports through its metrics after a fixed history (forwarding mode, fake upstream) are compared with the expected expired / evicted / remaining counts. Several threads: a small-step model of any number of threads around one mutex (Base/Locks.v, every event list is a schedule) instantiated with the cache model (Cache/CacheConcurrent.v): after EVERY schedule the invariant holds and the record count is the number of distinct entries (C15_concurrent_invariant), the state is that of ONE sequential history of the executed calls in lock order with each thread handed its call's result (C15_concurrent_is_history), and two threads are never inside a body together; that every SharedCache method is one critical section is read from cache.rs on every run.",
        note="NOT proved: anything about threads. Thread schedules and std::sync::Mutex are outside the model; that each "
             "SharedCache method is one critical section is read off the source, and the thorough tier hammers one cache from "
             "2..8 threads and checks the invariant on the quiescent dump (a test, not a proof). Which of two names with EQUAL "
             "last_read is evicted first is left open by the theorems (tie-break parameter) and avoided by the generator.",
        design="5/C05 and C15", technique="Coq proof over executable model + model/impl correspondence (extraction)"),
    "C01": dict(
        text="All three resolver modes are covered by correspondence streams; the theorems listed cover local resolution (zones + "
             "cache: local::resolve_local and resolve() in authoritative-only mode) and the theorems for the network modes are being "
             "added separately. "
             "Theorems about the Gallina model of resolve_local / prioritising_merge / the question stack over the zone model and a "
             "cache read function: a name owned by an authoritative zone (longest enclosing apex has a SOA, name not at/beneath a "
             "delegation point) is answered by that zone alone -- exactly the zone's RRs or a name error, with the zone's SOA, or the "
             "zone's CNAME RR followed by the target's resolution -- never a referral; two cache states that agree outside names "
             "whose most specific zone is authoritative give the same result for every question (the cache is never read for such a "
             "name), and only the zone with the longest apex is consulted; a non-authoritative zone holding records of the asked name "
             "and type yields exactly those, and for ANY the merge keeps the zone's list intact and drops every cached RR whose "
             "(name, type) the zone has; AuthoritativeNameError arises only from a NameError of the authoritative zone selected for "
             "the question name (never through an alias); no fuel exhaustion, panic only if the zone model panics. Model tied to the "
             "Rust code by a differential stream over generated zone sets x cache contents x questions, comparing both the "
             "ResolvedRecord of resolve() and the raw LocalResolutionResult, with a python oracle evaluating the property on the "
             "implementation's output. Recursive mode (all four protocol modes) and forwarding mode: a second differential stream "
             "(vlib/netgen.py on the resolver drivers: the Gallina models of recursive.rs / forwarding.rs against the real code "
             "over the in-memory transport) with generated universes of upstream servers that hold DIFFERENT data for the names "
             "local zones own or override, hosts-style overrides and blocklist entries in the root hints zone, initial caches "
             "contradicting local data, alias chains local zone -> cache -> upstream, referrals before the answer, ANY questions; "
             "the oracle checks on the implementation's output that no logged exchange asks about a name an authoritative local "
             "zone owns, that a question local data answers has an empty exchange log, override exactness, authoritative marking "
             "(clear-cut subclass), name errors only from an authoritative local zone, and the provenance of every record at an "
             "owned name -- the clause 'nothing from an upstream server is used for names the zone owns' is checked without "
             "exception (fix b2bc3c2: an upstream alias chain that leads into a locally authoritative name is cut there; theorems "
             "C01_cut_sound, C01_upstream_chain_cut_*, C01_upstream_cached_not_owned_*).",
        note="The clause 'nothing from an upstream server is used for names the zone owns' is checked without exception, by the "
             "oracle on every network-mode case and by theorems: it holds for questions ABOUT owned names, for chains the resolver "
             "follows itself (local zone, cache, one upstream reply per link: the target is re-resolved locally) and, since fix "
             "b2bc3c2, for an alias chain delivered inside ONE upstream / forwarder reply: the accepted answer is cut just before "
             "the first record whose owner is another name inside an authoritative local zone and the rest is resolved locally "
             "(C01_cut_sound: the cut is total and exact; C01_upstream_chain_cut_recursive / _forwarding: what one reply "
             "contributes; C01_upstream_cached_not_owned_recursive / _forwarding: over a whole resolution every insert_all "
             "argument other than a referral's records holds no record owned elsewhere; the former witnesses, first in the "
             "stream and replayed in C01_upstream_chain_cut_witness_*, now end in the zone's data; known_findings.json keeps the "
             "entry with status fixed). The same never happened through the cache (a cached alias's target is re-resolved "
             "locally; corpus case). Theorems for the "
             "network modes (done_means_no_upstream, log_names_not_owned, nxdomain_only_from_auth_zone) are listed; the other "
             "network-mode clauses rest on the correspondence stream and its oracle. The server's rcode mapping is C09's. What a "
             "single zone answers for a name is C02's subject; C01's theorems are stated in terms of the zone's own result. "
             "Deviation D2: a chain leaving authority is non-authoritative (pinned test).",
        design="5/C01 and C10", technique="Coq proof over executable model + model/impl correspondence (extraction)"),
    "C10": dict(
        text="All three resolver modes are covered by correspondence streams; the theorems listed cover chains whose links come from "
             "zones and the cache, and the theorems for the network modes are being added separately. Theorems about the Gallina model "
             "of resolve_local: for a question of a type other than CNAME/ANY every successful local result that is not a direct "
             "referral satisfies chain_ok (CNAMEs first, each owner the previous target, starting at the question name, no owner "
             "twice, then only RRs of the asked type owned by the last target) for every mix of authoritative zones, "
             "non-authoritative zones and cache; a referral only arises as the zone's own direct result for the question name; the "
             "recursion is two guards plus one step on the stack extended by the question, so the stack never repeats a question "
             "nor exceeds 32, fuel 33 - |stack| suffices, and RecursionLimit/DuplicateQuestion only ever come from the question's "
             "own guards (inner loops end the chain in a partial result). Model tied to the Rust code by a differential stream "
             "with alias graphs of 0..40 links spread over zones and cache, cycles and self-loops, RR order compared exactly. "
             "Recursive mode (all four protocol modes) and forwarding mode: a second differential stream (vlib/netgen.py on the "
             "resolver drivers) with chains crossing local zone -> cache -> upstream, cached chains of 1..3 links ending at a name "
             "only upstream knows, upstream cycles (through and not through the question name, self-loops, across two zones), "
             "chains of 29..40 links inside one upstream zone, alternating between two upstream zones, inside a local zone and "
             "mixed; the oracle checks on the implementation's output: completion within 60 s of virtual time (no hang, no stack "
             "overflow), no record twice, chain_ok for every successful reply to a question of a type other than CNAME/ANY -- in "
             "recursive mode always, in forwarding mode whenever the forwarder's own answers are repetition-free and in chain "
             "order (D6).",
        note="Theorems for chains continuing upstream (recursive_chain_ok, forwarding_chain_ok; filter_chain_ok is C06's) are being "
             "added separately; until they are listed the network-mode clauses rest on the correspondence stream and its oracle. "
             "In forwarding mode the forwarder's answer section is passed on as it is (D6): a forwarder that repeats the records "
             "of an alias cycle (the modelled one does, up to 64) gets them passed on; such replies are counted and not judged. "
             "RECORDED exception to 'no alias is followed twice' (known_findings.json, class alias-followed-twice-across-replies, "
             "printed as KNOWN-FINDING on every run, witnesses first in the stream): when two statements about one alias "
             "contradict each other across sources the question stack does not connect -- two upstream replies (a CNAME b in "
             "one, b CNAME a; a CNAME c in a later one) in recursive mode, or the cache and a later upstream / forwarder reply in "
             "both modes -- the alias is followed twice and both records are returned and cached (cause: names inside a reply's "
             "chain and names followed locally from the cache are not on the duplicate-question stack; every link connects, nothing "
             "is repeated, the resolution ends); an identical record twice, a broken link or a duplicate inside one reply remain "
             "violations. "
             "In the network modes a chain longer than 32 that lies in a local zone is answered whole (each stage of the "
             "resolution follows up to 32 local links; bound about 32 x 32), which the check accepts. local_chain_ok assumes of the "
             "sources: zone answers are owned by the query name with the asked type (proved here for zone trees whose record maps "
             "are keyed by record type -- decidable, preservation by insertion is C02's) and cache reads return RRs of the asked "
             "name and type (C05). A direct referral from an authoritative zone puts NS RRs in the answer (C09's finding F12) and "
             "is excluded from chain_ok.",
        design="5/C01 and C10", technique="Coq proof over executable model + model/impl correspondence (extraction)"),
    "C06": dict(
        text="Theorems about the Gallina model of the upstream-reply filter (validate_nameserver_response, follow_cnames, "
             "get_better_ns_names, get_nxdomain_nodata_soa) and of the header gate (response_matches_request as query_nameserver "
             "applies it over UDP then TCP), for every question, every delegation depth and every reply: the filter is total (no "
             "panic; both CNAME loops end before the model's fuel, by pigeonhole on the targets of the CNAME map); every record it "
             "lets through is `allowed` (asked type at the end of the CNAME path from the question name in the answer section / a "
             "CNAME on that path -- for a CNAME question: a CNAME owned by the question name, nothing followed; NS of the deepest ancestor-or-self of the question name with more labels than the delegation in "
             "use; A/AAAA of a host those NS records name; the single SOA of an NXDOMAIN/NODATA reply owned by an ancestor with at "
             "least that many labels); accepted answers are the CNAME chain in order, no owner twice, then records at the final "
             "name only; every referral is strictly deeper than the delegation in use and names at least one host, each host named "
             "by an accepted NS record; response_matches_request is true iff id, QR, opcode and question match, TC is clear and "
             "rcode is NoError/NameError, and query_nameserver returns only a reply that passed it. Model tied to the Rust code by "
             "a differential stream of adversarial replies through the private filter (hook H4) and through the real "
             "query_nameserver over the in-memory transport (hook H3); an independent python oracle evaluates `allowed`, chain "
             "order, referral progress and the gate on the implementation's output.",
        note="The last sentence of the property text (nothing else reaches the cache or the answer: only_validated_is_cached) is a "
             "statement about resolve_with_nameserver_response / resolve_recursive and belongs to the recursive resolver model "
             "(C07/C08 subsystem), which uses filter_sound and delegation_progress from here. The tree already contains the fixes: "
             "commits 4fb31f1 (findings F8/F13), eed2feb (F9) and cbd301d (a CNAME question is answered by the CNAME record of the "
             "question name, not chased); their witnesses are corpus cases.",
        design="5/C06", technique="Coq proof over executable model + model/impl correspondence (extraction)"),
    "C07": dict(
        text="Executable Gallina model of recursive resolution (resolve_recursive with its 60 s budget, candidate selection, "
             "fast/slow candidate passes, resolve_hostname_to_ip in the four protocol modes, referral handling, glue shortcut, CNAME "
             "continuation, cache inserts, question stack) over an upstream oracle, and an independent specification of the DNS "
             "universe (Universe.serve, auth_answer, consistentb). PROVED, for every oracle, cache, zone set, mode and fuel: "
             "C07_referral_progress (the only way the candidate loop changes the delegation in use is a referral that passed gate "
             "and filter; the loop continues with exactly that delegation, which is strictly deeper than the one in use, encloses "
             "the question name -- so at most as many referrals are followed as the question name has labels -- and names a host), "
             "C07_no_referral_same_delegation, C07_answer_provenance (every record returned agrees in owner, type and data with "
             "local zone data, a record cached before, or a record of a reply the oracle sent in this resolution that passed the "
             "header gate and that the filter specification [allowed] of C06 admits); and, for every universe, the two kinds of hop "
             "of a resolution against Universe.serve: C07_referral_hop_partial (when the candidate picked has an address at which a "
             "server listens whose zone has a delegation point on the way to the question name, and the transport delivers serve's "
             "referral, the loop caches the NS set and glue and continues with exactly that delegation and the NS targets as hosts) "
             "and C07_last_hop_partial (at a server of the zone that owns the question name -- no cut on the way, no alias at the "
             "name, question type other than CNAME/ANY -- the loop returns EXACTLY auth_answer: the records of the asked type, or no "
             "records and the zone's SOA), with their ingredients C07_filter_accepts_plain_answer / _denial / _referral "
             "(completeness of the reply filter on serve's three reply shapes), C07_serve_is_auth_answer and "
             "C07_universe_oracle_delivers (the fault-free universe oracle hands query_nameserver exactly the message serve "
             "prescribes, through the wire codec, when the replies are well-formed and fit 512 octets); on the specification "
             "side C07_referral_strictly_deeper, C07_auth_answer_from_universe; C07_example_two_level evaluates the model against "
             "Universe.serve through the wire codec inside Coq on a consistent two-level universe (result = auth_answer for an "
             "alias and for a missing name). DEPTH 1 PROVED END TO END (C07_correct_depth0, C07_correct_depth1): for every universe "
             "with a root zone, every list of root hints (root NS records + A records of the hosts they name) from which "
             "Zone::insert builds the only local zone, every candidate order that is a permutation, every port and fuel >= 3, an "
             "empty SimpleCache, mode only-v4 and the fault-free universe oracle through the wire codec: when the zone owning the "
             "question name is the root zone, or a zone delegated from the root with A glue for each of its nameservers "
             "(wherever their names lie), with no alias at the name and a question type other than CNAME/ANY, the result is "
             "EXACTLY auth_answer (the records of the asked type as the zone lists them, or nothing and the zone's SOA) and the "
             "log is exactly one UDP exchange with a root server, resp. that followed by one with a server of the delegated zone. "
             "Ingredients proved for every hints list / record list: C07_hints_zone_lookup (a zone built from hints answers a "
             "lookup with exactly the matching hints, via C02's flat specification), C07_simple_cache_get_after_insert_all, "
             "C07_sort_names_ord_permutation; the hypotheses are met by the worked universe (C07_example_depth0/1). "
             "ANY DEPTH PROVED END TO END for glue-complete alias-free chains (C07_correct_chain; Resolver/RecursiveChain.v): for "
             "every universe and every chain of its zones zroot > z1 > ... > zk, k arbitrary, in which each zone is delegated from "
             "the one before on the way to the question name (the cut's NS records, an A record with TTL > 0 for every nameserver "
             "host in the parent's glue or data, every such address a server whose closest zone for the name is the child, each "
             "apex strictly deeper) and zk owns the name plainly (no alias, type other than CNAME/ANY), under the same other "
             "hypotheses as depth 1 and every fuel >= k+2, the result is EXACTLY auth_answer and the log is exactly k+1 UDP "
             "exchanges about the question, the i-th with a server whose closest zone for the name is the i-th zone of the chain, "
             "root server first, depths strictly increasing. Induction on the chain over the candidate loop's state (match count, "
             "candidates that all resolve in the fast pass from hints or cached glue, the cache after the insert_all of every "
             "referral so far, stack [q]); the cache is abstract with three laws over histories of insert_all (empty start; an A "
             "record read was inserted; an A record with TTL > 0 given to the last insert_all is read back), proved for SimpleCache "
             "and for the real cache model Cache/CacheModel.v at any fixed instant (C07_chain_cache_laws), for which the same "
             "theorem is stated (C07_correct_chain_real_cache). C07_example_depth3: the hypotheses are met by a consistent universe "
             ". -> com. -> example.com. -> sub.example.com. built in the file (an existing record and a NODATA question: four "
             "exchanges at fuel 5; the same run evaluated by vm_compute asks 10.0.0.1..4 in order). "
             "WARM CACHE PROVED (C07_correct_warm, C07_correct_warm_real_cache; Resolver/RecursiveWarm.v): the chain theorem from ANY "
             "cache consistent with the universe (cache_consistent: every record read is a record of the universe up to TTL and "
             "class; the hosts of a cached NS set resolve in the fast pass; a cached non-NS RRset not at a nameserver host holds all "
             "the data of its name and type) -- C07_empty_cache_consistent: the empty cache is; the resolution of a plain question "
             "ends in a consistent cache (every insert_all is the filter result on a reply of serve: a referral's NS set and glue, "
             "or the answer RRset); and it returns the authoritative answer: either the cached RRset (exactly the authoritative "
             "data -- same owner, type, data; TTLs and order are the cache's, i.e. the server's at the fixed instant -- no exchange, "
             "cache unchanged) or EXACTLY auth_answer over the network with one exchange per zone of a non-empty suffix of the "
             "delegation chain, starting at the deepest zone whose NS set is cached (the root hints if none). Abstract cache with "
             "four laws about one insert_all into any cache (shape, sound, monotone, complete), proved for SimpleCache and the real "
             "cache model at a fixed instant (C07_warm_cache_laws). SEQUENCES PROVED (C07_sequence, C07_sequence_outcomes; "
             "Resolver/RecursiveSequence.v): any list of plain questions resolved one after the other on one cache started empty (or "
             "consistent) each returns its authoritative answer, the cache stays consistent. ALIASES PROVED (C07_correct_alias, "
             "C07_correct_alias_real_cache, C07_alias_sequence; Resolver/RecursiveAlias.v): a question whose authoritative answer is a "
             "chain of k < 31 aliases n0 -> .. -> nk, each link held by the zone owning its owner, crossing zones freely, pairwise "
             "distinct names, followed by the final RRset or NODATA/NXDOMAIN at nk: auth_answer = chain ++ final answer, and resolve "
             "returns the chain's records in order (owner, type, data) followed by records with exactly the data of the final RRset, "
             "with the final SOA, from any consistent cache, leaving a consistent cache -- through resolve_local following the cached "
             "part of the chain, serve's multi-link replies (the chain as far as the answering server's zones go), the reply filter "
             "keeping exactly chain ++ finals (C07_filter_accepts_alias_answer: NRAnswer / NRCname), and the NRCname continuation "
             "(resolve_combined_recursive: the nested resolve_recursive_notimeout on the next name with the alias questions on the "
             "stack, on the cache warmed so far; the warm theorem holds for any question stack); sequences mixing alias and plain "
             "questions likewise. Examples (hypotheses satisfiable, and the runs evaluated by vm_compute): C07_example_warm, "
             "C07_example_sequence, C07_example_alias on the depth-3 universe extended with alias.example.com. CNAME "
             "www.sub.example.com. and ext.com. CNAME alias.example.com. (ext.com. A: six exchanges, three records in order; asked "
             "again: from the cache). "
             "ALL FOUR PROTOCOL MODES PROVED (C07_correct_modes, C07_correct_chain_modes, C07_correct_modes_real_cache; "
             "Resolver/RecursiveModes.v): the warm / chain theorem for every mode (only-v4, prefer-v4, prefer-v6, only-v6), root hints "
             "with A and AAAA records (hint_okm), A and AAAA glue: every nameserver host of a cut has glue of a family the mode can use "
             "(mode_usable: a type of rtypes_of_mode), and EVERY address record of either family the universe or the hints hold for a "
             "host of a zone is the address of a server of that zone (the first type of the mode for which the fast pass finds a hint "
             "or a cached RRset wins; a host owns no alias); cache consistency for the mode (consistentm; for only-v4 it is "
             "cache_consistent: C07_consistentm_only_v4); logs hold v4 and v6 addresses (query_toi). C07_example_modes: the depth-3 "
             "universe with a v6-only nameserver for com. and dual-stack servers elsewhere, in every mode other than only-v4; by "
             "vm_compute prefer-v4 asks 10.0.0.1, fd00::2, 10.0.0.3, 10.0.0.4, prefer-v6 and only-v6 ask fd00::1..4. "
             "GLUELESS NAMESERVERS PROVED (C07_correct_glueless, C07_correct_glueless_real_cache; Resolver/RecursiveGlueless.v): cuts "
             "whose nameserver hosts have no usable glue -- the fast pass skips every candidate (next_candidate_hostnames), the slow "
             "pass resolves the first by a nested resolve_recursive_notimeout on (h, A/AAAA by the mode) with the question on the "
             "stack, which is the same theorem for h's own delegation chain (from the hints or the cache warmed so far; its cuts may "
             "again be glueless); the address found serves the child and the query proceeds; the cache stays consistent. Hypothesis: a "
             "PLAN of the glueless hosts (planned, plan h = h's chain and owning zone, hrank) with plan_ok: walk hypotheses for (h, t) "
             "for each type t of the mode, an address record of a usable family in the owning zone, no alias at h, and a RANK: every "
             "nameserver host of every zone on h's chain ranks strictly below h (no name is needed while its resolution is under way: "
             "DuplicateQuestion), ranks below 30 (RECURSION_LIMIT 32). Conclusion for all sufficient fuel (C07_fuel_monotone: more fuel "
             "never changes a finished computation of the model): the authoritative answer, a consistent cache, and the log = the "
             "exchanges about q, one per zone of a subsequence of the chain ending at the owning zone, interleaved with the nested "
             "resolutions' exchanges about nameserver host names (glog). C07_example_glueless: hosted.com. delegated from com. to "
             "ns.hoster.net. without glue, hoster.net. reached by its own glue-complete chain . -> net. -> hoster.net.; by vm_compute six "
             "exchanges (2 + 3 nested + 1). "
             "SERVERS HOLDING SEVERAL ZONES OF ONE CHAIN PROVED (C07_correct_multizone, C07_correct_multizone_real_cache, "
             "C07_correct_glueless_multizone; Resolver/RecursiveMultiZone.v, flag multi of the two inductions): the address clause "
             "weakened to \"a server whose closest zone for the name is the zone or a zone of the chain below it\" (lands); hops are "
             "skipped, the answer is unchanged, the log is one exchange per zone of a subsequence of the chain ending at the owning "
             "zone (C07_multizone_log_shorter), skipped zones' NS sets are not cached; the weakened hypotheses follow from the strict "
             "ones (C07_multizone_weakens). C07_example_multizone: the server of com. also holds example.com.: three exchanges "
             "instead of four. "
             "STREAM-ONLY (not proved): alias chains and question sequences in the v6 modes / with glueless cuts / multi-zone servers "
             "(C07_correct_alias and C07_sequence are only-v4, glue-complete); a glueless host that also has glue in a referral on its "
             "own chain (glue shortcut F11 on a host question, e.g. ns.hoster.net. serving hoster.net. itself); glueless hosts without "
             "any usable address (candidate dropped, next one tried); faults; questions for NS / CNAME / ANY and questions about a "
             "nameserver host from a warm cache; i.e. that the result EQUALS auth_answer on every consistent universe "
             "(C07_correct_partial is stated in a comment at the end of Properties/C07.v with what is missing). That clause is covered "
             "by the differential stream and the oracle: generated universes (depth 1..5, 1..3 nameservers per zone, "
             "in/out-of-bailiwick and sibling nameserver names, glue present/absent, v4/v6/dual addresses, cross-zone CNAMEs, "
             "missing names/types, question sequences sharing a cache) are served to the real resolver through the in-memory "
             "transport (hook H3) from a reply table computed by the extracted Universe.serve; the implementation's result must "
             "equal the extracted auth_answer and the model must agree with the implementation on every exchange, result and the "
             "final cache.",
        note="C07_correct_partial is proved for glue-complete alias-free delegation chains of any depth (C07_correct_chain; "
             "hypotheses chain_from / chain_link of Resolver/RecursiveChain.v with hints_for and plain_question of depth 1, all but "
             "[serve_fits] decidable on the universe and the question: hints well formed and leading to root servers, hints not "
             "answering the question themselves, at every link a glue-complete delegation whose addresses -- in the parent and in "
             "the zones above it, whose glue the cache holds by then -- are servers whose closest zone for the name is the "
             "delegated zone, positive glue TTL, strictly deeper apex, the question name owning no glue -- finding F11; "
             "consistentb is not needed beyond these); from any consistent cache (C07_correct_warm), for sequences of questions "
             "(C07_sequence) and for alias chains crossing zones (C07_correct_alias) under the hypotheses warm_question / "
             "alias_path of Resolver/RecursiveWarm.v, RecursiveAlias.v: per name a glue-complete delegation chain as above with the "
             "address clause over the whole universe (the cache may hold any of its records), NS owners at or above the name are "
             "the chain's apexes, no alias strictly above the name, the name not a nameserver host, question type a record type "
             "other than NS / CNAME; for a plain name: data only in its zone, no glue for it, positive TTLs; for an alias name: the "
             "CNAME is the only record of the universe it owns; the chain's names pairwise distinct and fewer than 31 links; every "
             "server that has a zone enclosing a chain name with no cut of that zone on the way has the zone owning the name. "
             "For the four modes, glueless cuts and multi-zone servers (C07_correct_modes / _glueless / _multizone) the hypotheses "
             "are warm_questionm / plan_ok of Resolver/RecursiveModes.v, RecursiveGlueless.v: as warm_question with glue of a family "
             "the mode can use or a planned host at each cut, every A/AAAA record of a host leading to a server of its zone (or, with "
             "multi, a zone below it in the chain), no alias at a host, root hint nameservers listed by the universe's root zone; the "
             "plan's rank function on nameserver host names (well-foundedness of the needs-the-address-of relation, ranks < 30). "
             "Missing for the whole statement: (1) aliases and sequences beyond only-v4 glue-complete chains; the glue shortcut F11 "
             "on a host question; glueless hosts without usable addresses; faults; (2) a well-formedness predicate on universes "
             "implying [serve_fits] (replies well formed and at "
             "most 512 octets), under which C07_universe_oracle_delivers discharges the hop theorems' hypothesis [delivers], and "
             "from which the per-question hypotheses follow (they are decidable but stated question by question); "
             "(3) warm-cache questions for NS, and about nameserver hosts (the glue "
             "shortcut F11 as a hypothesis on the universe). Stated hypothesis of the property as "
             "implemented: every listed nameserver answers (the first candidate that gives no usable reply ends the resolution "
             "with DeadEnd). The theorems hold for an abstract cache under two laws (a read returns records the cache holds, up "
             "to class and TTL; an insert adds only the inserted records) which SimpleCache -- the small executable instance at a "
             "fixed virtual instant that the model driver runs -- is proved to meet (C08_simple_cache_laws), and so is the real cache "
             "model Cache/CacheModel.v under its invariant at any fixed instant (C08_real_cache_laws); the DRIVER has not been "
             "switched to Cache/CacheModel.v.",
        design="5/C07", technique="Coq proof over executable model + model/impl correspondence (extraction)"),
    "C08": dict(
        text="Executable Gallina model of the upstream transport (query_nameserver: UDP attempt into a 512-byte buffer, header "
             "gate, TCP attempt with 2-byte length framing, the 5 s time-outs; the three time-outs are read from the Rust source by "
             "tools/tables.py) and of the recursive and forwarding resolvers with their 60 s budget as a cost semantics, total "
             "functions with explicit fuel and Panic/OutOfFuel/Timeout outcomes. PROVED, for EVERY oracle (assumed only to send "
             "octets), every cache, zone set, candidate order, mode and state: C08_recursive_terminates (there is a fuel from which "
             "on the result of resolve_recursive does not depend on the fuel and is not OutOfFuel; lexicographic measure: free "
             "question-stack slots <= 32, labels of the question name still to match -- every accepted referral strictly increases "
             "the match count --, candidates left, fast/slow pass), C08_forwarding_terminates (explicit fuel 34), "
             "C08_recursive_no_panic and C08_forwarding_no_panic (no panic unless the zone model panics: nothing an upstream server "
             "sends can cause one), C08_answer_provenance_recursive / _forwarding (every record of a successful result agrees in "
             "owner, type and data with local zone data, with a record cached before, or with a record of a message the oracle "
             "SENT during the resolution -- the decoding of the octets a logged exchange delivered -- that passed the header gate "
             "and that the filter specification allows, resp. that stands in the forwarder's answer section), the time clauses "
             "C08_udp_exchange_cost_bounded, C08_tcp_exchange_cost_bounded, C08_udp_exchange_time, C08_tcp_exchange_time, "
             "C08_query_nameserver_time, C08_charge_within_budget (each exchange <= 5 s per transport, query_nameserver <= 10 s, "
             "never past the 60 s budget); Examples by vm_compute: a circular referral and an upstream alias loop end with an error "
             "after two exchanges, not with OutOfFuel. The model is tied to the Rust code by the differential stream: every "
             "assignment of 10 faults to the first 3 exchanges of a recursive resolution and the first 2 of a forwarded one, random "
             "plans (delays up to 70 s, exact time-out ties, lying TCP prefixes) on universes with lame, dead, circular and upward "
             "delegations, alias loops, 40-link chains and unresolvable nameserver names, run on the real code under tokio's paused "
             "clock; checked on the implementation: completion, virtual elapsed <= 60 s, each exchange <= 5 s, no panic, every "
             "returned record occurs in an upstream reply of the case or in local data, and agreement with the model. The stream includes alias loops that do not pass through the question name, self-loops, and loops / over-long chains held locally in forwarding mode.",
        note="The termination fuel of the recursive model is existential (it depends on the number of host names in the referrals "
             "the oracle sends); the drivers pass RESOLVER_FUEL = 200000 and the stream would show OutOfFuel if that were too "
             "little. Provenance is up to class and TTL (the cache keeps neither) and is stated for an abstract cache under two "
             "laws that SimpleCache (what the model driver runs) and the real cache model Cache/CacheModel.v (under its invariant, "
             "at any fixed instant: C08_real_cache_laws, Resolver/ResolverCacheInstance.v) are both proved to meet; the driver "
             "itself has not been switched to CacheModel. Runtime clauses outside the model: that tokio's timeout really fires, "
             "cancellation safety, real sockets.",
        design="5/C08", technique="Coq proof over executable model + model/impl correspondence (extraction)"),
    "C18": dict(
        text="PROVED on the whole exchange log of the resolver models, for every oracle, cache, zone set and fuel: "
             "C18_port_fixed_whole_log (every exchange of a recursive resolution goes to the configured upstream port, RD clear), "
             "C18_forward_only_forwarder (in forwarding mode every exchange goes to the configured forwarder address and port, RD "
             "set), C18_only_family (under only-v4 / only-v6 every destination has that family, never the other one), "
             "C18_prefer_family (under prefer-v4 / prefer-v6 resolve_hostname_to_ip yields an address of the other family for a "
             "nameserver host only after the preferred-family question for that host was asked first -- of local data in the fast "
             "pass, recursively in the slow pass -- and yielded no address), C18_hostname_loop_order, C18_get_ip_family; and on the "
             "transport model C18_udp_exchange_dest, C18_tcp_exchange_dest, C18_query_nameserver_dest, C18_port_fixed, "
             "C18_rtypes_of_mode. The family theorems assume that record type and RDATA shape agree (an A record carries an IPv4 "
             "address: RecordTypeWithData in Rust, a (type code, rdata) pair in the model) for the configured zones and the initial "
             "cache, and the two cache laws SimpleCache is proved to meet; upstream data is typed because it is decoded from "
             "octets. The model is tied to the Rust code by the differential stream: universes whose nameservers have v4-only, "
             "v6-only or dual addresses learnt from hints, glue, cache or recursion x 4 protocol modes x non-default upstream "
             "ports, and forwarding mode with IPv4/IPv6 forwarders; checked on the implementation's exchange log: allowed family, "
             "configured port, only the forwarder, no other-family contact while a preferred-family address was held, preferred "
             "family asked first. The stream includes local authoritative zones with delegations whose nameserver addresses are known locally, in forwarding and recursive mode.",
        note="The clause 'never contacts a nameserver at an address of the other family while it holds an address of the "
             "preferred family' is proved in the form: the other family is only asked about after the preferred-family question "
             "yielded no address (C18_prefer_family); 'holds' is read as 'local data or the recursive lookup yields one'.",
        design="5/C18", technique="Coq proof over executable model + model/impl correspondence (extraction)"),
    "C14": dict(
        text="Theorems about the Gallina model of hosts/{deserialise,serialise,types}.rs and of std's IP address text codec: "
             "reading the rendering of a hosts-file syntax tree (arbitrary ASCII white space, aliases, comments after any field "
             "also glued, interface-suffixed addresses, CRLF) yields its last-writer-wins meaning (hosts_parse_denotes); a line that maps "
             "no names is ignored whatever its address field is (address_only_ignored; /repo 25db594); the first line that maps at "
             "least one name and has a malformed address or name is an error, the address error first (hosts_errors_*); the reader never panics on any text "
             "(parse_hosts_total); serialise-then-deserialise gives the same mappings for text-safe names (hosts_roundtrip); "
             "Zone::from(hosts) holds exactly one A/AAAA record per mapping with TTL 5, root apex, no SOA, no wildcards, and "
             "TryFrom<Zone>/from_zone_lossy give the hosts data back (hosts_zone_exact/back); Display-then-FromStr is the identity "
             "on IPv4 and IPv6 addresses (ipv4_roundtrip, ipv6_roundtrip); every mapped name resolves in the zone to exactly its address "
             "(hosts_zone_resolves). Model tied to the Rust code by a differential stream (IP codec, str::lines, parse, "
             "serialise, round trip, zone conversion and lookups, merge) and by runs of the real htoh/htoz/ztoh binaries.",
        note="std's parser/printer are modelled by hand from the toolchain's source (Ip/IpModel.v) and validated against the real "
             "std by the stream; Display-then-FromStr is proved the identity for IPv4 and IPv6. A name whose leftmost label is '*' "
             "does not survive htoz | ztoh (zone text reads it as a wildcard): known finding star-label-lost-through-zone-text, counted in "
             "the evidence. Fixed finding (a recurrence fails the check): address-only-malformed-line-rejected (25db594); its witness "
             "'zzz \\n1.2.3.4 foo' is the first corpus case and must read as one mapping.",
        design="5/C14", technique="Coq proof over executable model + model/impl correspondence (extraction) + real binaries"),
    "C11": dict(
        text="Theorems about the Gallina model of zones/deserialise.rs (tokeniser, parse_rr, Zone::deserialise), for all inputs: "
             "tokenise_render (an entry written in the layout family -- raw characters, \\X and \\DDD escapes, quoted and unquoted "
             "tokens, white space, comments, parenthesised groups spanning lines with parentheses also glued to tokens -- is read "
             "back as exactly its tokens), parse_rr_forms (each of the ten field shapes, for every record type whose RDATA tokens "
             "parse, under a stated decidable 'unambiguous' condition: owner/TTL/wildcard inheritance as RFC 1035 5 says), one "
             "rejection lemma per listed fault ($INCLUDE, class other than IN with explicit owner, second SOA, wildcard SOA, owner "
             "outside the apex, relative name / @ / * without origin, no TTL to inherit), no partial load (a zone is built only "
             "after every entry was accepted) and soa_raises_ttls (every record of the returned zone has TTL >= SOA MINIMUM). "
             "parse_denotes (PROVED, coq/ZoneFile/ZoneParseDenotes.v): for every file of an abstract syntax (entries = $ORIGIN | "
             "RR with owner absent / name / '*' / '*.name', names absolute, relative or '@', optional TTL and class in either "
             "order, all 18 types; blank and comment-only lines) laid out in ANY layout of the layout family (white space, \\X "
             "and \\DDD escapes, quoted tokens, parenthesised groups over several lines, comments, last line with or without "
             "newline) that passes a decidable validity check (names expressible, numbers in range, owner not all digits), "
             "Zone::deserialise(render f) returns the zone the file denotes: apex and SOA as found, and a record tree that "
             "represents (relation R of the C02 development) exactly the denoted records -- origin tracking, owner/TTL/"
             "wildcard-ness inherited from the previous record (TTL as loaded, D3), an owner expanding to '*.x' a wildcard "
             "(fix 0286676), TTLs raised to the SOA minimum; with the codec of Ip/IpModel.v no hypothesis is left "
             "(C11_parse_denotes_zf). C11_parse_denotes fixes the SPELLING (lower-case names, numbers/addresses as Display "
             "prints them, the type by its mnemonic); C11_parse_denotes_spelled (PROVED, coq/ZoneFile/ZoneParseSpelling.v) extends it "
             "to RESPELLED files: every name token in any ASCII letter case (parse_domain / parse_domain_or_wildcard fold the case "
             "of every text: C11_spelling_upper), RDATA numbers as any text <uN as FromStr> accepts -- leading zeros, one leading "
             "'+' (C11_spelling_numbers) --, the TTL as any all-digit text, addresses as any text the codec's FromStr accepts, the "
             "type also as TYPE<n> for a known code (C11_spelling_type), the root wildcard also as '*.' "
             "(C11_spelling_root_wildcard), under two decidable side conditions that keep parse_rr's reading of the fields "
             "unchanged (owner token not IN/$ORIGIN/$INCLUDE; no RDATA token but the last a type mnemonic); a sound executable "
             "checker (lines_ok_spb) and an instance using all respellings at once are included. Left unproved: a '+' in the TTL "
             "field and weaker side conditions (C11_parse_denotes_spelling_partial, in a comment); those spellings are covered "
             "by the correspondence stream, whose oracle is an independent python denotation of the abstract file.",
        note="Conventions D3 (SOA RR loaded with TTL = MINIMUM, inherited as loaded) and D4 (a non-IN class mnemonic where an owner "
             "may stand is an owner). Interpretations D9/D10: an unterminated quoted string / an open parenthesis at end of input "
             "is accepted by the tokeniser (malformed text outside the property's fault list; generated, model = impl checked). "
             "std's Ipv4Addr/Ipv6Addr FromStr/Display are a parameter of the model (all theorems hold for every codec; the driver "
             "instance is Ip/IpModel.v via coq/ZoneFile/ZfInstance.v).",
        design="5/C11", technique="Coq proof over executable model + model/impl correspondence (extraction)"),
    "C13": dict(
        text="Theorems about the Gallina models of zones/serialise.rs and zones/deserialise.rs (Properties/C13.v). Escape level: "
             "escape_roundtrip -- the text serialise_octets writes for ANY octet string (all 256 octets, quoted or not) is "
             "tokenised back to exactly that octet string, alone or inside any entry of the layout family; only printable ASCII is "
             "written. Zone level, PROVED: relative_name_roundtrip (what serialise_domain writes -- relative to the apex, '@', or "
             "the absolute fall-backs: root apex, not authoritative, outside the apex, relative part exactly '@' -- is read back "
             "as the same name under the origin in force; ordinary owner unless the leftmost label is '*', '*.' + text = the "
             "wildcard); zone_roundtrip -- for every BUILT zone (Zone::new + insert/insert_wildcard; apex root or SOA present; "
             "apex, owners and RDATA names well formed with ASCII dot-free labels; leftmost label of the apex and of ordinary "
             "owners not the single octet '*'; the 18 known types other than SOA for inserted records; RDATA well shaped, "
             "u16/u32/TTL in range, octet strings of octets) and every ADMISSIBLE record order (names in any order, the type "
             "groups under a name in any order or interleaved, order inside a type group kept -- any HashMap iteration order; "
             "the model's own all_records order is proved admissible) deserialise(serialise z) = Ok z' with z' the same zone: "
             "same apex, same SOA, same nodes, and at every node for every type the same lists of ordinary and wildcard "
             "records (data, TTLs, order); normalise_idempotent -- z' written in the order of the first pass gives the very "
             "same text, and written in any order admissible for it and read again is the same zone; loaded_built -- every "
             "zone Zone::deserialise returns is a built zone (labels any ASCII octet but '.', lower-cased; ordinary owners "
             "never have leftmost label '*' since fix 0286676), hence loaded_roundtrip and ztoz-twice; "
             "normalise_idempotent_text -- for the model's own record order (names sorted by the derived Ord, proved a total order; "
             "type groups of a name in the insertion order of the type map; Vec order inside) the zone read back from the text of a "
             "built or loaded zone serialises to LITERALLY the same text (the type groups of the re-read zone come in the order in "
             "which the first pass listed them: key order of the type maps under insertion, ZoneFile/ZoneRtText.v). The address codec "
             "(std's Ipv4Addr/Ipv6Addr Display/FromStr, outside /repo) enters through two hypotheses (Display then FromStr is "
             "the identity and writes plain characters; FromStr yields values in range), both PROVED for the codec model of "
             "Ip/IpModel.v the drivers run with, so the instance theorems C13_zone_roundtrip_zf / C13_ztoz_twice_zf assume "
             "nothing. The correspondence stream ties the models to the real code: zones parsed from generated text and zones "
             "built through the API are serialised and re-parsed by the real code (equal zone, idempotent text), the serialiser "
             "model is compared with the real serialiser text, and the real ztoz binary is run twice on generated files.",
        note="Outside the property as scoped in DESIGN D5/D7: non-root apex without SOA, Unknown-type records, SOA-type records "
             "pushed through insert() (the serialiser skips them), labels containing '.', non-ASCII labels, an ordinary owner (or "
             "apex) whose leftmost label is exactly '*' built through the API (such an owner IS the wildcard syntax). Found while "
             "proving and fixed in /repo (0286676, known_findings class star-owner-via-origin): '@' under '$ORIGIN *.x' used to "
             "load an ordinary record at '*.x', which did not round-trip. The literal second-pass = first-pass text theorem is about "
             "the model's deterministic insertion order of the type groups; the implementation's HashMap order is arbitrary, so for it "
             "the claim is C13_normalise_idempotent (any admissible order gives the same zone; the same order the same text) and the "
             "stream canonicalises the order of type groups (stable sort of a block's lines by owner and type).",
        design="5/C13", technique="Coq proof over executable model + model/impl correspondence (extraction) + real ztoz binary"),
    "C17": dict(
        text="Zone-file part: theorems about the Gallina model of zones/deserialise.rs and of the tree insertion of zones/types.rs, "
             "for EVERY list of Unicode scalar values and every address codec: the tokeniser and the whole parser return Ok or Err, "
             "never Panic (every index, slice, last-character access and the from_labels(..).unwrap() of ZoneRecords::insert are "
             "unreachable under Rust's panic condition) and never OutOfFuel (the tokeniser makes one iteration per character "
             "consumed -- any fuel at least as long as the input gives the same result; the two outer loops make at most |text|+1 "
             "iterations), and the insertion recursion depth is at most 128. The hosts-file part is the hosts subsystem's theorem. "
             "Correspondence: random Unicode, grammar-aware mutations, 127/128-label names, 20 KB (quick) / 1 MB (thorough) tokens "
             "and lines, each case run by the real parser in its own 2 MiB-stack thread under a watchdog. "
             "Hosts-file part (extra hook): Hosts::deserialise on the same kind of per-case 2 MiB thread for the C14 corpus, random "
             "Unicode, mutated hosts files, NULs, lone CRs, one line of 10^4..10^5 names, 1 MB names / comments / white space / "
             "address tokens, 10^5 lines; compared with the extracted hosts model where that is feasible (the model is quadratic; "
             "about 3 s of model time per case in the quick tier) and with the python reading of hosts(5) beyond. "
             "Loader part (extra hook): the real resolved::fs::load_zone_configuration, per-case 2 MiB thread, on bad files written "
             "to disk -- texts the parser models reject, with 2/3/4-byte characters at every distance 0..24 (quick) after / before "
             "the offending character and around earlier harmless occurrences in comments, unbalanced parentheses / quotes, "
             "binary garbage, empty files, directories in place of files, missing files: the result is None (or a configuration "
             "for empty files) as the config model says, never Panic / Hang / death of the driver.",
        note="That the model has ALL of Rust's panic sites is established by reading and by the stream, not by proof. The hosts "
             "and loader parts are differential / crash testing of the real code, not proof; stack use is observed on the harness "
             "build (opt-level 1).",
        design="5/C17", technique="Coq proof over executable model + model/impl correspondence (extraction) + crash testing of "
                                  "Hosts::deserialise and load_zone_configuration on 2 MiB threads"),
    "C12": dict(
        text="Theorems about the Gallina model of load_zone_configuration / get_files_from_dir (file system as data: explicit "
             "files, directory listings; a file = what Zone::deserialise / Hosts::deserialise return), Hosts::merge, From<Hosts> for "
             "Zone, Zones::insert_merge: load never panics and returns None exactly when a directory cannot be listed or a file of "
             "the effective sequence cannot be read/parsed; the effective sequence is the -z/-a files in argument order followed by "
             "each -Z/-A directory's non-directory entries in byte-wise sorted order (unique); hosts files are last-writer-wins per "
             "name and family; the merged hosts become a root-apex zone without SOA holding exactly one A/AAAA record with the hosts "
             "TTL per entry, merged LAST; per apex the loaded zone is the chain of Zone::merge over that apex's inputs, its SOA the "
             "last one supplied; on the flat specification the chain is the union of the files' ordinary and wildcard records with "
             "duplicates removed and exactly one apex SOA, the last; a zone representing a flat zone answers as RFC 1034 4.3.2 on "
             "it (from C02's refinement theorem). Model tied to the Rust code by a differential stream that writes generated "
             "configurations to disk and loads them with the real resolved::fs::load_zone_configuration. Composed with C11/C17 and C14 at the model level (Config/ConfigText.v: files hold TEXT, parse_file = read_to_string + Zone::deserialise / Hosts::deserialise): loading text never panics, returns None exactly when a directory cannot be listed or a file cannot be read or its parser returns Err (no premise: parsed hosts names are proved well formed), and for zone files rendering an abstract file (C11_parse_denotes) and hosts files rendering a syntax tree (C14_hosts_parse_denotes) the loaded zone of every apex represents the flat union (last SOA wins, hosts last-writer-wins in the root zone, merged last) of the files' DENOTATIONS (C12_load_text_denotes / _records).",
        note="The link from the record tree to the flat merge (C12_zone_is_chain_of_files) is closed with "
             "Zone/ZoneMergeProofs.v (zone_merge_repr, under the tree invariant 'unique child labels', which every zone built by "
             "insertion has); the earlier premise-carrying form is kept as C12_zone_is_chain_of_files_partial. "
             "The stream's oracle also checks the composed statement (dump = union, one SOA, answers from the "
             "union) on every generated configuration. Files are already-parsed data in the base model; the text level (Config/ConfigText.v) composes the C11/C14 parser MODELS and is proof only -- the stream reaches the real parsers through the real loader; the "
             "file system is assumed not to change during one load; symlinks other than dangling ones and a file used in both "
             "roles are outside the generated inputs.",
        design="5/C12", technique="Coq proof over executable model + model/impl correspondence (extraction)"),
    "C19": dict(
        text="Theorems about the Gallina reload state machine (state = the Zones value inside zones_lock; reload st fs = load fs if "
             "it succeeds, else st; a query reads the state once): a reload installs exactly the freshly loaded configuration or "
             "leaves the previous one fully in force; the new state is a function of the files alone; for every interleaving of "
             "queries and reloads each reply is the reply of exactly one state of the history, each of which is the initial "
             "configuration or the result of one successful load. Tied to the code twice: a differential stream of reload "
             "histories through the real load_zone_configuration, and runs of the REAL resolved binary (release build, "
             "authoritative-only, -Z/-A directories) with edit sequences, SIGUSR1, the 'done - success/failure' log line, and UDP "
             "queries before, during (a thread querying continuously) and after every reload, compared with the model's state "
             "machine; version-stamped records and alias chains across files make a mixed reply match neither configuration. An overlapping-reload scenario (two edits + SIGUSR1, the second during the first reload of a 250 000-line hosts file) checks that the last edit wins. The same state machine over TEXT file systems (C19_reload_text_all_or_nothing, C19_text_query_sees_one_config): the previous state stays exactly when a directory cannot be listed, a file cannot be read or a parser (the C11/C14 models) returns an error on a file's text; otherwise the state is the complete load of those texts. Concurrent tasks (Base/Locks.v, Config/ConfigConcurrent.v): reload_task and the request handlers around a reader-writer lock, the handler holding the read guard over arbitrarily many reads of the configuration with steps of other tasks in between, the reload loading outside the lock and taking the write lock only to store a complete value; for EVERY schedule each reply is query v q for ONE configuration v that is the initial one or the complete load of one delivered SIGUSR1 (C19_concurrent_query_sees_one_config), every configuration ever in force has that origin, a failed load is a no-op for the whole system, writer and readers exclude each other; that main.rs has critical sections of this shape (one read().await bound before resolve(...) and never dropped early; load first, then one write().await storing the loaded value; no try_*/blocking_* variants, no other site) is read from the source on every run (Base/TablesOk.zones_lock_sections_ok).",
        note="That tokio's RwLock provides the exclusion the lock model assumes, signal delivery and liveness (the server keeps "
             "answering) are outside the theorems; they are observed on the real binary (replies during a reload are exactly old "
             "or exactly new, never old after new; overlapping reloads). load is C12's model.",
        design="5/C19", technique="Coq proof over executable model + model/impl correspondence (extraction) + real-binary runs"),
    "C09": dict(
        text="Theorems about the Gallina model of main.rs (triage, resolve_and_build_response, handle_raw_message, the reply paths of "
             "the UDP/TCP listen loops) and util/net.rs (send_udp_bytes_to, send_tcp_bytes, read_tcp_bytes), for EVERY input octet "
             "string and every resolver (the resolver is an abstract function): silence exactly for inputs shorter than 2 octets or "
             "decoding to a message with QR=1, otherwise one reply with the same ID and QR=1; opcode/RD/questions echoed; FORMERR for "
             "undecodable input; NOTIMP for other opcodes; REFUSED exactly for several questions or an unknown type/class; RA = recursion "
             "offered; answers/authority/AA/RCODE are a stated table of the resolver's result (SERVFAIL when it produced nothing); UDP "
             "framing <= 512 with TC exactly when cut and nothing else touched; TCP length prefix exact, TC and cut above 65535; every "
             "serialised message has >= 12 octets so the panic!() sites of util/net.rs are unreachable; short TCP reads give FORMERR "
             "with the id or silence. The answer-section clause is proved outside the known class (referral from an authoritative "
             "zone, F12) with the witness that the class is inhabited. The same reply-or-silence statement holds at the level of "
             "datagrams / TCP connections with no premise about to_octets (udp_served_or_silence, tcp_served): a reply that cannot be "
             "serialised is replaced by its SERVFAIL stand-in (same id/QR/opcode/RD/RA/questions, no records; /repo 35946be), which is "
             "proved to serialise for every reply handle_raw_message builds (fallback_encodes); a witness shows the configuration of the "
             "fixed finding unserialisable-reply-silence answered with SERVFAIL. Pure part proved; model tied to the code by (a) a differential stream through the Rust harness for the framing "
             "functions and make_response, (b) the real release binary driven over loopback UDP/TCP in authoritative-only and "
             "recursive mode, every reply compared with the extracted model's. Composed with the local resolver in authoritative-only mode (Server/ServerLocal.v, ties C09 to C01/C02): the resolver is never asked to recurse, RA = 0 and the reply is a function of the zones and the cache read function (not even of that inside authoritative zones); a standard query with one known question about a name an authoritative zone owns gets AA, NOERROR, exactly that zone's records for the name and type and its SOA in the authority section, or AA, NXDOMAIN, no answer and the SOA; RCODE 3 is sent, for any input, only when the authoritative zone selected for the question name returned NameError.",
        note="NOT proved, only observed on the real binary by every run: 'does not crash and keeps serving' (liveness probe after every "
             "batch, process still running at the end), tokio scheduling, socket errors. Known finding (reported, not failing): "
             "referral-in-answer-with-aa. Fixed finding (a recurrence fails the check): unserialisable-reply-silence (35946be); its UDP "
             "and TCP witness probes run first in every configuration and must get exactly one SERVFAIL reply with their id. The "
             "framing theorems describe the octets of whatever message was serialised. The answer-chain theorem takes the "
             "chain property of the local resolver (C10) and 'the resolver returns' as premises. Recursive mode is modelled and "
             "exercised only with an unreachable upstream; forwarding mode not at all.",
        design="5/C09, 6/F12, 7/D8", technique="Coq proof over executable model + model/impl correspondence (extraction) against the real server binary"),
}

NA_REASON = "not yet implemented in this revision of the framework (planned: see DESIGN.md section 9); not claimed"


def main():
    checks = []
    for pid, c in CLAIMED.items():
        checks.append({
            "property_id": pid,
            "quick_cmd": "./check %s --tier quick" % pid,
            "thorough_cmd": "./check %s --tier thorough" % pid,
            "evidence_file": "evidence/%s.json" % pid,
            "replay_cmd_template": "./check %s --replay {path}" % pid,
            "engine": "coq-model+correspondence",
            "level_claimed": {"category": "proof", "text": c["text"], "design_ref": c["design"]},
            "level_note": BASE_NOTE + " " + c.get("note", ""),
            "technique": c["technique"],
        })
    na = [{"property_id": pid, "reason": NA_REASON} for pid in props if pid not in CLAIMED]
    m = {
        "version": 1,
        "setup_cmd": "./setup",
        "hooks": {
            "guard": "resolved_verif",
            "enable": "RUSTFLAGS=\"--cfg resolved_verif\" cargo build --offline (in /verif/harness, which path-depends on /repo/crates/*)",
            "baseline_off_cmd": "cd /repo && cargo test --workspace --no-fail-fast --offline",
            "source_commits": ['3d242ac', '05bad66', '9ab9fa4'],
            "add_only": True,
        },
        "engines": [{
            "name": "coq-model+correspondence",
            "path": "check",
            "serves_properties": sorted(CLAIMED),
            "kind_free_text": "Coq 8.16.1 proofs over a hand-written executable Gallina model; the model is extracted to OCaml and "
                              "run against the Rust implementation on generated cases every run (correspondence check)",
        }],
        "checks": checks,
        "not_applicable": na,
        "notes": "See DESIGN.md. Known findings: known_findings.json.",
    }
    with open(os.path.join(VERIF, "MANIFEST.json"), "w") as f:
        json.dump(m, f, indent=1)
        f.write("\n")


if __name__ == "__main__":
    main()
