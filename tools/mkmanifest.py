#!/usr/bin/env python3
"""Regenerates MANIFEST.json from the table below (kept in one place so the file always validates)."""
import json
import os

VERIF = os.path.dirname(os.path.dirname(os.path.abspath(__file__)))
props = {}
for line in open(os.path.join(VERIF, "properties.jsonl")):
    p = json.loads(line)
    props[p["id"]] = p

BASE_NOTE = ("Trusted: Coq 8.16.1 kernel + vm_compute; the hand-written Gallina model, tied to /repo on every run by the "
             "correspondence check (extracted model vs. Rust harness on the same generated cases); extraction with ExtrOcamlBasic "
             "only; OCaml/Rust/python glue; table translator. No axioms (Print Assumptions checked each run).")

CLAIMED = {
    "C16": dict(
        text="Theorems about the Gallina model of DomainName/Label (constructors produce well-formed names, completeness of "
             "rejection, case-insensitivity, dotted round trip, subdomain = suffix, zone selection), proved for all inputs; "
             "model tied to the Rust code by a differential stream over boundary-heavy generated inputs.",
        design="5/C16", technique="Coq proof over executable model + model/impl correspondence (extraction)"),
    "C05": dict(
        text="(placeholder, to be refined) Theorems about the Gallina model of SharedCache/Cache/PartitionedCache: the structural "
             "invariant is preserved by every operation and history, the model refines an abstract map from (name, type, data) "
             "to expiry instant, and the C05 corollaries (TTL 0 never stored, re-insert restarts the lifetime without duplicating, "
             "nothing expired is returned, reported TTL <= time left, live records are returned); model tied to the Rust code by "
             "whole-state comparison after every operation of generated histories under a virtual clock.",
        note="Thread schedules and std::sync::Mutex are outside the model (each SharedCache method is one critical section). "
             "PriorityQueue tie-breaking among equal instants is a parameter of the model.",
        design="5/C05 and C15", technique="Coq proof over executable model + model/impl correspondence (extraction)"),
    "C15": dict(
        text="(placeholder, to be refined) Theorems about the Gallina model of SharedCache/Cache/PartitionedCache: the structural "
             "invariant (record count = number of distinct entries, per-name sizes, next_expiry, both queues) is preserved by "
             "every operation and history, the model refines an abstract map, and the C15 corollaries about prune (nothing expired "
             "left, size bound, exact report, whole names in LRU order and only while over size, termination); model tied to the "
             "Rust code by whole-state comparison after every operation of generated histories under a virtual clock.",
        note="Thread schedules and std::sync::Mutex are outside the model (each SharedCache method is one critical section; the "
             "thorough tier of C15 hammers one cache from 2..8 threads and checks the invariant at quiescence). PriorityQueue "
             "tie-breaking among equal instants is a parameter of the model.",
        design="5/C05 and C15", technique="Coq proof over executable model + model/impl correspondence (extraction)"),
}

NA_REASON = "not yet implemented in this revision of the framework (planned: see DESIGN.md section 9); not claimed"


def main():
    checks = []
    for pid, c in CLAIMED.items():
        checks.append({
            "property_id": pid,
            "quick_cmd": "./check %s --tier quick" % pid,
            "thorough_cmd": "./check %s --tier thorough" % pid,
            "evidence_file": "evidence/%s.json" % pid,
            "replay_cmd_template": "./check %s --replay {path}" % pid,
            "engine": "coq-model+correspondence",
            "level_claimed": {"category": "proof", "text": c["text"], "design_ref": c["design"]},
            "level_note": BASE_NOTE + " " + c.get("note", ""),
            "technique": c["technique"],
        })
    na = [{"property_id": pid, "reason": NA_REASON} for pid in props if pid not in CLAIMED]
    m = {
        "version": 1,
        "setup_cmd": "./setup",
        "hooks": {
            "guard": "resolved_verif",
            "enable": "RUSTFLAGS=\"--cfg resolved_verif\" cargo build --offline (in /verif/harness, which path-depends on /repo/crates/*)",
            "baseline_off_cmd": "cd /repo && cargo test --workspace --no-fail-fast --offline",
            "source_commits": ['3d242ac', '05bad66', '9ab9fa4'],
            "add_only": True,
        },
        "engines": [{
            "name": "coq-model+correspondence",
            "path": "check",
            "serves_properties": sorted(CLAIMED),
            "kind_free_text": "Coq 8.16.1 proofs over a hand-written executable Gallina model; the model is extracted to OCaml and "
                              "run against the Rust implementation on generated cases every run (correspondence check)",
        }],
        "checks": checks,
        "not_applicable": na,
        "notes": "See DESIGN.md. Known findings: known_findings.json.",
    }
    with open(os.path.join(VERIF, "MANIFEST.json"), "w") as f:
        json.dump(m, f, indent=1)
        f.write("\n")


if __name__ == "__main__":
    main()
