#!/bin/sh
# tools/runall.sh [tier] : run every claimed check sequentially, print a summary line each
tier=${1:-quick}
cd /verif
for id in $(python3 -c "import json; print(' '.join(c['property_id'] for c in json.load(open('MANIFEST.json'))['checks']))"); do
  s=$(date +%s)
  out=$(./check $id --tier $tier 2>/tmp/runall_$id.err)
  rc=$?
  e=$(date +%s)
  echo "$id rc=$rc $((e-s))s $(echo "$out" | grep -c '^KNOWN-FINDING') known $(echo "$out" | grep '^VIOLATION' | head -1)"
done
