"""C07 -- recursive resolution finds the authoritative answer in any delegation tree."""
from . import resolvergen as rg
from . import tok

ID = "C07"
DRIVER = "resolver"
ML_EXTRA = ("vmsg.ml",)
COQ_TARGETS = ["Properties/C07.vo"]
THEOREMS = ["C07_referral_strictly_deeper", "C07_auth_answer_from_universe", "C07_example_two_level",
            "C07_referral_progress", "C07_no_referral_same_delegation", "C07_answer_provenance", "C07_filter_accepts_plain_answer", "C07_filter_accepts_denial", "C07_filter_accepts_referral", "C07_serve_is_auth_answer", "C07_last_hop_partial", "C07_referral_hop_partial", "C07_universe_oracle_delivers",
            "C07_correct_depth0", "C07_correct_depth1", "C07_sort_names_ord_permutation", "C07_hints_zone_lookup",
            "C07_simple_cache_get_after_insert_all", "C07_example_depth0", "C07_example_depth1",
            "C07_correct_chain", "C07_correct_chain_real_cache", "C07_chain_cache_laws", "C07_example_depth3",
            "C07_empty_cache_consistent", "C07_correct_warm", "C07_correct_warm_real_cache", "C07_warm_cache_laws",
            "C07_example_warm", "C07_sequence", "C07_sequence_outcomes", "C07_example_sequence",
            "C07_correct_alias", "C07_correct_alias_real_cache", "C07_filter_accepts_alias_answer", "C07_alias_sequence",
            "C07_example_alias",
            "C07_correct_modes", "C07_correct_modes_real_cache", "C07_correct_chain_modes", "C07_consistentm_only_v4",
            "C07_example_modes",
            "C07_correct_glueless", "C07_correct_glueless_real_cache", "C07_fuel_monotone", "C07_example_glueless",
            "C07_correct_multizone", "C07_correct_multizone_real_cache", "C07_correct_glueless_multizone",
            "C07_multizone_weakens", "C07_multizone_log_shorter", "C07_example_multizone"]
RULE = ("cases: generated consistent universes (root + a chain of 1..5 nested zones, optional provider branch for "
        "out-of-bailiwick nameserver names, optional second branch for cross-zone aliases; 1..3 nameservers per zone, "
        "in-bailiwick / sibling / out-of-bailiwick names, glue present or absent, v4-only / v6-only / dual addresses; alias "
        "chains of 1..4 links inside a zone, child -> parent, parent -> child, out to another branch and back, ending at an "
        "existing name, a name with other types only, a missing name; optionally zones whose only nameservers are shared "
        "glueless names of another zone, with alias chains leaving such a zone and coming back to one) x "
        "sequences of 1..8 questions sharing one cache (existing names and types, NODATA, NXDOMAIN, empty non-terminals, "
        "in-zone and cross-zone CNAME chains, nameserver host names, apex NS/SOA, >512-byte answers) x 4 protocol modes; "
        "shapes counted by `kind`: rnd = questions drawn from the universe's pool; retypeN = an alias with N >= 2 links asked "
        "for one type and then again for other types (links cached, end of the chain not); apex = existing and missing types "
        "asked AT zone apexes of every depth (root, provider and hosted zones included), cold and with the zone's delegation "
        "cached; hostedN = cold-cache alias chains through zones sharing N glueless out-of-bailiwick nameserver names; "
        "non-trivial = distinct case in which some question needed at least two upstream exchanges")
ASSUMPTIONS = [
    "C07 hypothesis, stated not hidden: every listed nameserver answers (the first candidate that gives no usable reply "
    "ends the resolution with DeadEnd -- the code's own TODO); the generated fault-free universes satisfy it",
    "the oracle applies to universes for which the extracted Universe.consistentb holds and in which every zone has a "
    "nameserver with an address of a family the protocol mode can use",
    "answer equivalence: the CNAME chain in order, the final RRset as a multiset (its order depends on cache Vec order), "
    "TTLs exact (the virtual clock is fixed during a case)",
    "the virtual clock is fixed at 0 during a case: cache expiry between the questions of a sequence is C05's matter",
]
TRUSTED = ["hooks H3 (in-memory UdpSocket/TcpStream) and H5 (sorted candidate order) in /repo under cfg(resolved_verif); "
           "the mock handler of harness/src/resolver.rs (mirrors Universe.reply_of / table_oracle)"]

MODES = ["r4", "rp4", "rp6", "r6"]


def corpus(batch):
    import random
    out = []
    # F11 (fixed 569501d): a nameserver host with two A records asked for by address: the glue answer must hold both
    rng = random.Random(11)
    u = rg.Universe()
    u.add_zone(".", ["a.root-servers."])
    u.add_host("a.root-servers.", "4")
    u.finish_zone(".", [])
    u.add_zone("com.", ["ns1.com."])
    u.add_host("ns1.com.", "4")
    u.finish_zone("com.", ["ns1.com."])
    u.add_zone("example.com.", ["ns1.example.com."])
    u.add_host("ns1.example.com.", "446")
    u.finish_zone("example.com.", ["ns1.example.com."])
    u.zones["example.com."].rrs.append(("www.example.com.", tok.A, 300, rg.v4(0xC0000201)))
    u.chain, u.other = ["com.", "example.com."], None
    for mode in ("rp4", "r6"):
        out.append(rg.CaseBuilder(batch, u, "rp4", 53, [("ns1.example.com.", tok.A), ("ns1.example.com.", tok.AAAA), ("www.example.com.", tok.A)],
                                  flags={"kind": "corpus-glue2", "ff": "1", "modeok": "1"}))
    # cname-question-chased (fixed cbd301d): zone com. holds `alias.com. CNAME www.com.`; the question for the CNAME
    # record itself is answered by that record -- no query for the target, no SOA; likewise when the target lies in
    # a zone nobody can reach (`ext.com. CNAME www.gone.`: the delegation of gone. names a host without address)
    w = rg.Universe()
    w.add_zone(".", ["a.root-servers."])
    w.add_host("a.root-servers.", "4")
    w.finish_zone(".", [])
    w.add_zone("com.", ["ns1.com."])
    w.add_host("ns1.com.", "4")
    w.finish_zone("com.", ["ns1.com."])
    w.zones["com."].rrs += [("www.com.", tok.A, 300, rg.v4(0xC0000201)),
                            ("alias.com.", tok.CNAME, 120, tok.rd_name(tok.name("www.com."))),
                            ("ext.com.", tok.CNAME, 120, tok.rd_name(tok.name("www.gone.")))]
    w.chain, w.other = ["com."], None
    out.insert(0, rg.CaseBuilder(batch, w, "rp4", 53, [("alias.com.", tok.CNAME), ("alias.com.", tok.A), ("alias.com.", tok.CNAME)],
                                 flags={"kind": "corpus-cname-question", "ff": "1", "modeok": "1"}))
    w2 = rg.Universe()
    w2.add_zone(".", ["a.root-servers."])
    w2.add_host("a.root-servers.", "4")
    w2.finish_zone(".", [])
    w2.add_zone("com.", ["ns1.com."])
    w2.add_host("ns1.com.", "4")
    w2.finish_zone("com.", ["ns1.com."])
    w2.zones["com."].rrs += [("ext.com.", tok.CNAME, 120, tok.rd_name(tok.name("www.gone.")))]
    w2.zones["."].cuts.append(("gone.", tok.NS, 3600, tok.rd_name(tok.name("ns.unreachable."))))
    w2.chain, w2.other = ["com."], None
    out.insert(1, rg.CaseBuilder(batch, w2, "rp4", 53, [("ext.com.", tok.CNAME)],
                                 flags={"kind": "corpus-cname-question-unreachable-target", "ff": "1", "modeok": "1", "cnameq": "1"}))
    return out


def plain_universe(zones):
    """zones: [(apex, [(host, family)], glue?)] in creation order (a host's own zone before the zones it serves)"""
    u = rg.Universe()
    for apex, hosts, glue in zones:
        u.add_zone(apex, [h for h, _ in hosts])
        for h, fam in hosts:
            u.add_host(h, fam)
        u.finish_zone(apex, [h for h, _ in hosts] if glue else [])
    u.chain, u.other = [a for a, _, _ in zones if a != "."], None
    return u


def corpus_shapes(batch):
    """the situations the seeded reviews found missing, as small fixed universes"""
    out = []
    A, TXT, AAAA, MX, NS = tok.A, tok.TXT, tok.AAAA, tok.MX, tok.NS

    def add(u, qs, kind, mode="rp4"):
        out.append(rg.CaseBuilder(batch, u, mode, 53, qs, flags={"kind": kind, "ff": "1", "modeok": "1"}))

    # (1) an alias of two / three links, across zones and inside one, asked for one type and then for another: the
    # links come from the cache, the end of the chain from upstream; every link is listed once
    u = plain_universe([(".", [("a.root-servers.", "4")], False), ("one.", [("ns1.one.", "4")], True),
                        ("two.", [("ns1.two.", "4")], True), ("three.", [("ns1.three.", "4")], True)])
    rg.add_alias(u, "alias.one.", "mid.two.")
    rg.add_alias(u, "mid.two.", "host.three.")
    u.zones["three."].rrs += [("host.three.", A, 300, rg.v4(0xC0000201)), ("in1.three.", tok.CNAME, 60, tok.rd_name(tok.name("in2.three."))),
                              ("in2.three.", tok.CNAME, 60, tok.rd_name(tok.name("in3.three."))),
                              ("in3.three.", tok.CNAME, 60, tok.rd_name(tok.name("host.three.")))]
    rg.add_alias(u, "single.one.", "host.three.")
    for qs in ([("alias.one.", A), ("alias.one.", TXT)], [("alias.one.", TXT), ("alias.one.", A)],
               [("alias.one.", A), ("alias.one.", AAAA), ("alias.one.", MX), ("alias.one.", A)],
               [("in1.three.", A), ("in1.three.", TXT)], [("in1.three.", MX), ("in2.three.", TXT), ("in1.three.", A)],
               [("in2.three.", A), ("in1.three.", TXT)], [("single.one.", A), ("single.one.", TXT)]):
        add(u, qs, "corpus-retype")
    # (2) a type that does not exist AT a zone apex (question name = SOA owner), at every depth: empty answer + SOA
    u = plain_universe([(".", [("a.root-servers.", "4")], False), ("corp.", [("ns1.corp.", "4")], True),
                        ("dept.corp.", [("ns1.dept.corp.", "4")], True), ("lab.dept.corp.", [("ns1.lab.dept.corp.", "46")], True)])
    u.zones["corp."].rrs += [("corp.", MX, 300, tok.rd_mx(10, tok.name("mail.corp."))), ("www.corp.", A, 300, rg.v4(0xC0000211))]
    u.zones["dept.corp."].rrs += [("www.dept.corp.", A, 300, rg.v4(0xC0000212))]
    for qs in ([("corp.", A)], [("dept.corp.", AAAA)], [("lab.dept.corp.", TXT)], [(".", A)], [(".", TXT), ("corp.", TXT)],
               [("www.corp.", A), ("corp.", A), ("corp.", MX)], [("www.dept.corp.", A), ("dept.corp.", A), ("corp.", AAAA)],
               [("corp.", NS), ("corp.", A)], [("lab.dept.corp.", MX), ("dept.corp.", MX), ("corp.", MX), (".", MX)]):
        add(u, qs, "corpus-apex-nodata")
    # (3) two zones on one alias chain whose only nameserver is the same glueless name of a third zone: the name is
    # resolved by a nested resolution on the way into the first zone and needed again for the second one
    for shared in (["ns.hoster."], ["ns.hoster.", "nsb.hoster."]):
        u = plain_universe([(".", [("a.root-servers.", "4")], False), ("hoster.", [("ns1.hoster.", "4")], True),
                            ("m.", [("ns1.m.", "4")], True)])
        for h in shared:
            u.add_host(h, "4")
        for apex in ("a.", "b.", "sub.b."):
            u.add_zone(apex, shared)
            u.finish_zone(apex, [])
        rg.add_alias(u, "www.a.", "www.m.")
        rg.add_alias(u, "www.m.", "www.b.")
        rg.add_alias(u, "back.a.", "back.m.")
        rg.add_alias(u, "back.m.", "host.a.")
        rg.add_alias(u, "deep.m.", "www.sub.b.")
        rg.add_alias(u, "deep.a.", "deep.m.")
        u.zones["b."].rrs.append(("www.b.", A, 300, rg.v4(0x0A030002)))
        u.zones["a."].rrs.append(("host.a.", A, 300, rg.v4(0x0A030003)))
        u.zones["sub.b."].rrs.append(("www.sub.b.", A, 300, rg.v4(0x0A030004)))
        u.chain = ["hoster.", "m.", "a.", "b.", "sub.b."]
        for mode in ("r4", "rp4", "rp6"):
            for qs in ([("www.a.", A)], [("back.a.", A)], [("deep.a.", A)], [("www.a.", TXT), ("www.a.", A)]):
                add(u, qs, "corpus-shared-glueless-ns%d" % len(shared), mode)
        add(u, [("www.m.", A), ("www.b.", A), ("host.a.", A), ("ns.hoster.", A), ("www.a.", A)], "corpus-shared-glueless-ns%d" % len(shared))
    return out


def generate(rng, tier):
    n = 500 if tier == "quick" else 6000
    batch = rg.Batch()
    builders = corpus(batch) + corpus_shapes(batch)
    while len(builders) < n:
        shape = rng.choice(["rnd"] * 9 + ["retype"] * 4 + ["apex"] * 3 + ["hosted"] * 4)
        u = rg.gen_universe(rng)
        rg.enrich_universe(rng, u, hosted=True if shape == "hosted" else None)
        usable = [m for m in MODES if rg.mode_ok(u, m)]
        mode = rng.choice(MODES if shape == "rnd" or not usable else usable)
        if shape == "retype":
            qs, links = rg.retype_sequence(rng, u)
            kind = "retype%d" % links
        elif shape == "apex":
            qs = rg.apex_sequence(rng, u)
            kind = "apex"
        elif shape == "hosted":
            qs = rg.hosted_sequence(rng, u)
            kind = "hosted%d" % len(u.zones["one."].ns)
        else:
            k = rng.choice([1, 2, 3, 4, 6, 8])
            pool = u.questions
            qs = [(a, b) for a, b, _ in (rng.choice(pool) for _ in range(k))]
            if rng.random() < 0.3 and len(qs) > 1:
                qs[-1] = qs[0]                       # the same question again: answered from the cache
            kind = "rnd-d%d" % len(u.chain)
        builders.append(rg.CaseBuilder(batch, u, mode, 53, qs,
                                       flags={"kind": kind, "ff": "1", "modeok": "1" if rg.mode_ok(u, mode) else "0"}))
    outs = batch.run()
    return [b.line(outs) for b in builders]


def split_chain(rrs, qtype):
    """rr tokens -> (leading CNAMEs in order, the rest sorted)"""
    i = 0
    if qtype not in (tok.CNAME, tok.ANY):
        while i < len(rrs) and tok.parse_rr(rrs[i])["type"] == tok.CNAME:
            i += 1
    return rrs[:i], sorted(rrs[i:])


def server_depth(case, ip, qname):
    best = 0
    for apex in case.servers.get(ip, []):
        if rg.is_sub(qname, apex):
            best = max(best, rg.nlabels(apex))
    return best


def oracle(case, impl, model):
    try:
        c = rg.Case(case)
        if impl == "Panic":
            return ("panic", "the resolver panicked")
        parsed = rg.parse_result(impl)
        if parsed is None:
            return None
        results, _cache = parsed
        if not c.mode.startswith("r") or not c.fault_free:
            return None
        for r in results:
            if r.kind == "Panic":
                return ("panic", "the resolver panicked")
        # each referral followed is strictly deeper: within a run of consecutive UDP exchanges asking the same
        # question, the zone the contacted server holds for that name gets strictly deeper
        # (whether a reply was a referral is known from the universe: the server's zone for the name is not the
        # deepest one; a referral is followed within the same invocation, so the next exchange asking the same
        # question belongs to it)
        if c.flags.get("cnameq") == "1":
            # corpus: a CNAME question whose target nobody can resolve is still answered by the CNAME record
            for (qn, qt, qc), r, (defined, exp_rrs, exp_soa) in zip(c.questions, results, c.auth):
                if qt == tok.CNAME and defined and exp_rrs and not (r.kind == "N" and r.rrs == exp_rrs and r.soa is None):
                    return ("cname-question-chased", "%s type 5: a question for the CNAME record itself is chased like an alias: got %s"
                            % (rg.tokname(qn), r.raw[:120]))
        if not c.consistent or c.flags.get("modeok") != "1":
            # (in a universe with a zone the protocol mode cannot reach, an invocation can end right after a
            # referral, all its candidates being unresolvable, and a later one ask the same question afresh)
            return None
        apexes = {a for l in c.servers.values() for a in l}
        for (qn, qt, qc), r in zip(c.questions, results):
            prev = None
            for e in r.log:
                if e.kind != "U":
                    continue
                key = (e.qname, e.qtype)
                name = rg.tokname(e.qname)
                d = server_depth(c, e.ip, name)
                if prev is not None and prev[0] == key and prev[2] and d <= prev[1]:
                    return ("referral-not-deeper", "question %s type %d went from a server for a %d-label zone to one for a %d-label zone"
                            % (name, e.qtype, prev[1], d))
                deepest = max([rg.nlabels(a) for a in apexes if rg.is_sub(name, a)] or [0])
                prev = (key, d, d > 0 and deepest > d)
        if c.flags.get("modeok") != "1":
            return None
        for (qn, qt, qc), r, (defined, exp_rrs, exp_soa) in zip(c.questions, results, c.auth):
            if not defined or qt == tok.ANY:
                continue
            what = "%s type %d" % (rg.tokname(qn), qt)
            if qt == tok.CNAME and exp_rrs and tok.parse_rr(exp_rrs[0])["type"] == tok.CNAME and exp_soa is None \
                    and not (r.kind == "N" and r.rrs == exp_rrs and r.soa is None):
                # the authoritative answer to a CNAME question is the CNAME record itself
                return ("cname-question-chased", "%s: a question for the CNAME record itself is chased like an alias: got %s"
                        % (what, r.raw[:120]))
            if r.kind not in ("N", "A"):
                return ("wrong-answer", "%s: expected the authoritative answer, got %s" % (what, r.raw[:80]))
            ec, ef = split_chain(exp_rrs, qt)
            gc, gf = split_chain(r.rrs, qt)
            if ec != gc:
                return ("wrong-answer", "%s: CNAME chain differs from the authoritative one" % what)
            if ef != gf:
                return ("wrong-answer", "%s: final record set differs from the authoritative one" % what)
            if exp_soa is not None:
                if r.soa != exp_soa:
                    return ("wrong-answer", "%s: missing name or type answered without the zone's SOA" % what)
            elif r.kind == "N" and r.soa is not None:
                return ("wrong-answer", "%s: a positive answer carries an SOA" % what)
    except Exception:  # malformed output is a correspondence matter
        return None
    return None


def nontrivial(case, model):
    p = rg.parse_result(model)
    return p is not None and any(sum(1 for e in r.log if e.kind == "U") >= 2 for r in p[0])


def kind(case, model):
    c = rg.Case(case)
    p = rg.parse_result(model)
    tag = "?"
    if p:
        tag = "".join(sorted({r.kind[0] for r in p[0]}))
    return "%s:%s:%s" % (c.flags.get("kind", "?"), c.mode, tag)


# ---------------------------------------------------------------------------------------------------------
# "answers already cached from earlier questions" across the prune the server runs after every request
# ---------------------------------------------------------------------------------------------------------
def _cached_answer_cases(rng, n):
    """a multi-record answer is cached (insert_all, as resolve_with_nameserver_response does), further answers for
    other names follow, the over-size cache is pruned, the first question is asked again"""
    cases = []
    names = ["61.-", "62.-", "63.-", "64.-", "65.-"]
    for _ in range(n):
        desired = rng.choice([1, 2, 3, 4, 5, 6])
        ops = []
        sets = {}
        for nm in rng.sample(names, rng.randint(2, 5)):
            k = rng.choice([1, 2, 3, 3, 4, 6])
            ops.append("T~%d" % rng.choice([1, 1, 1000000000]))
            ops.append("A~" + ";".join("%s:1:1:%d:a%d" % (nm, rng.choice([300, 300, 3600]), j + 1) for j in range(k)))
            sets[nm] = k
            if rng.random() < 0.3:
                ops += ["T~1", "G~%s~1" % rng.choice(list(sets))]
        ops += ["T~1", "P", "T~1"]
        asked = list(sets)
        rng.shuffle(asked)
        ops += ["G~%s~1" % nm for nm in asked]
        cases.append(("cache H %d %s" % (desired, "|".join(ops)), [sets[nm] for nm in asked]))
    return cases


def extra(ctx):
    from . import core
    n = 300 if ctx["tier"] == "quick" else 6000
    for what, f in (("model", core.build_model_driver), ("impl", core.build_impl_driver)):
        ok, out = f("cache")
        if not ok:
            return ([core.Failure("cache-driver-build", "%s driver of the cache stream failed to build: %s"
                                  % (what, core.trunc(out[-600:], 600)), found_input=False)], {})
    cs = _cached_answer_cases(ctx["rng"], n)
    cases = [c for c, _ in cs]
    mo = core.run_sharded(core.model_driver_path("cache"), cases, ctx["run_dir"], "c07cache-model")
    io = core.run_sharded(core.impl_driver_path("cache"), cases, ctx["run_dir"], "c07cache-impl")
    fails = []
    dis = 0
    partial_possible = 0
    for (c, ks), m, i in zip(cs, mo, io):
        segs = i.split("|")
        gets = [s.split("!")[0] for s in segs if s.startswith("L")][-len(ks):]
        bad = None
        if len(gets) != len(ks):
            bad = "the cache driver did not complete the history: %s" % core.trunc(i, 200)
        else:
            for g, k in zip(gets, ks):
                cnt = 0 if g == "L_" else len(g[1:].split(";"))
                if cnt not in (0, k):
                    bad = ("a cached answer of %d records is served with %d of them after a prune: an earlier question's "
                           "answer must stay whole or go whole" % (k, cnt))
                    break
            if any(k > 1 for k in ks):
                partial_possible += 1
        if bad:
            fails.append(core.Failure("cached-answer-cut", bad, c, i, m))
        elif m != i:
            dis += 1
            if dis <= 3:
                fails.append(core.Failure("cached-answer-correspondence",
                                          "cache model and implementation disagree on a cached-answer history", c, i, m,
                                          found_input=False))
    return fails, {"cached_answer_cases": len(cases), "cached_answer_disagreements": dis, "evaluations": len(cases),
                   "distinct_nontrivial": partial_possible}
