"""Core of the /verif/check machinery (DESIGN section 4).

A property module (vlib/p_cXX.py) provides:
  ID            property id
  COQ_TARGETS   list of .vo targets (relative to /verif/coq) holding its theorems
  THEOREMS      list of theorem names (in RV.Properties.<ID>) to Print Assumptions on
  generate(rng, tier) -> list[str]         case lines, corpus first
  nontrivial(case, model_out) -> bool      the evidence rule
  RULE          text of that rule
  oracle(case, impl_out, model_out) -> None | (class, text)
                the *property itself* evaluated on the implementation's output;
                used to search for a concrete failing input when a correspondence
                or proof breaks, and always on every case
  canonical(case, out) -> str              optional
  extra(ctx) -> list[Failure]              optional further checks (real binaries, ...)
"""
import fcntl
import hashlib
import json
import os
import random
import re
import subprocess
import sys
import time

VERIF = os.path.dirname(os.path.dirname(os.path.abspath(__file__)))
REPO = os.environ.get("VERIF_REPO", "/repo")
BUILD = os.path.join(VERIF, "build")
COQ = os.path.join(VERIF, "coq")
OCAML_SRC = os.path.join(VERIF, "ocaml")
OCAML_BUILD = os.path.join(BUILD, "ocaml")
HARNESS = os.path.join(VERIF, "harness")
TARGET = os.path.join(BUILD, "target")
GUARD = "resolved_verif"

AXIOM_ALLOW = set()  # names of standard-library axioms tolerated under property theorems (none needed so far)

FORBIDDEN = re.compile(
    r"\b(Admitted|admit|Axiom|Axioms|Parameter|Parameters|Conjecture|Conjectures|"
    r"Unset\s+Guard\s+Checking|Unset\s+Positivity\s+Checking|Unset\s+Universe\s+Checking|"
    r"bypass_check|Admit\s+Obligations|give_up)\b")


def log(*a):
    print(*a, file=sys.stderr, flush=True)


def sh(cmd, cwd=None, env=None, timeout=None, inp=None):
    e = dict(os.environ)
    e["CARGO_NET_OFFLINE"] = "true"
    if env:
        e.update(env)
    p = subprocess.run(cmd, cwd=cwd, env=e, timeout=timeout, input=inp,
                       stdout=subprocess.PIPE, stderr=subprocess.STDOUT, text=True)
    return p.returncode, p.stdout


class Lock:
    def __init__(self, name):
        os.makedirs(BUILD, exist_ok=True)
        self.path = os.path.join(BUILD, name + ".lock")

    def __enter__(self):
        self.f = open(self.path, "w")
        fcntl.flock(self.f, fcntl.LOCK_EX)
        return self

    def __exit__(self, *a):
        fcntl.flock(self.f, fcntl.LOCK_UN)
        self.f.close()


def file_hash(paths):
    h = hashlib.sha256()
    for p in sorted(paths):
        h.update(p.encode())
        try:
            with open(p, "rb") as f:
                h.update(f.read())
        except OSError:
            h.update(b"<missing>")
    return h.hexdigest()


# --------------------------------------------------------------------------
# Coq side
# --------------------------------------------------------------------------

def coq_sources():
    out = []
    for d, _, fs in os.walk(COQ):
        for f in fs:
            if f.endswith(".v"):
                out.append(os.path.join(d, f))
    return sorted(out)


def run_tables():
    rc, out = sh([sys.executable, os.path.join(VERIF, "tools", "tables.py")])
    return rc, out


def ensure_makefile():
    """(Re)generate coq/Makefile from _CoqProject, keeping only files that exist (a
    listed but not yet written file would break every target)."""
    mk = os.path.join(COQ, "Makefile")
    cp = os.path.join(COQ, "_CoqProject")
    lines = []
    with open(cp) as f:
        for line in f:
            t = line.strip()
            if t.endswith(".v") and not t.startswith("-") and not os.path.exists(os.path.join(COQ, t)):
                continue
            lines.append(line if line.endswith("\n") else line + "\n")
    text = "".join(lines)
    gen = os.path.join(COQ, "_CoqProject.gen")
    old = open(gen).read() if os.path.exists(gen) else None
    if old != text or not os.path.exists(mk):
        with open(gen, "w") as f:
            f.write(text)
        rc, out = sh(["coq_makefile", "-f", "_CoqProject.gen", "-o", "Makefile"], cwd=COQ)
        if rc != 0:
            raise RuntimeError("coq_makefile failed: " + out)


def coq_make(targets, timeout=3000):
    """Build .vo targets.  Returns (ok, log)."""
    with Lock("coq"):
        rc0, tout = run_tables()
        ensure_makefile()
        rc, out = sh(["make", "-j16"] + list(targets), cwd=COQ, timeout=timeout)
        return rc == 0 and rc0 == 0, tout + out


def forbidden_vernacular():
    bad = []
    for p in coq_sources():
        with open(p, encoding="utf-8") as f:
            src = f.read()
        # strip comments (nested)
        res = []
        depth = 0
        i = 0
        while i < len(src):
            if src.startswith("(*", i):
                depth += 1
                i += 2
            elif src.startswith("*)", i) and depth > 0:
                depth -= 1
                i += 2
            else:
                if depth == 0:
                    res.append(src[i])
                i += 1
        code = "".join(res)
        for m in FORBIDDEN.finditer(code):
            bad.append("%s: %s" % (os.path.relpath(p, COQ), m.group(0)))
    return bad


def print_assumptions(pid, theorems):
    """Returns dict theorem -> list of axiom names ([] = closed)."""
    os.makedirs(os.path.join(BUILD, "pa"), exist_ok=True)
    path = os.path.join(BUILD, "pa", "PA_%s_%d.v" % (pid, os.getpid()))
    with open(path, "w") as f:
        f.write("From RV Require Import Properties.%s.\n" % pid)
        for t in theorems:
            f.write('Goal True. idtac "BEGIN %s". Abort.\nPrint Assumptions %s.\n' % (t, t))
        f.write('Goal True. idtac "END". Abort.\n')
    rc, out = sh(["coqc", "-Q", COQ, "RV", "-noglob", path], cwd=os.path.join(BUILD, "pa"), timeout=600)
    for ext in (".v", ".vo", ".vos", ".vok", ".glob"):
        try:
            os.remove(path[:-2] + ext)
        except OSError:
            pass
    if rc != 0:
        return None, out
    res = {}
    cur = None
    for line in out.splitlines():
        m = re.match(r"BEGIN (\S+)", line)
        if m:
            cur = m.group(1)
            res[cur] = []
            continue
        if line.startswith("END"):
            cur = None
            continue
        if cur is None:
            continue
        if "Closed under the global context" in line or line.startswith("Axioms:") or not line.strip():
            continue
        m = re.match(r"^(\S+)\s*:", line)
        if m and not line.startswith(" "):
            res[cur].append(m.group(1))
    return res, out


def coq_deps(target_v):
    """Transitive .v dependencies of a .v file inside the project (by Require lines)."""
    seen = set()
    todo = [target_v]
    while todo:
        p = todo.pop()
        if p in seen or not os.path.exists(p):
            continue
        seen.add(p)
        with open(p, encoding="utf-8") as f:
            src = f.read()
        for m in re.finditer(r"From\s+RV\s+Require\s+(?:Import\s+|Export\s+)?((?:[A-Za-z_][\w]*(?:\.[A-Za-z_][\w]*)*\s*)+)\.(?:\s|$)", src):
            for mod in m.group(1).split():
                todo.append(os.path.join(COQ, mod.replace(".", "/") + ".v"))
    return sorted(seen)


def count_obligations(target_vs):
    """Number of Qed-closed statements in the transitive dependencies."""
    files = set()
    for t in target_vs:
        files.update(coq_deps(os.path.join(COQ, t[:-1] if t.endswith(".vo") else t)))
    n = 0
    per = {}
    for p in files:
        with open(p, encoding="utf-8") as f:
            c = len(re.findall(r"\b(?:Qed|Defined)\.", f.read()))
        per[os.path.relpath(p, COQ)] = c
        n += c
    return n, per


# --------------------------------------------------------------------------
# model driver (extraction + OCaml)
# --------------------------------------------------------------------------

def model_driver_path(name):
    return os.path.join(BUILD, "model_" + name)


def build_model_driver(name, ml_extra=()):
    """Extract coq/Extract/Extract<Name>.v and link it with ocaml/{vutil,vmain,drv_name,vrr}.ml (as
    needed), ocaml/drv_<name>.ml and ocaml/main_<name>.ml into build/model_<name>."""
    cap = name[0].upper() + name[1:]
    with Lock("coq"):
        run_tables()
        ensure_makefile()
        ext = os.path.join(COQ, "Extract", "Extract%s.v" % cap)
        deps = [p for p in coq_deps(ext) if p != ext]
        vos = [os.path.relpath(p, COQ) + "o" for p in deps]
        if not vos:
            return False, "no dependencies found for " + ext
        rc, out = sh(["make", "-j16"] + vos, cwd=COQ, timeout=3000)
        if rc != 0:
            return False, out
    mls = ["vutil.ml", "vmain.ml", "drv_name.ml"]
    if name != "name":
        mls += ["vrr.ml"] + list(ml_extra) + ["drv_%s.ml" % name]
    mls += ["main_%s.ml" % name]
    with Lock("ocaml_" + name):
        srcs = deps + [ext] + [os.path.join(OCAML_SRC, f) for f in mls]
        h = file_hash(srcs)
        stamp = os.path.join(BUILD, "model_%s.hash" % name)
        exe = model_driver_path(name)
        if os.path.exists(exe) and os.path.exists(stamp) and open(stamp).read() == h:
            return True, "model driver up to date"
        bdir = os.path.join(BUILD, "ocaml_" + name)
        os.makedirs(bdir, exist_ok=True)
        for f in os.listdir(bdir):
            os.remove(os.path.join(bdir, f))
        rc, out = sh(["coqc", "-Q", COQ, "RV", "-noglob", "-o", os.path.join(bdir, "Extract%s.vo" % cap), ext], cwd=bdir, timeout=600)
        if rc != 0:
            return False, out
        extracted = {f[:-3] for f in os.listdir(bdir) if f.endswith(".ml")}
        for f in mls:
            # vrr.ml needs WireTypes; skip it when the subsystem does not extract it
            if f == "vrr.ml" and "WireTypes" not in extracted:
                continue
            with open(os.path.join(OCAML_SRC, f)) as a, open(os.path.join(bdir, f), "w") as b:
                b.write(a.read())
        files = [f for f in os.listdir(bdir) if f.endswith(".ml") or f.endswith(".mli")]
        rc, order = sh(["ocamlfind", "ocamldep", "-sort"] + files, cwd=bdir)
        if rc != 0:
            return False, order
        rc, out2 = sh(["ocamlfind", "ocamlopt", "-w", "-a", "-O2"] + order.split() + ["-o", exe], cwd=bdir, timeout=900)
        if rc != 0:
            rc, out2 = sh(["ocamlfind", "ocamlopt", "-w", "-a"] + order.split() + ["-o", exe], cwd=bdir, timeout=900)
        if rc != 0:
            return False, out2
        with open(stamp, "w") as f:
            f.write(h)
        return True, out + out2


# --------------------------------------------------------------------------
# impl driver (Rust harness against /repo's working tree, hooks on)
# --------------------------------------------------------------------------

def build_impl_driver(name):
    with Lock("cargo"):
        lock_src = os.path.join(REPO, "Cargo.lock")
        lock_dst = os.path.join(HARNESS, "Cargo.lock")
        # start from /repo's lock file every time; cargo adds the harness package itself
        try:
            with open(lock_src) as a:
                want = a.read()
            stamp = os.path.join(BUILD, "cargo.lock.hash")
            hh = hashlib.sha256(want.encode()).hexdigest()
            if not os.path.exists(lock_dst) or not os.path.exists(stamp) or open(stamp).read() != hh:
                with open(lock_dst, "w") as b:
                    b.write(want)
                os.makedirs(BUILD, exist_ok=True)
                with open(stamp, "w") as f:
                    f.write(hh)
        except OSError:
            pass
        env = {"RUSTFLAGS": "--cfg " + GUARD, "CARGO_TARGET_DIR": TARGET}
        rc, out = sh(["cargo", "build", "--offline", "--bin", "impl_" + name], cwd=HARNESS, env=env, timeout=3000)
        return rc == 0, out


def impl_driver_path(name):
    return os.path.join(TARGET, "debug", "impl_" + name)


RELEASE_TARGET = os.path.join(BUILD, "target-release")
RELEASE_PACKAGES = ["resolved", "htoh", "htoz", "ztoh", "ztoz"]


def build_release_binaries(packages=None):
    """Release build of the real binaries from /repo's working tree, guard OFF."""
    pk = packages or RELEASE_PACKAGES
    with Lock("cargo"):
        args = ["cargo", "build", "--offline", "--release"]
        for p in pk:
            args += ["-p", p]
        env = {"CARGO_TARGET_DIR": RELEASE_TARGET, "RUSTFLAGS": ""}
        rc, out = sh(args, cwd=REPO, env=env, timeout=3000)
        return rc == 0, out


def release_binary(name):
    return os.path.join(RELEASE_TARGET, "release", name)


# --------------------------------------------------------------------------
# running streams
# --------------------------------------------------------------------------

def run_sharded(binary, cases, workdir, tag, nshards=None, timeout=3000, env=None):
    """Run `binary` over the case lines, sharded; returns list of output lines
    (len == len(cases)) or raises."""
    n = len(cases)
    if nshards is None:
        nshards = max(1, min(16, n // 200))
    os.makedirs(workdir, exist_ok=True)
    procs = []
    bounds = [(i * n) // nshards for i in range(nshards + 1)]
    e = dict(os.environ)
    if env:
        e.update(env)
    for i in range(nshards):
        chunk = cases[bounds[i]:bounds[i + 1]]
        inp = os.path.join(workdir, "%s.%d.in" % (tag, i))
        outp = os.path.join(workdir, "%s.%d.out" % (tag, i))
        with open(inp, "w") as f:
            f.write("\n".join(chunk) + ("\n" if chunk else ""))
        fi = open(inp)
        fo = open(outp, "w")
        procs.append((subprocess.Popen([binary], stdin=fi, stdout=fo, stderr=subprocess.DEVNULL, env=e), fi, fo, outp, len(chunk)))
    outs = []
    t0 = time.time()
    for p, fi, fo, outp, cnt in procs:
        try:
            p.wait(timeout=max(1, timeout - (time.time() - t0)))
        except subprocess.TimeoutExpired:
            p.kill()
        fi.close()
        fo.close()
        with open(outp) as f:
            lines = f.read().split("\n")
        if lines and lines[-1] == "":
            lines.pop()
        if len(lines) < cnt:
            # the driver died (stack overflow, abort): mark the first missing case
            lines = lines + ["DRIVER-DIED rc=%s" % p.returncode] + ["DRIVER-DIED-AFTER"] * (cnt - len(lines) - 1)
        outs.extend(lines[:cnt])
    return outs


class Failure:
    def __init__(self, klass, text, case=None, impl=None, model=None, found_input=True):
        self.klass = klass
        self.text = text
        self.case = case
        self.impl = impl
        self.model = model
        self.found_input = found_input

    def to_json(self):
        return {"class": self.klass, "what": self.text, "case": self.case, "impl": self.impl,
                "model": self.model, "failing_input_found": self.found_input}


def load_known():
    p = os.path.join(VERIF, "known_findings.json")
    if not os.path.exists(p):
        return []
    with open(p) as f:
        return json.load(f)


def trunc(s, n=400):
    s = str(s)
    return s if len(s) <= n else s[:n] + "...(%d chars)" % len(s)


def main_check(mod, argv):
    import argparse
    ap = argparse.ArgumentParser()
    ap.add_argument("--tier", default=os.environ.get("VERIF_TIER", "quick"))
    ap.add_argument("--replay", default=None)
    ap.add_argument("--seed", type=int, default=int(os.environ.get("VERIF_SEED", "1")))
    args = ap.parse_args(argv)
    tier = args.tier if args.tier in ("quick", "thorough") else "quick"
    pid = mod.ID
    t0 = time.time()
    rng = random.Random(args.seed * 1000003 + sum(map(ord, pid)))
    run_dir = os.path.join(BUILD, "run", "%s-%s-%d" % (pid, tier, os.getpid()))
    os.makedirs(run_dir, exist_ok=True)
    failures = []       # property failures with a concrete input
    broken = []         # broken obligations / correspondences
    notes = []

    # 1. proofs
    # Base/TablesOk.vo: the lemmas about the tables regenerated from the Rust source (every property)
    targets = list(getattr(mod, "COQ_TARGETS", ["Properties/%s.vo" % pid])) + ["Base/TablesOk.vo"]
    ok, out = coq_make(targets)
    nobl, per_file = count_obligations(targets)
    discharged = nobl if ok else 0
    axioms = {}
    if not ok:
        m = re.search(r'File "\./([^"]+)", line (\d+)', out)
        where = "%s:%s" % (m.group(1), m.group(2)) if m else "unknown"
        broken.append(("proof", "Coq build of %s failed at %s" % (pid, where), trunc(out[-1500:], 1500)))
    else:
        axioms, paout = print_assumptions(pid, mod.THEOREMS)
        if axioms is None:
            broken.append(("proof", "Print Assumptions failed", trunc(paout, 1500)))
            axioms = {}
        else:
            for t, ax in axioms.items():
                for a in ax:
                    if a not in AXIOM_ALLOW:
                        broken.append(("axiom", "theorem %s depends on %s" % (t, a), ""))
            missing = [t for t in mod.THEOREMS if t not in axioms]
            if missing:
                broken.append(("proof", "theorems missing: %s" % missing, ""))
    coqchk_summary = None
    if ok and tier == "thorough" and not args.replay:
        # independent re-check of the compiled property file and everything it depends on
        rc_c, out_c = sh(["coqchk", "-o", "-silent", "-Q", ".", "RV", "RV.Properties.%s" % pid], cwd=COQ, timeout=3000)
        m = re.search(r"\* Axioms:(.*?)\n\s*\n\* Constants/Inductives relying on type-in-type:(.*?)\n", out_c, re.S)
        coqchk_summary = trunc(out_c[out_c.find("CONTEXT SUMMARY"):], 1500)
        if rc_c != 0:
            broken.append(("coqchk", "coqchk failed on Properties/%s.vo" % pid, trunc(out_c[-1500:], 1500)))
        elif not m or "<none>" not in m.group(1):
            ax = m.group(1).strip() if m else "?"
            if ax not in AXIOM_ALLOW:
                broken.append(("coqchk", "coqchk reports axioms: %s" % ax, ""))
    bad = forbidden_vernacular()
    if bad:
        broken.append(("forbidden", "forbidden vernacular: %s" % bad[:5], ""))

    # 2/3. drivers
    drv = getattr(mod, "DRIVER", None)
    need_model = getattr(mod, "NEED_MODEL", True)
    need_impl = getattr(mod, "NEED_IMPL", True)
    drivers_ok = True
    if need_model:
        ok2, out2 = build_model_driver(drv, getattr(mod, "ML_EXTRA", ()))
        if not ok2:
            drivers_ok = False
            broken.append(("model-build", "model driver build failed", trunc(out2[-1500:], 1500)))
    if need_impl:
        ok3, out3 = build_impl_driver(drv)
        if not ok3:
            drivers_ok = False
            broken.append(("impl-build", "harness build against /repo failed (hooks on)", trunc(out3[-2500:], 2500)))

    # 4. correspondence
    cases = []
    stats = {}
    evaluations = 0
    distinct_nontrivial = 0
    samples = []
    disagreements = []
    if drivers_ok and hasattr(mod, "generate"):
        if args.replay:
            with open(args.replay) as f:
                rp = json.load(f)
            cases = [x["case"] for x in rp.get("failures", []) if x.get("case")]
        else:
            cases = mod.generate(rng, tier)
        env = getattr(mod, "ENV", None)
        # a driver that hangs (a loop in the code under test) must not stall the check for an hour
        stream_timeout = getattr(mod, "STREAM_TIMEOUT", 900 if tier == "quick" else 3000)
        mouts = run_sharded(model_driver_path(drv), cases, run_dir, "model", env=env, timeout=stream_timeout)
        iouts = run_sharded(impl_driver_path(drv), cases, run_dir, "impl", env=env, timeout=stream_timeout)
        canon = getattr(mod, "canonical", lambda c, o: o)
        seen = set()
        for c, mo, io in zip(cases, mouts, iouts):
            evaluations += 1
            mo_c, io_c = canon(c, mo), canon(c, io)
            if c not in seen:
                seen.add(c)
                if mod.nontrivial(c, mo_c):
                    distinct_nontrivial += 1
            k = mod.kind(c, mo_c) if hasattr(mod, "kind") else c.split(" ")[1]
            stats[k] = stats.get(k, 0) + 1
            f = mod.oracle(c, io_c, mo_c)
            if f is not None:
                failures.append(Failure(f[0], f[1], c, io_c, mo_c))
            if mo_c != io_c:
                disagreements.append((c, mo_c, io_c))
        step = max(1, len(cases) // 6)
        samples = [{"case": trunc(c, 300), "model": trunc(canon(c, m), 200), "impl": trunc(canon(c, i), 200)}
                   for c, m, i in list(zip(cases, mouts, iouts))[::step][:8]]
        if disagreements:
            # did the oracle find a concrete property failure among them?
            failing_cases = {f.case for f in failures}
            if not any(d[0] in failing_cases for d in disagreements):
                d = disagreements[0]
                broken.append(("correspondence",
                               "model and implementation disagree on %d of %d cases of stream(s) %s; first: %s"
                               % (len(disagreements), len(cases), sorted(set(c.split(' ')[0] for c in cases)), trunc(d[0], 300)),
                               "model=%s impl=%s" % (trunc(d[1], 300), trunc(d[2], 300))))
    # 5. extra checks
    extra_info = {}
    if drivers_ok and hasattr(mod, "extra") and not args.replay:
        ctx = {"tier": tier, "rng": rng, "run_dir": run_dir, "seed": args.seed}
        fs, extra_info = mod.extra(ctx)
        failures.extend(fs)
        evaluations += extra_info.get("evaluations", 0)
        distinct_nontrivial += extra_info.get("distinct_nontrivial", 0)

    # 6. known findings
    known = [k for k in load_known() if k.get("property") == pid and k.get("status") == "known"]
    known_classes = {k["class"]: k for k in known}
    reported_known = set()
    new_failures = []
    for f in failures:
        if f.klass in known_classes:
            if f.klass not in reported_known:
                reported_known.add(f.klass)
                print("KNOWN-FINDING: property=%s %s" % (pid, known_classes[f.klass]["what"]))
        else:
            new_failures.append(f)
    # a listed finding is reported on every run of the unchanged tree, whether or
    # not this run's stream happened to hit it
    for k in known:
        if k["class"] not in reported_known:
            print("KNOWN-FINDING: property=%s %s" % (pid, k["what"]))

    violations = 0
    replay_path = None
    if new_failures or broken:
        os.makedirs(os.path.join(VERIF, "replays"), exist_ok=True)
        replay_path = os.path.join(VERIF, "replays", "%s-%s-%d.json" % (pid, tier, args.seed))
        # smallest failing cases first
        new_failures.sort(key=lambda f: len(f.case or ""))
        with open(replay_path, "w") as f:
            json.dump({
                "property": pid, "seed": args.seed, "tier": tier,
                "replay_cmd": "./check %s --replay %s" % (pid, replay_path),
                "failures": [x.to_json() for x in new_failures[:50]],
                "broken": [{"kind": k, "what": w, "detail": d} for k, w, d in broken],
                "disagreements": [{"case": c, "model": m, "impl": i} for c, m, i in disagreements[:50]],
            }, f, indent=1)
        violations = len(new_failures) + (len(broken) if not new_failures else 0)
        if new_failures:
            print("VIOLATION property=%s replay=%s" % (pid, replay_path))
            log("first failing input: %s -> %s (%s)" % (trunc(new_failures[0].case), trunc(new_failures[0].impl), new_failures[0].text))
        else:
            print("VIOLATION property=%s replay=%s no-failing-input-found" % (pid, replay_path))
        for k, w, d in broken:
            log("BROKEN[%s]: %s\n%s" % (k, w, d))

    # 7. evidence
    ev = {
        "property_id": pid,
        "tier": tier,
        "seed": args.seed,
        "level": "proof",
        "coverage": {
            "obligations": max(nobl, 1),
            "discharged": discharged if discharged else (0 if nobl else 0),
            "checker_cmd": "make -C /verif/coq %s (coqc 8.16.1, full .vo build) + Print Assumptions on %s"
                           % (" ".join(getattr(mod, "COQ_TARGETS", ["Properties/%s.vo" % pid])), ", ".join(mod.THEOREMS)),
            "trusted_base": TRUSTED_BASE + getattr(mod, "TRUSTED", []),
            "theorems": mod.THEOREMS,
            "axioms_per_theorem": axioms,
            "qed_per_file": per_file,
            "coqchk": coqchk_summary,
            "evaluations": evaluations,
            "distinct_nontrivial": distinct_nontrivial,
            "rule": getattr(mod, "RULE", ""),
            "traces_validated_against_impl": evaluations - len(disagreements),
            "disagreements": len(disagreements),
            "distribution": stats,
            "samples": samples if samples else [{"theorems": mod.THEOREMS}],
            "extra": extra_info,
        },
        "assumptions": getattr(mod, "ASSUMPTIONS", []),
        "wall_s": round(time.time() - t0, 2),
        "violations": violations,
    }
    if not ok:
        ev["coverage"]["discharged"] = 0
    os.makedirs(os.path.join(VERIF, "evidence"), exist_ok=True)
    with open(os.path.join(VERIF, "evidence", "%s.json" % pid), "w") as f:
        json.dump(ev, f, indent=1)
    # clean the run directory unless something failed
    if not (new_failures or broken):
        import shutil
        shutil.rmtree(run_dir, ignore_errors=True)
    return 1 if (new_failures or broken) else 0


TRUSTED_BASE = [
    "Coq 8.16.1 kernel, vm_compute (no native_compute)",
    "hand-written Gallina model of the Rust code (coq/*/*Model.v), tied to /repo by the correspondence check of this run",
    "extraction: Require Extraction + ExtrOcamlBasic only (bool, option, unit, list, prod, sumbool mapped to OCaml types); no Extract Constant; OCaml 4.13.1 ocamlopt",
    "hand-written OCaml driver glue (/verif/ocaml/*.ml), Rust harness (/verif/harness), python generators/differ (/verif/vlib)",
    "table translator /verif/tools/tables.py (regular expressions over the Rust source)",
]
