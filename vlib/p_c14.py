"""C14 -- hosts files are read as hosts(5) describes and convert losslessly.

Stream "hosts" (syntax: ocaml/drv_hosts.ml).  The oracle is an independent python
reading of hosts(5) as the property text states it, applied to the case's input text and
compared with the implementation's output only.  It is restricted to the subclass of
inputs on which the property text is unambiguous:
  * addresses: IPv4 = four decimal octets without leading zeros; IPv6 = what python's
    ipaddress.IPv6Address accepts among strings over [0-9a-fA-F:.] (python accepts scope
    ids and Rust does not; those never reach the comparison because a '%' skips the line);
    everything else over that alphabet which python rejects counts as malformed;
  * a file with a non-ASCII character outside a comment is not judged (the property text
    says nothing about it; the code returns ExpectedAscii);
  * an address-only line is ignored whatever its single field is ("zzz", "zzz#c", "zzz ",
    "zzz #c": the text says address-only lines are ignored and lines *that map names* with a
    malformed address are errors).  Before /repo commit 25db594 the code rejected "zzz " and
    "zzz #c"; a file rejected only because of such a line is a failure of class
    address-only-malformed-line-rejected (fixed finding: a recurrence fails the check);
  * a first field that begins with '%' is not judged.
"""
import ipaddress
import os
import re
import subprocess
import time

from . import core
from . import tok

ID = "C14"
DRIVER = "hosts"
COQ_TARGETS = ["Properties/C14.vo"]
THEOREMS = []
try:
    with open(os.path.join(core.COQ, "Properties", "C14.v")) as _f:
        THEOREMS = re.findall(r"^Theorem\s+(C14_\w+)", _f.read(), re.M)
except OSError:
    pass

RULE = ("cases: hosts files of 0..8 lines rendered from (address, names) mappings with arbitrary ASCII white space "
        "(space, tab, VT, FF, CR), aliases, comments after any field (also glued), duplicate/conflicting lines, upper case, "
        "trailing dots, every textual form of IPv4/IPv6 the std parser accepts and malformed variants, non-ASCII inside and "
        "outside comments, over-long labels/names; ops parse / serialise / round trip / zone conversion and back / merge / "
        "address codec / str::lines; non-trivial = distinct case line whose text holds at least one non-blank line")
ASSUMPTIONS = [
    "Ip/IpModel.v is transcribed from core::net::parser / Display for Ipv{4,6}Addr of the nightly toolchain /repo builds with; "
    "the harness is built with the default stable toolchain -- both are exercised (binaries: nightly, harness: stable) and agree with the model on the stream",
    "HashMap/HashSet iteration order is not modelled; the drivers sort maps by name before printing, theorems are up to permutation / lookup",
    "hosts_parse_denotes / hosts_errors speak about files described by a syntax tree (HostsSpec.v): ASCII white space HT VT FF CR SP, "
    "fields of ASCII non-space non-'#' characters, LF or CRLF terminators, a line's own text not ending in CR; an address-only line "
    "is valid (and ignored) whatever its address field is",
    "hosts_roundtrip holds for names whose label octets are ASCII other than white space, '#' and '.' (every name read from a hosts "
    "file is such a name; a Hosts value built by other means with e.g. a space inside a label does not survive serialise)",
    "a hosts name whose leftmost label is '*' does not survive htoz | ztoh (the zone text reads it as a wildcard): counted in the "
    "evidence as star_label_lost, reported to the coordinator",
]
TRUSTED = [
    "model of Rust std's IpAddr::from_str / Display (coq/Ip/IpModel.v): hand transcription of core::net::parser.rs and ip_addr.rs, "
    "validated by the IP cases of the stream against the real std",
    "char::is_whitespace / str::lines / char_indices semantics as transcribed in coq/Hosts/HostsModel.v (L cases pin str::lines)",
    "python reference reader of hosts(5) in vlib/p_c14.py (uses ipaddress.IPv6Address on strings over [0-9a-fA-F:.])",
]

WSSET = " \t\x0b\x0c\r"
WS_RE = re.compile("[ \t\x0b\x0c\r]+")

# --------------------------------------------------------------------------
# independent reader (hosts(5) as the property states it)
# --------------------------------------------------------------------------


def classify_addr(s):
    """('v4', u32) | ('v6', (8 segs)) | None (malformed) for strings over the unambiguous alphabet;
    'amb' otherwise."""
    if re.fullmatch(r"[0-9.]+", s):
        parts = s.split(".")
        if len(parts) != 4:
            return None
        v = 0
        for p in parts:
            if not (1 <= len(p) <= 3) or (len(p) > 1 and p[0] == "0") or int(p) > 255:
                return None
            v = v * 256 + int(p)
        return ("v4", v)
    if re.fullmatch(r"[0-9a-fA-F:.]+", s):
        try:
            ip = ipaddress.IPv6Address(s)
        except ValueError:
            return None
        n = int(ip)
        return ("v6", tuple((n >> (16 * (7 - i))) & 0xFFFF for i in range(8)))
    if re.fullmatch(r"[\x21-\x7e]*", s) and "%" not in s and "#" not in s:
        return None         # printable ASCII outside the address alphabet: not an address
    return "amb"


def read_name(f):
    """labels (tuple of lower-case str; () = root) or None if malformed"""
    if f == ".":
        return ()
    s = f[:-1] if f.endswith(".") else f
    labels = s.split(".")
    if any(l == "" for l in labels) or any(len(l) > 63 for l in labels):
        return None
    if sum(len(l) + 1 for l in labels) + 1 > 255:
        return None
    return tuple("".join(chr(ord(c) + 32) if "A" <= c <= "Z" else c for c in l) for l in labels)


def read_hosts(text):
    """('ok', v4, v6, maybe_err, addr_only_bad) | ('err',) | ('amb',)"""
    v4, v6 = {}, {}
    maybe_err = False          # a first field starting with '%': not judged
    addr_only_bad = False      # an address-only line whose single field is not an address: ignored like any
                               # address-only line; remembered only to name the class of a wrong rejection
    for line in text.split("\n"):
        body = line.split("#", 1)[0]
        if any(ord(c) > 127 for c in body):
            return ("amb",)
        fields = [f for f in WS_RE.split(body) if f]
        if not fields:
            continue
        a = fields[0]
        if a[0] == "%":
            maybe_err = True
            continue
        if "%" in a:
            continue
        addr = classify_addr(a)
        if addr == "amb":
            return ("amb",)
        if len(fields) == 1:
            if addr is None:
                addr_only_bad = True
            continue
        if addr is None:
            return ("err",)
        names = []
        for f in fields[1:]:
            n = read_name(f)
            if n is None:
                return ("err",)
            names.append(n)
        for n in names:
            (v4 if addr[0] == "v4" else v6)[n] = addr[1]
    return ("ok", v4, v6, maybe_err, addr_only_bad)


def name_tok(labels):
    ls = [l.encode("latin-1").hex() for l in labels] + ["-"]
    return ".".join(ls) + "/%d" % (sum(len(l) + 1 for l in labels) + 1)


def hex32(segs):
    return "".join("%04x" % s for s in segs)


def hosts_tok(v4, v6):
    a = sorted((name_tok(n), str(v)) for n, v in v4.items())
    b = sorted((name_tok(n), hex32(v)) for n, v in v6.items())
    f = lambda l: ";".join("%s=%s" % x for x in l) if l else "_"
    return "v4=%s|v6=%s" % (f(a), f(b))


def text_of_case_arg(t):
    return "" if t == "_" else "".join(chr(int(x)) for x in t.split(","))


# --------------------------------------------------------------------------
# oracle
# --------------------------------------------------------------------------

ADDR_ONLY_CLASS = "address-only-malformed-line-rejected"


def check_parse(ref, impl_is_err, impl_hosts_tok, what):
    """compare the reference reading with an implementation result"""
    if ref[0] == "amb":
        return None
    if ref[0] == "err":
        if not impl_is_err:
            return ("accepts-malformed", "%s: a line that maps names has a malformed address or name, but the file was accepted" % what)
        return None
    _, v4, v6, maybe, addr_only_bad = ref
    if impl_is_err:
        if maybe:
            return None
        if addr_only_bad:
            # the property text says address-only lines are ignored; before 25db594 the code rejected the file
            # when the malformed single field was followed by white space (fixed finding, see
            # known_findings.json): an ordinary failure, kept under its own class as a regression detector
            return (ADDR_ONLY_CLASS, "%s: a line holding only a malformed address (no names) made the whole file an error" % what)
        return ("rejects-wellformed", "%s: rejected a file hosts(5) reads as %s" % (what, core.trunc(hosts_tok(v4, v6), 200)))
    want = hosts_tok(v4, v6)
    if impl_hosts_tok != want:
        return ("wrong-mappings", "%s: mappings %s, hosts(5) reads %s" % (what, core.trunc(impl_hosts_tok, 200), core.trunc(want, 200)))
    return None


def oracle(case, impl, model):
    toks = case.split(" ")
    op = toks[1]
    try:
        if impl == "Panic":
            return ("panic", "hosts operation panicked")
        if op == "IP":
            s = text_of_case_arg(toks[2])
            c = classify_addr(s) if s else None
            if c == "amb" or "%" in s or "#" in s or any(ch in WSSET + "\n" for ch in s):
                return None
            if c is None:
                if impl != "None":
                    return ("accepts-malformed-address", "IpAddr::from_str accepted %r" % s)
                return None
            if not impl.startswith("Some:"):
                return ("rejects-address", "IpAddr::from_str rejected %r" % s)
            val, disp = impl[5:].split("/")
            want = "4:%d" % c[1] if c[0] == "v4" else "6:" + hex32(c[1])
            if val != want:
                return ("wrong-address", "IpAddr::from_str(%r) = %s, expected %s" % (s, val, want))
            d = text_of_case_arg(disp)
            if not re.fullmatch(r"[0-9a-f:.]+", d) or classify_addr(d) != c:
                return ("display-roundtrip", "Display of %s is %r which does not read back" % (val, d))
            return None
        if op in ("P", "S", "RT", "Z", "ZX"):
            ref = read_hosts(text_of_case_arg(toks[2]))
        if op == "P":
            return check_parse(ref, impl.startswith("Err:"), impl[3:] if impl.startswith("Ok:") else None, "deserialise")
        if op == "M":
            r1 = read_hosts(text_of_case_arg(toks[2]))
            r2 = read_hosts(text_of_case_arg(toks[3]))
            if r1[0] != "ok" or r2[0] != "ok" or r1[3] or r2[3]:
                return None
            v4 = dict(r1[1]); v4.update(r2[1])
            v6 = dict(r1[2]); v6.update(r2[2])
            return check_parse(("ok", v4, v6, False, r1[4] or r2[4]), impl.startswith("Err:"), impl[3:] if impl.startswith("Ok:") else None, "merge")
        if op == "S":
            if not impl.startswith("Ok:"):
                return check_parse(ref, True, None, "deserialise")
            out = text_of_case_arg(impl[3:])
            back = read_hosts(out)
            if ref[0] != "ok":
                return check_parse(ref, False, "?", "deserialise") if ref[0] == "err" else None
            if back[0] != "ok" or back[3]:
                return ("serialise-unreadable", "serialise wrote text hosts(5) cannot read: %r" % core.trunc(out, 200))
            if (back[1], back[2]) != (ref[1], ref[2]):
                return ("serialise-loses", "serialise wrote %s for mappings %s" % (core.trunc(hosts_tok(back[1], back[2]), 200),
                                                                                   core.trunc(hosts_tok(ref[1], ref[2]), 200)))
            return None
        if op == "RT":
            if impl.startswith("Ok:diff:"):
                return ("roundtrip-differs", "deserialise(serialise(h)) != h: " + core.trunc(impl, 300))
            if impl.startswith("Ok:same:"):
                return check_parse(ref, False, impl[8:], "deserialise")
            return check_parse(ref, impl.startswith("Err:"), None, "deserialise")
        if op == "Z":
            if not impl.startswith("R"):
                return check_parse(ref, impl.startswith("Err:"), None, "deserialise")
            if ref[0] != "ok":
                return check_parse(ref, False, "?", "deserialise") if ref[0] == "err" else None
            parts = impl.split("#")
            f = {p[0]: p[1:] for p in parts}
            _, v4, v6, _m, _b = ref
            # exactly one A / AAAA record per mapping, TTL 5
            want = {}
            for n, a in v4.items():
                want.setdefault(name_tok(n), []).append("1:5:a%d" % a)
            for n, a in v6.items():
                want.setdefault(name_tok(n), []).append("28:5:q" + hex32(a))
            got = {}
            if f["R"] != "_":
                for ent in f["R"].split("+"):
                    n, rs = ent.split("=", 1)
                    got[n] = rs.split(";")
            if got != want:
                return ("zone-not-exact", "Zone::from holds %s, expected exactly %s" % (core.trunc(f["R"], 200), core.trunc(str(want), 200)))
            if f["W"] != "_" or f["S"] != "-" or f["X"] != "-/1":
                return ("zone-shape", "Zone::from: wildcards=%s soa=%s apex=%s" % (f["W"], f["S"], f["X"]))
            ht = hosts_tok(v4, v6)
            if f["T"] != "Ok:" + ht:
                return ("zone-back", "TryFrom<Zone> gave %s, expected %s" % (core.trunc(f["T"], 200), core.trunc(ht, 200)))
            if f["L"] != ht:
                return ("zone-back-lossy", "from_zone_lossy gave %s, expected %s" % (core.trunc(f["L"], 200), core.trunc(ht, 200)))
            keys = sorted(set(name_tok(n) for n in v4) | set(name_tok(n) for n in v6))
            qs = [] if f["Q"] == "_" else f["Q"].split("|")
            byname4 = {name_tok(n): a for n, a in v4.items()}
            byname6 = {name_tok(n): a for n, a in v6.items()}
            if len(qs) != 2 * len(keys):
                return ("zone-resolve", "unexpected number of lookups")
            for i, k in enumerate(keys):
                nm = k.split("/")[0]
                if k in byname4 and qs[2 * i] != "A%s:1:1:5:a%d" % (nm, byname4[k]):
                    return ("zone-resolve", "resolve(%s, A) = %s" % (k, qs[2 * i]))
                if k in byname6 and qs[2 * i + 1] != "A%s:28:1:5:q%s" % (nm, hex32(byname6[k])):
                    return ("zone-resolve", "resolve(%s, AAAA) = %s" % (k, qs[2 * i + 1]))
            return None
    except Exception as e:      # malformed output is a correspondence matter
        return None
    return None


# --------------------------------------------------------------------------
# generator
# --------------------------------------------------------------------------

def ws(rng, n=None):
    n = n or rng.choice([1, 1, 1, 2, 3])
    return "".join(rng.choice([" ", " ", " ", "\t", "\t", "\x0b", "\x0c", "\r"]) for _ in range(n))


def rand_v4(rng):
    return rng.choice([0, 1, 0x7F000001, 0x01020304, 0xFFFFFFFF, 0xC0A80001, 0x0A000000, 0x00FF0064,
                       rng.getrandbits(32), rng.getrandbits(32)])


def v4_text(a):
    return "%d.%d.%d.%d" % (a >> 24, (a >> 16) & 255, (a >> 8) & 255, a & 255)


def rand_v6(rng):
    r = rng.random()
    if r < 0.08:
        return (0,) * 8
    if r < 0.16:
        return (0,) * 7 + (1,)
    if r < 0.26:
        a = rand_v4(rng)
        return (0, 0, 0, 0, 0, 0xFFFF, a >> 16, a & 0xFFFF)
    if r < 0.32:
        a = rand_v4(rng)
        return (0, 0, 0, 0, 0, 0, a >> 16, a & 0xFFFF)
    if r < 0.40:
        return tuple(rng.choice([1, 0xFF, 0xFFFF, 0xABCD, 0x10, 0x100, 0x1000, rng.getrandbits(16)]) for _ in range(8))
    pz = rng.choice([0.3, 0.5, 0.8])
    return tuple(0 if rng.random() < pz else rng.choice([1, 0xF, 0xFF, 0xFFFF, 0xABCD, 0x10, 0x100, 0x1000, rng.getrandbits(16)])
                 for _ in range(8))


def group_text(rng, g):
    s = "%x" % g
    if rng.random() < 0.25:
        s = s.rjust(rng.randint(len(s), 4), "0")
    if rng.random() < 0.3:
        s = s.upper()
    return s


def v6_text(rng, segs):
    """one of the textual forms the std parser accepts for segs"""
    groups = [group_text(rng, g) for g in segs]
    n = 8
    if rng.random() < 0.3:
        # embedded dotted quad for the last two groups
        groups = groups[:6] + [v4_text(segs[6] * 65536 + segs[7])]
        n = 6
    form = rng.random()
    if form < 0.6:
        # compress some run of zeros among the first n groups
        runs = [(i, j) for i in range(n) for j in range(i + 1, n + 1) if all(x == 0 for x in segs[i:j])]
        if runs:
            i, j = rng.choice(runs)
            return ":".join(groups[:i]) + "::" + ":".join(groups[j:])
    return ":".join(groups)


BAD_ADDRS = ["01.2.3.4", "1.2.3.04", "1.2.3.256", "256.1.1.1", "1.2.3.4.5", "1.2.3", "1.2.3.", ".1.2.3", "1..2.3", "1.2.3.4.",
             "0001.2.3.4", "1.2.3.1000", "1.2.3.4x", "0x1.2.3.4", "+1.2.3.4", "1.2.3.-4",
             ":::", ":", "1:", ":1", "1:2", "1:2:3:4:5:6:7", "1:2:3:4:5:6:7:8:9", "1:2:3:4:5:6:7::8", "1:2:3:4:5:6:7:8::",
             "::1::", "1::2::3", "12345::", "::12345", "::g", "g::", "::1.2.3", "::1.2.3.256", "::01.2.3.4", "1.2.3.4::",
             "1.2.3.4:5::", "::1.2.3.4:5", "1:2:3:4:5:6:7:1.2.3.4", "1:2:3:4:5:1.2.3.4", "::ffff:1.2.3.4.5", "[::1]", "::1]",
             "1:2:3:4:5:6:7:", ":2:3:4:5:6:7:8", "::-1", "localhost", "zzz", "1,2,3,4", "1.2.3.4/8", "::/0", "-", "a", "1"]
GOOD_ODD_ADDRS = ["::", "::1", "1::", "1:2:3:4:5:6:7::", "::2:3:4:5:6:7:8", "1::8", "1:2:3:4::6:7:8", "0:0:0:0:0:0:0:0",
                  "::ffff:1.2.3.4", "::1.2.3.4", "::0.0.0.0", "1:2:3:4:5:6:1.2.3.4", "1::1.2.3.4", "0000:0000::0000", "FFFF::ffff",
                  "::FFFF:255.255.255.255", "0:0:0:0:0:ffff:102:304", "64:ff9b::192.0.2.33", "1:0:0:2:0:0:0:3", "1:0:0:0:2:0:0:3",
                  "0:1:0:1:0:1:0:1", "0:0:1:0:0:1:0:0", "0.0.0.0", "255.255.255.255", "10.0.0.1", "00::", "::00",
                  "abcd:ef01:2345:6789:abcd:ef01:2345:6789", "ABCD:EF01:2345:6789:ABCD:EF01:2345:6789"]


def rand_addr_text(rng, want_valid=True):
    """(text, is_valid_by_construction)"""
    if not want_valid:
        r = rng.random()
        if r < 0.6:
            return rng.choice(BAD_ADDRS)
        # mutate a valid one
        t = rand_addr_text(rng)
        ops = rng.randint(1, 2)
        for _ in range(ops):
            i = rng.randint(0, len(t))
            m = rng.random()
            if m < 0.4:
                t = t[:i] + rng.choice("0:.gG-/x9f") + t[i:]
            elif m < 0.7 and t:
                i = min(i, len(t) - 1)
                t = t[:i] + t[i + 1:]
            else:
                t = t[:i] + t[max(0, i - 1):i] + t[i:]
        return t or "x"
    r = rng.random()
    if r < 0.4:
        return v4_text(rand_v4(rng))
    if r < 0.5:
        return rng.choice(GOOD_ODD_ADDRS)
    return v6_text(rng, rand_v6(rng))


LABEL_CH = "abcxyz019-_"


def rand_label(rng):
    n = rng.choice([1, 1, 2, 3, 5, 8])
    return "".join(rng.choice(LABEL_CH) for _ in range(n))


def rand_name(rng, pool):
    if pool and rng.random() < 0.6:
        n = rng.choice(pool)
    else:
        n = ".".join(rand_label(rng) for _ in range(rng.choice([1, 1, 1, 2, 2, 3, 4])))
        if rng.random() < 0.1:
            n = rng.choice(["*", "*." + n, n + ".*", "@", "a%b", "x\\y", 'q"r', "p;q", "(", "loc(al)", "under_score", "-dash-",
                            "63." + "a" * 63, "b" * 63 + "." + "c" * 63 + "." + "d" * 63 + "." + "e" * 61, "0", "1.2.3.4", "::1"])
        pool.append(n)
    if rng.random() < 0.25:
        n = "".join(c.upper() if rng.random() < 0.5 else c for c in n)
    if rng.random() < 0.25:
        n += "."
    return n


BAD_NAMES = ["a..b", ".a", "..", "a..", "x" * 64, "a." + "y" * 64 + ".b",
             "b" * 63 + "." + "c" * 63 + "." + "d" * 63 + "." + "e" * 62, ("a" * 50 + ".") * 6 + "a", "...", ".a."]

COMMENTS = ["", "c", " comment", " 1.2.3.4 commented.out", "#", " é", "é", "中文", " \U0001F600 smile", "\x85", "\xa0nbsp", " a#b#c", "%"]


def rand_comment(rng):
    return "#" + rng.choice(COMMENTS)


def rand_line(rng, pool, bad=False):
    """one line (without terminator)"""
    r = rng.random()
    if bad:
        k = rng.random()
        if k < 0.35:
            # malformed address with names
            return ws(rng, rng.choice([0, 0, 1])) + rand_addr_text(rng, False) + ws(rng) + rand_name(rng, pool)
        if k < 0.6:
            # malformed name
            pre = [rand_name(rng, pool) for _ in range(rng.choice([0, 0, 1, 2]))]
            post = [rand_name(rng, pool) for _ in range(rng.choice([0, 0, 1]))]
            return rand_addr_text(rng) + ws(rng) + "".join(n + ws(rng) for n in pre) + rng.choice(BAD_NAMES) + "".join(ws(rng) + n for n in post) \
                + rng.choice(["", "", "#c", " #c"])
        if k < 0.85:
            # non-ASCII outside a comment
            base = rand_addr_text(rng) + ws(rng) + rand_name(rng, pool)
            i = rng.randint(0, len(base))
            return base[:i] + rng.choice(["é", "\xa0", "\x85", " ", "中", "\U0001F600", "\x80"]) + base[i:]
        if k < 0.93:
            return rand_addr_text(rng, False) + rng.choice([" ", "\t", " #c", "\r"])       # address-only, malformed, then white space
        return rng.choice(["%eth0 foo", "%", "% x", "1.2.3.4%", "é", " é", "\x80 a b"])
    if r < 0.08:
        return rng.choice(["", "", ws(rng), ws(rng, 3)])
    if r < 0.16:
        return rng.choice(["", ws(rng)]) + rand_comment(rng)
    if r < 0.22:
        # address-only
        return rng.choice(["", ws(rng)]) + rand_addr_text(rng) + rng.choice(["", "", ws(rng), rand_comment(rng), ws(rng) + rand_comment(rng)])
    if r < 0.26:
        # malformed single field without trailing white space: ignored
        return rand_addr_text(rng, False).replace("%", "") + rng.choice(["", "#c"]) if rng.random() < 0.7 else "fe80::1%eth0"
    if r < 0.32:
        # interface suffix: skipped
        return rng.choice(["fe80::1%eth0", "fe80::1%1", "1.2.3.4%lo", "zzz%x", "fe80::%", "f%%"]) + ws(rng) \
            + rng.choice([rand_name(rng, pool), "a..b", rand_name(rng, pool) + " #c", "x y z"])
    # mapping line
    s = rng.choice(["", "", "", ws(rng)]) + rand_addr_text(rng)
    k = rng.choice([1, 1, 1, 2, 2, 3, 5])
    cut = rng.random()
    if cut < 0.06:
        # comment glued to the address: address-only
        return s + rand_comment(rng) + ws(rng) + rand_name(rng, pool)
    for j in range(k):
        s += ws(rng) + rand_name(rng, pool)
        if j < k - 1 and rng.random() < 0.08:
            # comment between names, glued or not: the rest is comment text
            s += rng.choice(["", ws(rng)]) + rand_comment(rng)
    c = rng.random()
    if c < 0.25:
        s += rand_comment(rng)                      # glued to the last name
    elif c < 0.5:
        s += ws(rng) + rand_comment(rng)
    elif c < 0.65:
        s += ws(rng)
    return s


def rand_file(rng, p_bad=0.2, maxlines=8):
    pool = []
    n = rng.choice([0, 1, 1, 2, 3, 4, 5, 6, maxlines])
    bad_at = rng.randrange(n) if n and rng.random() < p_bad else -1
    lines = [rand_line(rng, pool, bad=(i == bad_at)) for i in range(n)]
    # conflicting / duplicate lines on purpose
    if pool and rng.random() < 0.5:
        for _ in range(rng.choice([1, 2])):
            nm = rng.choice(pool)
            lines.insert(rng.randint(0, len(lines)), rand_addr_text(rng) + ws(rng) + nm + rng.choice(["", ".", " " + nm.upper()]))
    # X, then a conflicting Y for the same name and family, then a byte-identical repeat of X (the repeat must win)
    if pool and rng.random() < 0.25:
        nm = rng.choice(pool)
        fam4 = rng.random() < 0.6
        def addr():
            return ("10.%d.%d.%d" % (rng.randint(0, 255), rng.randint(0, 255), rng.randint(1, 254))) if fam4 else ("fd00::%x" % rng.randint(1, 0xFFFF))
        x = addr() + ws(rng) + nm
        y = addr() + ws(rng) + nm
        pos = rng.randint(0, len(lines))
        lines[pos:pos] = [x, y, x]
    out = ""
    for i, l in enumerate(lines):
        out += l
        if i < len(lines) - 1 or rng.random() < 0.7:
            out += rng.choice(["\n", "\n", "\n", "\r\n"])
    return out


CORPUS = [
    "zzz \n1.2.3.4 foo",                  # fixed finding (25db594): the malformed address-only line is ignored, foo -> 1.2.3.4
    "10.0.0.1 a.lan\n10.0.0.2 a.lan\n10.0.0.1 a.lan\n",      # a later identical line still replaces the one between
    "fd00::1 a.lan\nfd00::2 a.lan\nfd00::1 a.lan",
    "1.2.3.4 foo#c",                      # F6: the name ended by '#' is kept
    "1.2.3.4 foo #é",                     # F6b: comment text may be anything
    "1.2.3.4 foo#é\n",
    "#é\n1.2.3.4 a",
    "1.2.3.4 foo bar#baz qux\n::1 foo",
    "# hark, a comment!\n1.2.3.4 one two three four\n0.0.0.0 blocked\n                          \n127.0.0.1 localhost.\n::1 localhost",
    "fe80::1%lo0 localhost",
    "1.2.3.4",
    "::1",
    "1.2.3.4 ",
    "zzz",
    "zzz ",
    "zzz\r",
    "zzz\r\n",
    "zzz#c",
    "zzz #c",
    "1.2.3.4\tFOO.Example.\n1.2.3.5 foo.example",
    "1.2.3.4 foo\n::2 foo\n1.2.3.5 FOO.\n",
    "1.2.3.4 .",
    "1.2.3.4 . a .",
    "1.2.3.4 a..b",
    "1.2.3.256 a",
    "01.2.3.4 a",
    "1.2.3.4 é",
    "é",
    "1.2.3.4 a b",
    "1.2.3.4 a\x1cb",                     # U+001C is not White_Space
    "1.2.3.4 a\x0bb\x0cc\rd",
    "1.2.3.4 *.wild wild",
    "1.2.3.4 " + "a" * 63,
    "1.2.3.4 " + "a" * 64,
    "::ffff:1.2.3.4 mapped\n::1.2.3.4 compat\n1::  one\n",
    "1.2.3.4 x\r\n::1 x\r\n",
    "1.2.3.4 x\r",
    "\n\n\n",
    "",
    "%eth0 foo",
    "1.2.3.4%5 a..b é",
    "1.2.3.4#c foo",
    "  \t 1.2.3.4 \t a \t b \t ",
]

IP_CORPUS = ["", "1.2.3.4", "::", "::1", "::ffff:1.2.3.4", "::1.2.3.4", "::0.0.0.1", "::0.1.0.0", "1:2:3:4:5:6:7::", "1::", "0:0:1::",
             "1:0:0:2:0:0:0:3", "1:0:0:0:2:0:0:3", "0:0:1:0:0:1:0:0", "1:0:2:0:3:0:4:0", "::ffff:0:0", "0:0:0:0:0:ffff:0:1", "::fffe:1.2.3.4",
             "1.2.3.4 ", " 1.2.3.4", "1.2.3.4\n", "１.2.3.4", "1.2.3.4é", "::１", "fe80::1%eth0", "fe80::1%1", "::ffff:1.2.3.4%1"] \
    + BAD_ADDRS + GOOD_ODD_ADDRS

T = tok.text


def rr_tok(rng):
    names = [tok.name("a."), tok.name("b.a."), tok.name("x."), tok.name(".")]
    typ = rng.choice([tok.A, tok.AAAA, tok.A, tok.AAAA, tok.TXT, tok.NS, tok.CNAME, tok.MX])
    return tok.rr(rng.choice(names), typ, rng.choice([5, 5, 300]), tok.random_rdata(rng, typ, names))


def generate(rng, tier):
    n = 5000 if tier == "quick" else 200000
    cases = []
    add = cases.append
    for t in CORPUS:
        for op in ("P", "S", "RT", "Z"):
            add("hosts %s %s" % (op, T(t)))
        add("hosts L " + T(t))
    for t in IP_CORPUS:
        add("hosts IP " + T(t))
    for t in ["a\nb", "a\r\nb\r\n", "a\r", "a\r\r\n", "\r\n", "\r", "\n\r", "a\n\nb\n", "\n"]:
        add("hosts L " + T(t))
    add("hosts M %s %s" % (T("1.2.3.4 a b\n::1 a"), T("1.2.3.5 a\n::2 c")))
    add("hosts ZX %s %s" % (T("1.2.3.4 a"), "W~" + tok.rr(tok.name("a."), tok.A, 5, tok.rd_a(1))))
    add("hosts ZX %s %s" % (T("1.2.3.4 a"), "I~" + tok.rr(tok.name("a."), tok.TXT, 5, tok.rd_octets(b"x"))))
    add("hosts ZX %s %s" % (T("1.2.3.4 a"), "I~" + tok.rr(tok.name("a."), tok.A, 5, tok.rd_a(7))))
    add("hosts ZX %s _" % T("1.2.3.4 a\n::1 b"))
    while len(cases) < n:
        r = rng.random()
        if r < 0.32:
            add("hosts P " + T(rand_file(rng)))
        elif r < 0.42:
            add("hosts S " + T(rand_file(rng, 0.05)))
        elif r < 0.52:
            add("hosts RT " + T(rand_file(rng, 0.05)))
        elif r < 0.66:
            add("hosts Z " + T(rand_file(rng, 0.05)))
        elif r < 0.70:
            ops = "|".join(rng.choice(["I", "I", "W"]) + "~" + rr_tok(rng) for _ in range(rng.randint(0, 3))) or "_"
            add("hosts ZX %s %s" % (T(rand_file(rng, 0.0, 4)), ops))
        elif r < 0.78:
            add("hosts M %s %s" % (T(rand_file(rng, 0.05, 4)), T(rand_file(rng, 0.05, 4))))
        elif r < 0.97:
            add("hosts IP " + T(rand_addr_text(rng, rng.random() < 0.6)))
        else:
            s = "".join(rng.choice(["a", "b", "\n", "\r", "\r\n", " ", "é"]) for _ in range(rng.randint(0, 10)))
            add("hosts L " + T(s))
    return cases


def nontrivial(case, model):
    toks = case.split(" ")
    if toks[1] in ("IP", "L"):
        return toks[2] != "_"
    return any(c not in WSSET + "\n" for c in text_of_case_arg(toks[2]))


def kind(case, model):
    op = case.split(" ")[1]
    if model.startswith("Err:"):
        return op + ":" + model.split(":")[1]
    if op == "IP":
        return op + ":" + ("None" if model == "None" else "Some:v" + model[5])
    if op == "RT":
        return op + ":" + ":".join(model.split(":")[:2])
    if op == "ZX":
        return op + ":" + model.split("#")[0][:5]
    return op + ":" + ("Panic" if model == "Panic" else "Ok")


# --------------------------------------------------------------------------
# the real binaries htoh / htoz / ztoh
# --------------------------------------------------------------------------

def build_binaries():
    """release build of htoh, htoz, ztoh from /repo's working tree, guard OFF"""
    if hasattr(core, "build_release_binaries"):
        return core.build_release_binaries(["htoh", "htoz", "ztoh"])
    with core.Lock("cargo"):
        env = {"CARGO_TARGET_DIR": os.path.join(core.BUILD, "target-release"), "RUSTFLAGS": ""}
        rc, out = core.sh(["cargo", "build", "--offline", "--release", "-p", "htoh", "-p", "htoz", "-p", "ztoh"],
                          cwd=core.REPO, env=env, timeout=3000)
        return rc == 0, out


def binary(name):
    return os.path.join(core.BUILD, "target-release", "release", name)


def run_bin(name, data, args=()):
    p = subprocess.run([binary(name)] + list(args), input=data.encode("utf-8"), stdout=subprocess.PIPE, stderr=subprocess.PIPE, timeout=60)
    return p.returncode, p.stdout.decode("utf-8", "replace"), p.stderr.decode("utf-8", "replace")


def has_star_name(text):
    """some mapped name has "*" as its leftmost label"""
    r = read_hosts(text)
    return r[0] == "ok" and any(n and n[0] == "*" for n in list(r[1]) + list(r[2]))


BIN_CORPUS = [
    "zzz \n1.2.3.4 foo\n",               # fixed finding (25db594): one mapping
    "1.2.3.4 foo#c\n::1 foo bar. BAZ\n",
    "1.2.3.4 foo #é\n",
    "# only a comment\n\n",
    "",
    "1.2.3.4 a\n1.2.3.5 a\n::1 a\n::2 A.\n",
    "::ffff:1.2.3.4 mapped\n::1.2.3.4 compat\n1:0:0:2:0:0:0:3 x\n",
    "1.2.3.4 .\n",
    "1.2.3.4 a.b.c.d e_f -g- 0 1.2.3.4\n",
    "1.2.3.4 a\\b q\"r p;q ( ) @ a@b $ORIGIN\n",
    "1.2.3.4 *.foo\n",                   # star label: see STAR_CLASS
]

# A hosts name whose leftmost label is "*" is an ordinary name for Hosts and for Zone::from / TryFrom<Zone> (the Z cases
# check that), but htoz writes it as "*.foo. 5 IN A ..." and the zone-file reader of ztoh takes that for a wildcard
# record: ztoh drops the mapping, ztoh --strict fails with HasWildcardRecords.  Reported to the coordinator; such files
# are counted in the evidence ("star_label_lost") and become failures of this class as soon as known_findings.json
# lists the class (status known: KNOWN-FINDING line; status fixed: a recurrence fails the check).
STAR_CLASS = "star-label-lost-through-zone-text"


def extra(ctx):
    t0 = time.time()
    rng = ctx["rng"]
    ok, out = build_binaries()
    if not ok:
        return ([core.Failure("binaries-build-failed", "release build of htoh/htoz/ztoh failed: " + core.trunc(out[-800:], 800),
                              found_input=False)], {"binaries": {"built": False}})
    n = 12 if ctx["tier"] == "quick" else 400
    files = list(BIN_CORPUS)
    while len(files) < len(BIN_CORPUS) + n:
        files.append(rand_file(rng, 0.1))
    fails = []
    stats = {"files": 0, "rejected": 0, "htoh": 0, "htoz_ztoh": 0, "star_label_lost": 0, "not_judged": 0}
    star_listed = any(k.get("property") == ID and k.get("class") == STAR_CLASS for k in core.load_known())
    seen = set()
    distinct = 0
    for text in files:
        stats["files"] += 1
        if text not in seen:
            seen.add(text)
            if any(c not in WSSET + "\n" for c in text):
                distinct += 1
        case = "binaries htoh|htoz|ztoh " + T(text)
        ref = read_hosts(text)
        rc, o1, e1 = run_bin("htoh", text)
        if ref[0] == "amb":
            stats["not_judged"] += 1
            continue
        if ref[0] == "err":
            if rc == 0:
                fails.append(core.Failure("accepts-malformed", "htoh accepted a file with a malformed mapping line", case, o1, None))
            else:
                stats["rejected"] += 1
            continue
        if rc != 0:
            if ref[3]:
                stats["rejected"] += 1
                continue
            if ref[4]:
                fails.append(core.Failure(ADDR_ONLY_CLASS, "htoh rejected a file because of a line holding only a malformed address: "
                                          + core.trunc(e1, 200), case, e1, None))
                continue
            fails.append(core.Failure("rejects-wellformed", "htoh rejected a well-formed file: " + core.trunc(e1, 200), case, e1, None))
            continue
        want = (ref[1], ref[2])
        b1 = read_hosts(o1)
        if b1[0] != "ok" or (b1[1], b1[2]) != want:
            fails.append(core.Failure("htoh-loses", "htoh output does not hold the input's mappings", case, o1, hosts_tok(*want)))
            continue
        rc2, o2, e2 = run_bin("htoh", o1)
        if rc2 != 0 or o2 != o1:
            fails.append(core.Failure("htoh-not-idempotent", "htoh applied twice differs from htoh applied once", case, o2, o1))
            continue
        stats["htoh"] += 1
        rcz, oz, ez = run_bin("htoz", text)
        if rcz != 0:
            fails.append(core.Failure("htoz-fails", "htoz failed on a file htoh accepts: " + core.trunc(ez, 200), case, ez, None))
            continue
        for strict in ((), ("--strict",)):
            rch, oh, eh = run_bin("ztoh", oz, strict)
            b2 = read_hosts(oh) if rch == 0 else ("err",)
            good = rch == 0 and b2[0] == "ok" and (b2[1], b2[2]) == want
            if not good:
                if has_star_name(text):
                    stats["star_label_lost"] += 1
                    if star_listed:
                        fails.append(core.Failure(STAR_CLASS, "htoz | ztoh %s loses a name whose leftmost label is '*'" % " ".join(strict),
                                                  case, oh if rch == 0 else eh, hosts_tok(*want)))
                    break
                fails.append(core.Failure("htoz-ztoh-loses", "htoz | ztoh %s does not give back the input's mappings (zone text: %s)"
                                          % (" ".join(strict), core.trunc(oz, 300)), case, oh if rch == 0 else eh, hosts_tok(*want)))
                break
        else:
            stats["htoz_ztoh"] += 1
    stats["wall_s"] = round(time.time() - t0, 1)
    return fails, {"binaries": stats, "evaluations": stats["files"], "distinct_nontrivial": distinct}
