"""C06 -- upstream replies are filtered: only records relevant to the question are used.

Stream "validate" (syntax: ocaml/drv_validate.ml):
  V  the private reply filter validate_nameserver_response (hook H4) on an adversarial reply
  S  get_nxdomain_nodata_soa on the same kind of reply
  Q  the public query_nameserver end to end over the in-memory transport (hook H3): header gate,
     UDP-then-TCP, 512-octet receive buffer, time-outs

Stream "resolver" (hook `extra`; syntax: ocaml/drv_resolver.ml), second half of this file: the whole
recursive resolver against universes in which the servers of one zone answer one question with a
referral that makes no progress (same depth / upward / sideways, fresh host names + glue): what the V
op cannot see, because it is handed the depth of the delegation in use instead of computing it.

The oracle evaluates the property text on the implementation's output alone: every record of an
accepted reply must be `allowed` (DESIGN C06), the answer must be the CNAME chain from the question
name in order followed by records at the final name, a referral must be strictly deeper than the
delegation in use, and query_nameserver must return a reply iff it passes the header gate.
"""
from . import msgtok as mt
from . import tok

ID = "C06"
DRIVER = "validate"
ML_EXTRA = ["vmsg.ml"]
COQ_TARGETS = ["Properties/C06.vo"]
THEOREMS = ["C06_follow_terminates", "C06_path_fuel_suffices", "C06_never_panics", "C06_answer_branch_live", "C06_filter_sound", "C06_filter_chain_ok",
            "C06_delegation_progress", "C06_delegation_hostnames_named", "C06_delegation_hostnames_nonempty",
            "C06_header_gate", "C06_gate_sound", "C06_soa_sound", "C06_vchain_chain_ok",
            "C06_only_validated_is_cached", "C06_only_validated_is_cached_recorded",
            "C06_only_validated_records_cached"]
RULE = ("cases: replies to a question at depth 1..7 with delegation depth (match_count) 0..7: CNAME chains from the "
        "question name in shuffled order, off-path / duplicate-owner / looping CNAMEs, records of the asked and of other "
        "types at on-path, off-path and unrelated names, NS sets owned by ancestors at several depths, siblings, children "
        "and foreign names in answer and authority, glue for named and unnamed hosts in all three sections, 0/1/2 SOAs "
        "owned by ancestors / non-ancestors / too-shallow names, unknown types and classes, every query type incl. CNAME, "
        "NS, ANY, AXFR; header-gate cases: wrong id, QR clear, other opcode, TC, rcodes 0..5, question changed / absent / "
        "duplicated, cut and raw datagrams, >512-octet replies, late and missing replies over UDP and TCP; "
        "non-trivial = distinct case line whose reply has at least two records (V, S) or at least one reply (Q).  "
        "Resolver stream (counted in `extra`): a generated universe (root + 1..4 nested zones, 1..2 nameservers per zone, in / "
        "sibling / out-of-bailiwick names, glue or not) x one question whose reply from every server of ONE zone on the path "
        "(the root, a zone in the middle, the last zone) is replaced by a referral that is not strictly deeper than the "
        "delegation in use: NS records owned by that very zone (same), by a zone above it (up), by a name beside the path "
        "(side), in the authority section, the answer section or both, naming 1..2 fresh hosts outside every zone or inside "
        "the zone in use, with A / AAAA glue at fresh addresses behind which nobody listens (silent), a server with a forged "
        "answer listens (answer), a server repeating the referral listens (loop), or naming the zone's real servers again "
        "(selfloop); delegation in use taken from the root hints, from a referral followed in the same resolution (cold) or "
        "from the cache after an earlier question (warm); 4 protocol modes; every (level, direction, behind, cold/warm) once "
        "on fixed universes first; non-trivial = distinct case in which the model's log shows the doctored referral delivered")
ASSUMPTIONS = [
    "the reply handed to the filter is a decoded Message: names are lower-case, well-formed DomainName values (C03/C16)",
    "HashSet iteration order of Delegation.hostnames is not modelled: both sides sort the host names before printing; "
    "the theorems speak about membership only",
    "query_nameserver: the request id is random; the model takes it as a parameter and the comparison prints ids "
    "relative to the request's id",
    "query_nameserver: the 5 s time-outs are a cost semantics on the reply delay (a reply at >= 5000 ms is lost); the "
    "stream uses delays 0, 4999 and 5001 ms on tokio's paused clock, never the instant 5000 ms itself; the constant 5000 "
    "is written in Resolver/GateModel.v, not taken from the table translator",
    "query_nameserver over TCP: the peer sends a 2-octet length prefix, a body, and closes; a prefix larger or smaller "
    "than the body is exercised; several writes / slow streams are not (C08/C09)",
    "only_validated_is_cached (every insert_all argument of the recursive resolver comes from a validated reply) is a "
    "theorem about the recursive resolver model, not of this file",
    "resolver stream: what the other servers say is Universe.serve (tabulated per case); the doctored replies are encoded by "
    "vlib/wiregen.py (no compression); candidate order is the sorted one of hook H5; the clock is fixed during a case; the "
    "repeating-referral cases delay every exchange by 400 ms of virtual time so that a resolver that follows the referral "
    "runs into its 60 s budget instead of spinning; the oracle expects a dead end for the doctored question because EVERY "
    "server of the zone in use gives the doctored reply (a resolver that tried the zone's other servers would meet the same)",
]
TRUSTED = ["hooks H3/H4 in /repo under cfg(resolved_verif): verif::net (in-memory UdpSocket/TcpStream) and the one-line "
           "public wrapper verif_validate_nameserver_response",
           "resolver stream: hook H5 (sorted candidate order) and the mock handler of harness/src/resolver.rs (mirrors "
           "Universe.reply_of / table_oracle)"]

A, NS, CNAME, SOA, MX, TXT, AAAA, ANY = tok.A, tok.NS, tok.CNAME, tok.SOA, tok.MX, tok.TXT, tok.AAAA, tok.ANY
IN = 1
KNOWN = mt.KNOWN_TYPES
UNKNOWN_TYPE = 65280


# --------------------------------------------------------------------------
# names
# --------------------------------------------------------------------------

def nm(s):
    return mt.name(s)


def labels_of(n):
    return len(n)


def is_sub(a, b):
    """a is a subdomain of (or equal to) b"""
    return len(b) <= len(a) and a[len(a) - len(b):] == b


def rr(n, t, d, ttl=300, cls=IN):
    return (n, t, cls, ttl, d)


def rr_a(n, v=0x01020304, ttl=300):
    return rr(n, A, ("a", v), ttl)


def rr_aaaa(n, last=1, ttl=300):
    return rr(n, AAAA, ("q", bytes([0x20, 0x01, 0x0d, 0xb8] + [0] * 11 + [last & 255])), ttl)


def rr_ns(n, host, ttl=300):
    return rr(n, NS, ("n", host), ttl)


def rr_cname(n, target, ttl=300):
    return rr(n, CNAME, ("n", target), ttl)


def rr_soa(n, serial=1, ttl=300):
    return rr(n, SOA, ("s", n, n, serial, 2, 3, 4, 5), ttl)


def rr_txt(n, b=b"\x01x", ttl=300):
    return rr(n, TXT, ("o", b), ttl)


def rr_mx(n, host, ttl=300):
    return rr(n, MX, ("x", 10, host), ttl)


def rr_unknown_type(n, ttl=300):
    return rr(n, UNKNOWN_TYPE, ("o", b"\x00\x01"), ttl)


def secs(l):
    return ";".join([mt.rrtok(r) for r in l]) if l else "_"


def case_v(op, q, mc, rcode, an, au, ad):
    return "validate %s %s %d %d %s %s %s" % (op, mt.qtok(q), mc, rcode, secs(an), secs(au), secs(ad))


# --------------------------------------------------------------------------
# corpus: regression witnesses of the fixes and boundary replies
# --------------------------------------------------------------------------

def corpus():
    out = []
    www = nm("www.example.com.")
    target = nm("target.example.net.")
    zone = nm("example.com.")
    com = nm("com.")
    ns1 = nm("ns1.example.com.")
    ns2 = nm("ns2.elsewhere.org.")
    foreign = nm("foreign.example.")
    other = nm("other.example.org.")
    x = nm("x.example.org.")
    qa = (www, A, IN)
    # F13/F8 (fix 4fb31f1): answer out of chain order comes back in chain order
    out.append(case_v("V", qa, 2, 0, [rr_a(target), rr_cname(www, target)], [], []))
    # F8: an off-path CNAME in the answer section is not accepted
    out.append(case_v("V", qa, 2, 0, [rr_cname(www, target), rr_cname(other, x), rr_a(target)], [], []))
    out.append(case_v("V", qa, 2, 0, [rr_cname(other, x), rr_a(www)], [], []))
    out.append(case_v("V", qa, 2, 0, [rr_cname(other, x)], [], []))
    # F9 (fix eed2feb): a delegation keeps only NS records owned by the delegated name
    out.append(case_v("V", qa, 2, 0, [], [rr_ns(zone, ns1), rr_ns(foreign, ns1)], [rr_a(ns1)]))
    out.append(case_v("V", qa, 2, 0, [rr_ns(foreign, ns1)], [rr_ns(zone, ns1)], [rr_a(ns1)]))
    out.append(case_v("V", qa, 2, 0, [], [rr_ns(foreign, ns1)], [rr_a(ns1)]))
    # the pinned tests' shapes
    out.append(case_v("V", qa, 0, 0, [rr_a(www)], [], []))
    out.append(case_v("V", qa, 0, 0, [rr_unknown_type(www), rr_a(www)], [], []))
    out.append(case_v("V", qa, 0, 0, [rr_unknown_type(www)], [], []))
    out.append(case_v("V", qa, 0, 0, [rr_cname(www, target)], [], []))
    out.append(case_v("V", qa, 0, 0, [rr_ns(zone, ns1)], [rr_ns(zone, ns2)], [rr_ns(zone, nm("ns3.example.com."))]))
    out.append(case_v("V", qa, 3, 0, [], [rr_ns(zone, ns1)], []))                      # not better
    out.append(case_v("V", qa, 1, 0, [rr_ns(com, ns2)], [rr_ns(zone, ns1)], [rr_a(ns1), rr_a(ns2)]))
    out.append(case_v("V", qa, 1, 0, [rr_ns(zone, ns1)], [rr_ns(com, ns2)], [rr_a(ns1), rr_a(ns2)]))
    out.append(case_v("V", qa, 1, 0, [rr_ns(zone, ns1), rr_a(ns1)], [rr_ns(zone, ns2), rr_a(ns2)], [rr_aaaa(ns2)]))
    # NXDOMAIN / NODATA
    for op in ("V", "S"):
        out.append(case_v(op, qa, 2, 3, [], [rr_soa(zone)], []))
        out.append(case_v(op, qa, 2, 0, [], [rr_soa(zone)], []))
        out.append(case_v(op, qa, 3, 0, [], [rr_soa(com)], []))                        # too generic
        out.append(case_v(op, qa, 2, 0, [], [rr_soa(nm("sub.www.example.com."))], []))  # too specific
        out.append(case_v(op, qa, 2, 0, [], [rr_soa(zone), rr_soa(zone, 2)], []))      # two SOAs
        out.append(case_v(op, qa, 2, 0, [], [rr_soa(zone), rr_soa(zone)], []))         # the same SOA twice
        out.append(case_v(op, qa, 2, 2, [], [rr_soa(zone)], []))                       # SERVFAIL
        out.append(case_v(op, qa, 2, 0, [rr_txt(other)], [rr_soa(zone)], []))          # answers not empty
        out.append(case_v(op, qa, 2, 0, [], [], []))
        out.append(case_v(op, qa, 2, 3, [], [rr_soa(foreign)], []))
    # CNAME loops
    a, b = nm("a.example.com."), nm("b.example.com.")
    out.append(case_v("V", (a, A, IN), 2, 0, [rr_cname(a, b), rr_cname(b, a)], [], []))
    out.append(case_v("V", (a, A, IN), 2, 0, [rr_cname(a, a)], [], []))
    out.append(case_v("V", (a, A, IN), 2, 0, [rr_cname(a, b), rr_cname(b, b)], [], []))
    out.append(case_v("V", (a, A, IN), 2, 0, [rr_cname(a, b), rr_cname(b, a), rr_a(a)], [rr_ns(zone, ns1)], []))
    # duplicate owner, different targets: the later one wins (HashMap::insert)
    out.append(case_v("V", (a, A, IN), 2, 0, [rr_cname(a, b), rr_cname(a, target), rr_a(b), rr_a(target, 5)], [], []))
    out.append(case_v("V", (a, A, IN), 2, 0, [rr_cname(a, target), rr_cname(a, b), rr_a(b), rr_a(target, 5)], [], []))
    # the same CNAME twice
    out.append(case_v("V", (a, A, IN), 2, 0, [rr_cname(a, b), rr_cname(a, b), rr_a(b)], [], []))
    # fix cbd301d: a question for the CNAME record itself is answered by that record, not chased
    alias, wwwc = nm("alias.com."), nm("www.com.")
    out.append(case_v("V", (alias, CNAME, IN), 1, 0, [rr_cname(alias, wwwc)], [], []))
    out.append(case_v("V", (alias, CNAME, IN), 1, 0, [rr_cname(alias, wwwc), rr_cname(wwwc, alias)], [], []))
    out.append(case_v("V", (alias, CNAME, IN), 1, 0, [rr_cname(wwwc, alias)], [rr_ns(nm("com."), nm("ns.com."))], []))
    out.append(case_v("V", (alias, CNAME, IN), 1, 0, [rr_cname(alias, wwwc), rr_cname(alias, alias), rr_a(alias)], [], []))
    # CNAME / ANY / NS questions
    out.append(case_v("V", (a, CNAME, IN), 2, 0, [rr_cname(a, b)], [], []))
    out.append(case_v("V", (a, CNAME, IN), 2, 0, [rr_cname(a, b), rr_cname(b, target)], [], []))
    out.append(case_v("V", (a, ANY, IN), 2, 0, [rr_cname(a, b), rr_a(b), rr_txt(b), rr_a(a), rr_unknown_type(b)], [], []))
    out.append(case_v("V", (zone, NS, IN), 2, 0, [rr_ns(zone, ns1)], [], [rr_a(ns1)]))
    out.append(case_v("V", (zone, NS, IN), 1, 0, [rr_ns(com, ns1)], [], [rr_a(ns1)]))
    out.append(case_v("V", (a, 252, IN), 2, 0, [rr_a(a)], [], []))
    out.append(case_v("V", (a, 252, IN), 2, 0, [rr_cname(a, b), rr_a(b)], [], []))
    # unknown class takes no part in following
    out.append(case_v("V", (a, A, IN), 2, 0, [rr(a, CNAME, ("n", b), cls=3), rr_a(a)], [], []))
    out.append(case_v("V", (a, A, IN), 2, 0, [rr(a, A, ("a", 1), cls=3)], [rr(zone, NS, ("n", ns1), cls=3)], []))
    # root
    root = mt.ROOT
    out.append(case_v("V", (root, NS, IN), 0, 0, [rr_ns(root, nm("a.root-servers.net."))], [], []))
    out.append(case_v("V", (nm("com."), A, IN), 0, 0, [], [rr_ns(root, nm("a.root-servers.net."))], []))
    out.append(case_v("V", (nm("com."), A, IN), 1, 0, [], [rr_ns(root, nm("a.root-servers.net."))], []))
    # glue for unnamed hosts in all three sections
    out.append(case_v("V", qa, 2, 0, [rr_a(ns2)], [rr_ns(zone, ns1), rr_a(ns1), rr_a(ns2)], [rr_a(ns2), rr_a(ns1), rr_aaaa(ns1)]))
    # header gate
    out += gate_corpus()
    return out


def hdr(delta=0, qr=1, opcode=0, aa=0, tc=0, rd=0, ra=1, rcode=0):
    return (delta, qr, opcode, aa, tc, rd, ra, rcode)


def udp_spec(m=None, delay=0, cut=-1, raw=None):
    if m is None and raw is None:
        return "none"
    return "%d~%d~%s" % (delay, cut, mt.msgtok(m) if raw is None else "x" + (bytes(raw).hex() or "-"))


def tcp_spec(m=None, delay=0, delta=0, cut=-1, raw=None, refuse=False):
    if refuse:
        return "refuse"
    if m is None and raw is None:
        return "none"
    return "%d~%d~%d~%s" % (delay, delta, cut, mt.msgtok(m) if raw is None else "x" + (bytes(raw).hex() or "-"))


def case_q(q, udp, tcp):
    return "validate Q %s %s %s" % (mt.qtok(q), udp, tcp)


def gate_corpus():
    out = []
    www = nm("www.example.com.")
    q = (www, A, IN)
    q2 = (nm("other.example.com."), A, IN)
    ans = (rr_a(www),)
    good = (hdr(), (q,), ans, (), ())
    out.append(case_q(q, udp_spec(good), "none"))
    out.append(case_q(q, "none", tcp_spec(good)))
    out.append(case_q(q, "none", "none"))
    out.append(case_q(q, "none", "refuse"))
    muts = [hdr(delta=1), hdr(delta=65535), hdr(qr=0), hdr(opcode=1), hdr(opcode=2), hdr(opcode=15), hdr(tc=1),
            hdr(aa=1), hdr(rd=1), hdr(ra=0)] + [hdr(rcode=r) for r in range(0, 16)]
    for h in muts:
        bad = (h, (q,), ans, (), ())
        out.append(case_q(q, udp_spec(bad), "none"))
        out.append(case_q(q, udp_spec(bad), tcp_spec(good)))
        out.append(case_q(q, "none", tcp_spec(bad)))
    for qs in [(), (q2,), (q, q), (q, q2), ((www, AAAA, IN),), ((www, A, 3),), ((www, A, 255),), ((www, ANY, IN),)]:
        bad = (hdr(), qs, ans, (), ())
        out.append(case_q(q, udp_spec(bad), tcp_spec(good)))
        out.append(case_q(q, udp_spec(bad), "none"))
        out.append(case_q(q, udp_spec(good), tcp_spec(bad)))
        out.append(case_q(q, "none", tcp_spec(bad)))
    # time-outs
    out.append(case_q(q, udp_spec(good, delay=4999), "none"))
    out.append(case_q(q, udp_spec(good, delay=5001), "none"))
    out.append(case_q(q, udp_spec(good, delay=5001), tcp_spec(good, delay=4999)))
    out.append(case_q(q, "none", tcp_spec(good, delay=5001)))
    # datagram cut after the question with counts still set (F10's shape), cut inside the header, empty
    for cut in (0, 1, 11, 12, 20, 33, 34, 40):
        out.append(case_q(q, udp_spec(good, cut=cut), tcp_spec(good)))
        out.append(case_q(q, udp_spec(good, cut=cut), "none"))
        out.append(case_q(q, "none", tcp_spec(good, cut=cut)))
    # TCP length prefix larger / smaller than the body
    for d in (-49, -17, -1, 1, 2, 100):
        out.append(case_q(q, "none", tcp_spec(good, delta=d)))
    # a reply above 512 octets: the UDP prefix does not decode (or decodes to something cut); TCP delivers it whole
    big = (hdr(), (q,), tuple(rr_txt(www, bytes([60]) + b"y" * 60, ttl=i) for i in range(12)), (), ())
    out.append(case_q(q, udp_spec(big), "none"))
    out.append(case_q(q, udp_spec(big), tcp_spec(big)))
    bigtc = (hdr(tc=1), (q,), (), (), ())
    out.append(case_q(q, udp_spec(bigtc), tcp_spec(big)))
    out.append(case_q(q, udp_spec(raw=[0] * 512), tcp_spec(good)))
    out.append(case_q(q, udp_spec(raw=[0] * 12), tcp_spec(raw=[0] * 12)))
    return out


# --------------------------------------------------------------------------
# random adversarial replies
# --------------------------------------------------------------------------

QTYPES = [A, A, A, A, AAAA, NS, CNAME, SOA, MX, TXT, ANY, ANY, 252, 253, 254, UNKNOWN_TYPE]
LABS = ["a", "b", "c", "d", "e", "f", "g"]


class World:
    """the names a reply is built from, relative to one question name"""

    def __init__(self, rng):
        depth = rng.choice([1, 2, 3, 3, 4, 4, 5, 5, 6, 7])          # labels incl. the root label
        ls = [rng.choice(LABS) for _ in range(depth - 1)]
        self.q = tuple(l.encode() for l in ls) + (b"",)
        self.ancestors = [self.q[i:] for i in range(len(self.q))]   # self first, root last
        self.children = [(b"k",) + self.q, (b"m", b"k") + self.q]
        self.siblings = []
        for i in range(1, len(self.q)):
            self.siblings.append((b"sib",) + self.q[i:])
            self.siblings.append((b"x", b"sib") + self.q[i:])
        self.foreign = [nm("foreign.example."), nm("other.net."), nm("x.other.net."), nm("org.")]
        self.targets = [nm("t1.example.net."), nm("t2.example.net."), (b"t3",) + self.ancestors[min(1, len(self.q) - 1)],
                        nm("t4.cdn.example.org."), (b"t5",) + self.q]
        self.hosts = [nm("ns1.example.net."), nm("ns2.example.net."), (b"ns3",) + self.ancestors[-1 if len(self.q) < 2 else -2],
                      (b"ns",) + self.q, nm("ns5.foreign.example.")]
        self.everything = (self.ancestors + self.children + self.siblings + self.foreign + self.targets + self.hosts)

    def any_name(self, rng):
        return rng.choice(self.everything)


def rand_rr_of_type(rng, w, owner, t):
    names = w.everything
    ttl = rng.choice([0, 1, 60, 300, 86400])
    if t == A:
        return rr_a(owner, rng.choice([1, 0x7F000001, 0x01020304, 0xC0000201]), ttl)
    if t == AAAA:
        return rr_aaaa(owner, rng.randint(0, 255), ttl)
    if t in mt.NAME_TYPES:
        return rr(owner, t, ("n", rng.choice(names)), ttl)
    if t == SOA:
        return rr(owner, SOA, ("s", rng.choice(names), rng.choice(names), rng.randint(0, 9), 1, 2, 3, rng.choice([0, 60])), ttl)
    if t == MX:
        return rr_mx(owner, rng.choice(names), ttl)
    if t == tok.MINFO:
        return rr(owner, t, ("i", rng.choice(names), rng.choice(names)), ttl)
    if t == tok.SRV:
        return rr(owner, t, ("v", 1, 2, 53, rng.choice(names)), ttl)
    return rr(owner, t, ("o", bytes([rng.randint(0, 255) for _ in range(rng.choice([0, 1, 3]))])), ttl)


def maybe_unknown_class(rng, r, p=0.04):
    if rng.random() < p:
        return (r[0], r[1], rng.choice([3, 4, 254, 0]), r[3], r[4])
    return r


def asked_rtype(rng, qt):
    if qt in KNOWN:
        return qt
    if qt == UNKNOWN_TYPE:
        return rng.choice([UNKNOWN_TYPE, A])
    return rng.choice([A, TXT, MX, AAAA, NS, SOA])


def gen_answer_section(rng, w, qt):
    """records of the answer section: a CNAME structure rooted (or not) at the question name plus finals"""
    out = []
    style = rng.random()
    chain = [w.q]
    if style < 0.55:
        k = rng.choice([0, 0, 1, 1, 2, 3, 4])
        pool = list(w.targets) + [w.any_name(rng)]
        rng.shuffle(pool)
        chain += pool[:k]
        for i in range(len(chain) - 1):
            out.append(rr_cname(chain[i], chain[i + 1], rng.choice([0, 60, 300])))
        r = rng.random()
        if r < 0.12 and len(chain) > 1:
            out.append(rr_cname(chain[-1], rng.choice(chain)))                  # loop
        elif r < 0.24:
            owner = rng.choice(chain)
            out.append(rr_cname(owner, rng.choice(w.targets + [w.q])))        # duplicate owner, other target
        elif r < 0.30 and len(chain) > 1:
            out.append(out[rng.randrange(len(chain) - 1)])                       # the same CNAME twice
        if rng.random() < 0.35:
            a, b = w.any_name(rng), w.any_name(rng)
            out.append(rr_cname(a, b))                                           # off-path CNAME
            if rng.random() < 0.3:
                out.append(rr_cname(b, rng.choice(chain)))                       # ... leading INTO the path
        # finals
        r = rng.random()
        t = asked_rtype(rng, qt)
        if r < 0.6:
            for _ in range(rng.choice([1, 1, 2, 3])):
                out.append(rand_rr_of_type(rng, w, chain[-1], t))
        elif r < 0.75:
            out.append(rand_rr_of_type(rng, w, rng.choice(chain), t))            # asked type in the middle of the path
        elif r < 0.85:
            out.append(rand_rr_of_type(rng, w, w.any_name(rng), t))              # asked type at an unrelated name
        if rng.random() < 0.3:
            out.append(rand_rr_of_type(rng, w, rng.choice(chain), rng.choice([A, TXT, MX, AAAA, SOA, NS])))
        if rng.random() < 0.2:
            out.append(rand_rr_of_type(rng, w, w.any_name(rng), rng.choice([A, TXT, MX, AAAA, UNKNOWN_TYPE])))
        if rng.random() < 0.15:
            out.append(rr_unknown_type(rng.choice(chain)))
    elif style < 0.70:
        # NS / glue in the answer section (delegations may sit there)
        out += gen_ns_records(rng, w, rng.choice([1, 1, 2]))
        if rng.random() < 0.5:
            out += gen_glue(rng, w, out)
        if rng.random() < 0.2:
            out.append(rr_cname(w.any_name(rng), w.any_name(rng)))
    elif style < 0.80:
        for _ in range(rng.choice([1, 2, 3])):
            out.append(rand_rr_of_type(rng, w, w.any_name(rng), rng.choice([A, TXT, MX, AAAA, NS, CNAME, SOA, UNKNOWN_TYPE])))
    else:
        pass  # empty
    out = [maybe_unknown_class(rng, r) for r in out]
    if rng.random() < 0.8:
        rng.shuffle(out)
    return out


def gen_ns_records(rng, w, groups):
    """NS record groups owned by ancestors at several depths, siblings, children, foreign names"""
    out = []
    for _ in range(groups):
        r = rng.random()
        if r < 0.40:
            owner = rng.choice(w.ancestors)
        elif r < 0.60:
            owner = rng.choice(w.ancestors[:2])                      # the question name itself or its parent
        elif r < 0.70:
            owner = rng.choice(w.siblings) if w.siblings else rng.choice(w.foreign)
        elif r < 0.80:
            owner = rng.choice(w.children)
        elif r < 0.93:
            owner = rng.choice(w.foreign)
        else:
            owner = w.any_name(rng)
        for _ in range(rng.choice([1, 1, 2, 3])):
            out.append(rr_ns(owner, rng.choice(w.hosts), rng.choice([60, 300, 172800])))
    return out


def gen_glue(rng, w, ns_rrs):
    out = []
    named = [r[4][1] for r in ns_rrs if r[1] == NS]
    for _ in range(rng.choice([1, 2, 3, 4])):
        r = rng.random()
        if r < 0.6 and named:
            h = rng.choice(named)
        elif r < 0.85:
            h = rng.choice(w.hosts)            # perhaps unnamed
        else:
            h = w.any_name(rng)
        out.append(rr_a(h, rng.choice([0x0A000001, 0xC0000202, 0x7F000001])) if rng.random() < 0.65 else rr_aaaa(h, rng.randint(0, 9)))
    return out


def gen_soas(rng, w):
    k = rng.choice([0, 1, 1, 1, 1, 1, 2])
    out = []
    for _ in range(k):
        r = rng.random()
        if r < 0.65:
            owner = rng.choice(w.ancestors)
        elif r < 0.8:
            owner = rng.choice(w.children)
        else:
            owner = rng.choice(w.siblings + w.foreign)
        out.append(rr_soa(owner, rng.randint(1, 3), rng.choice([0, 60, 300])))
    return out


def gen_reply(rng, force_nx=False):
    w = World(rng)
    qt = rng.choice(QTYPES)
    q = (w.q, qt, IN if rng.random() < 0.95 else rng.choice([255, 3]))
    depth = len(w.q)
    if rng.random() < 0.78:
        mc = rng.randint(0, depth - 1)          # a delegation strictly above the question name is in use
    else:
        mc = rng.choice([depth, depth, depth + 1, rng.randint(0, 8)])
    kind = 0.8 if force_nx else rng.random()
    an, au, ad = [], [], []
    if kind < 0.40:
        an = gen_answer_section(rng, w, qt)
        if rng.random() < 0.4:
            au = gen_ns_records(rng, w, rng.choice([1, 2]))
        if rng.random() < 0.3:
            ad = gen_glue(rng, w, an + au)
    elif kind < 0.70:
        # referral-shaped
        if rng.random() < 0.35:
            an = gen_ns_records(rng, w, rng.choice([1, 2]))
            if rng.random() < 0.4:
                an += gen_glue(rng, w, an)
        au = gen_ns_records(rng, w, rng.choice([1, 1, 2, 3]))
        if mc < depth and rng.random() < 0.5:
            # make sure a strictly better delegation is on offer
            owner = rng.choice([a for a in w.ancestors if len(a) > mc])
            au += [rr_ns(owner, rng.choice(w.hosts)) for _ in range(rng.choice([1, 2]))]
        if rng.random() < 0.3:
            au += gen_glue(rng, w, au)            # glue in authority is ignored
        if rng.random() < 0.2:
            au += gen_soas(rng, w)
        if rng.random() < 0.75:
            ad = gen_glue(rng, w, an + au)
        if rng.random() < 0.1:
            ad += gen_ns_records(rng, w, 1)        # NS in additional is ignored
    elif kind < 0.93:
        # NXDOMAIN / NODATA-shaped
        au = gen_soas(rng, w)
        if rng.random() < 0.15:
            au += gen_ns_records(rng, w, 1)
        if rng.random() < 0.2:
            au.append(rand_rr_of_type(rng, w, w.any_name(rng), rng.choice([TXT, A, MX])))
        if rng.random() < 0.12:
            an = gen_answer_section(rng, w, qt)
        if rng.random() < 0.15:
            ad = gen_glue(rng, w, au)
    else:
        for sec in (an, au, ad):
            for _ in range(rng.choice([0, 1, 2, 4])):
                sec.append(maybe_unknown_class(rng, rand_rr_of_type(
                    rng, w, w.any_name(rng), rng.choice([A, NS, CNAME, SOA, MX, TXT, AAAA, tok.SRV, tok.PTR, UNKNOWN_TYPE]))))
    au = [maybe_unknown_class(rng, r, 0.02) for r in au]
    if rng.random() < 0.5:
        rng.shuffle(au)
    if rng.random() < 0.5:
        rng.shuffle(ad)
    rcode = rng.choice([0, 0, 0, 0, 0, 0, 3, 3, 3, 3, 2, 5, 1, 4, 0, 3])
    return w, q, mc, rcode, an, au, ad


def gen_gate(rng):
    w, q, _, rcode, an, au, ad = gen_reply(rng)
    q = (q[0], q[1], IN)

    def mutated():
        h = [0, 1, 0, rng.randint(0, 1), 0, rng.randint(0, 1), rng.randint(0, 1), rng.choice([0, 0, 0, 3])]
        qs = (q,)
        r = rng.random()
        if r < 0.35:
            pass
        elif r < 0.43:
            h[0] = rng.choice([1, 2, 255, 256, 65535, rng.randint(1, 65535)])
        elif r < 0.50:
            h[1] = 0
        elif r < 0.57:
            h[2] = rng.choice([1, 2, 3, 4, 15])
        elif r < 0.64:
            h[4] = 1
        elif r < 0.76:
            h[7] = rng.choice([1, 2, 3, 4, 5, 6, 9, 15])
        elif r < 0.84:
            other = (w.any_name(rng), q[1], IN)
            qs = rng.choice([(), (other,), (q, q), (q, other), ((q[0], rng.choice(QTYPES), IN),), ((q[0], q[1], rng.choice([3, 255])),)])
        else:
            # two mutations at once
            h[rng.choice([1, 4])] ^= 1
            h[7] = rng.choice([0, 2, 3])
        return (tuple(h), qs, tuple(an), tuple(au), tuple(ad))

    def one(is_tcp):
        r = rng.random()
        if r < 0.12:
            return "none" if not is_tcp or rng.random() < 0.6 else "refuse"
        m = mutated()
        delay = rng.choice([0, 0, 0, 0, 1, 4999, 5001, 9000])
        cut = -1
        rr_ = rng.random()
        if rr_ < 0.08:
            cut = rng.choice([0, 5, 11, 12, 13, 12 + mt.name_len(q[0]) + 4, rng.randint(0, 80)])
        if rr_ > 0.97:
            raw = [rng.randint(0, 255) for _ in range(rng.choice([0, 3, 12, 30]))]
            return tcp_spec(raw=raw, delay=delay) if is_tcp else udp_spec(raw=raw, delay=delay)
        if is_tcp:
            delta = 0
            if rng.random() < 0.08:
                delta = rng.choice([1, 2, 50, -1, -5])
                if delta < 0 and cut >= 0:
                    delta = 1
            return tcp_spec(m, delay=delay, delta=delta, cut=cut)
        return udp_spec(m, delay=delay, cut=cut)

    return case_q(q, one(False), one(True))


def generate(rng, tier):
    n = 10000 if tier == "quick" else 300000
    cases = corpus()
    while len(cases) < n:
        r = rng.random()
        if r < 0.80:
            _, q, mc, rcode, an, au, ad = gen_reply(rng)
            cases.append(case_v("V", q, mc, rcode, an, au, ad))
        elif r < 0.86:
            _, q, mc, rcode, an, au, ad = gen_reply(rng, force_nx=rng.random() < 0.8)
            cases.append(case_v("S", q, mc, rcode, an, au, ad))
        else:
            cases.append(gen_gate(rng))
    return cases


# --------------------------------------------------------------------------
# oracle: the property text evaluated on the implementation's output
# --------------------------------------------------------------------------

def is_unknown(r):
    return r[1] not in KNOWN or r[2] != IN


def type_matches(t, qt):
    if qt == ANY:
        return True
    if qt in (252, 253, 254):
        return False
    return t == qt


def parse_sec(t):
    return [] if t == "_" else [mt.parse_rr(x) for x in t.split(";")]


def reachable(qname, answers):
    """names reached from the question name by following (known-class) CNAME records of the answer section"""
    edges = {}
    for r in answers:
        if r[1] == CNAME and not is_unknown(r):
            edges.setdefault(r[0], []).append(r[4][1])
    seen = {qname}
    todo = [qname]
    while todo:
        n = todo.pop()
        for t in edges.get(n, ()):
            if t not in seen:
                seen.add(t)
                todo.append(t)
    return seen, edges


def best_delegation(qname, mc, an, au):
    """(owner, hosts) of the deepest NS set in answer+authority owned by an ancestor-or-self of the question
    name with more than mc labels, or None"""
    best = None
    for r in an + au:
        if r[1] == NS and is_sub(qname, r[0]) and len(r[0]) > mc:
            if best is None or len(r[0]) > len(best):
                best = r[0]
    if best is None:
        return None
    hosts = {r[4][1] for r in an + au if r[1] == NS and r[0] == best}
    return best, hosts


def soa_allowed(r, q, mc, rcode, an, au):
    if an or rcode not in (0, 3):
        return False
    soas = [x for x in au if x[1] == SOA]
    return (len(soas) == 1 and soas[0] == r and is_sub(q[0], r[0]) and len(r[0]) >= mc)


def oracle_v(toks, impl):
    q = mt.parse_q(toks[2])
    mc, rcode = int(toks[3]), int(toks[4])
    an, au, ad = parse_sec(toks[5]), parse_sec(toks[6]), parse_sec(toks[7])
    if impl == "None":
        return None
    p = impl.split("|")
    variant = p[0]
    rrs = parse_sec(p[1])
    qname, qt = q[0], q[1]
    if variant in ("Answer", "Cname"):
        soa = None if variant == "Cname" or p[2] == "-" else mt.parse_rr(p[2])
        seen, edges = reachable(qname, an)
        for r in rrs:
            if qt == CNAME:
                # a question for the CNAME itself: nothing is followed
                ok = r in an and not is_unknown(r) and r[0] == qname and r[1] == CNAME
            else:
                ok = (r in an and not is_unknown(r) and r[0] in seen
                      and (r[1] == CNAME or (type_matches(r[1], qt) and r[0] not in edges)))
            if not ok:
                return ("not-allowed", "the accepted answer holds %s, which is neither of the asked type at the name "
                        "reached from the question name by CNAMEs of the answer section nor a CNAME on that path" % mt.rrtok(r))
        # chain order: CNAMEs from the question name, each owned by the previous target, no owner twice,
        # then records at the final name only (for a CNAME question there is no chain)
        cur = qname
        owners = set()
        i = 0
        while qt != CNAME and i < len(rrs) and rrs[i][1] == CNAME and rrs[i][0] == cur and cur not in owners:
            owners.add(cur)
            cur = rrs[i][4][1]
            i += 1
        for r in rrs[i:]:
            if r[0] != cur or (r[1] == CNAME and qt != CNAME) or not type_matches(r[1], qt):
                return ("chain-order", "the accepted answer is not the CNAME chain from the question name in order "
                        "followed by records of the asked type at the final name: %s" % secs(rrs))
        if variant == "Cname":
            if i != len(rrs) or i == 0 or mt.parse_name(p[2]) != cur:
                return ("chain-order", "a CNAME result must be a non-empty chain ending at the name to resolve next")
        elif soa is None and i == len(rrs):
            return ("chain-order", "an Answer without SOA must hold a record at the final name")
        if soa is not None:
            if rrs:
                return ("not-allowed", "a negative answer carries records")
            if not soa_allowed(soa, q, mc, rcode, an, au):
                return ("not-allowed", "the SOA %s is not the single SOA of an NXDOMAIN/NODATA reply owned by an "
                        "ancestor with >= %d labels" % (mt.rrtok(soa), mc))
        return None
    if variant == "Deleg":
        dname = mt.parse_name(p[2])
        hosts = set() if p[3] == "_" else {mt.parse_name(x) for x in p[3].split(";")}
        best = best_delegation(qname, mc, an, au)
        if not (is_sub(qname, dname) and len(dname) > mc):
            return ("no-progress", "delegation to %s is not an ancestor of the question name with more than %d labels"
                    % (mt.nametok(dname), mc))
        if best is None or best[0] != dname:
            return ("not-allowed", "delegation name %s is not the deepest NS owner among the ancestors in the reply" % mt.nametok(dname))
        named = set()
        for r in rrs:
            if r[1] == NS:
                ok = (r in an or r in au) and r[0] == dname
                named.add(r[4][1])
            elif r[1] in (A, AAAA):
                ok = (r in an or r in ad) and r[0] in best[1]
            else:
                ok = False
            if not ok:
                return ("not-allowed", "the delegation holds %s: not an NS record of the delegated name %s nor an address "
                        "of a host those name" % (mt.rrtok(r), mt.nametok(dname)))
        if not hosts or not hosts <= named:
            return ("unnamed-host", "a delegation host is not named by an accepted NS record (or there is none)")
        return None
    return ("bad-output", "unknown variant " + variant)


def oracle_s(toks, impl):
    if impl == "None":
        return None
    q = mt.parse_q(toks[2])
    mc, rcode = int(toks[3]), int(toks[4])
    an, au = parse_sec(toks[5]), parse_sec(toks[6])
    r = mt.parse_rr(impl[len("Some:"):])
    if not soa_allowed(r, q, mc, rcode, an, au):
        return ("not-allowed", "get_nxdomain_nodata_soa returned %s" % mt.rrtok(r))
    return None


def gate_passes(m, q):
    h = m[0]
    return (h[0] == 0 and h[1] == 1 and h[2] == 0 and h[4] == 0 and h[7] in (0, 3) and m[1] == (q,))


def parse_spec(s, is_tcp):
    """-> None (nothing usable arrives, for sure) | ("msg", m) the whole message m arrives in time
          | "unknown" (cut / raw / oversize: what is decoded is the wire model's business)"""
    if s in ("none", "refuse"):
        return None
    p = s.split("~")
    delay = int(p[0])
    if delay >= 5000:
        return None
    if is_tcp:
        delta, cut, body = int(p[1]), int(p[2]), p[3]
        if delta > 0:
            return None
        if delta < 0:
            return "unknown"
    else:
        cut, body = int(p[1]), p[2]
    if cut >= 0 or body.startswith("x"):
        return "unknown"
    m = mt.parse_msg(body)
    if not is_tcp:
        # an upper bound of the encoded size (no compression)
        size = 12 + sum(mt.name_len(x[0]) + 4 for x in m[1])
        for sec in m[2:]:
            for r in sec:
                size += mt.name_len(r[0]) + 10 + mt.rdata_wire_len(r[4])
        if size > 512:
            return "unknown"
    return ("msg", m)


def oracle_q(toks, impl):
    q = mt.parse_q(toks[2])
    udp = parse_spec(toks[3], False)
    tcp = parse_spec(toks[4], True)
    if impl.startswith("Some:"):
        m = mt.parse_msg(impl[5:])
        if not gate_passes(m, q):
            return ("gate", "query_nameserver returned a reply that does not match the request: header %s questions %s"
                    % (mt.headertok(m[0]), ";".join(mt.qtok(x) for x in m[1]) or "_"))
        # it must be what one of the two transports carried
        cands = [x for x in (udp, tcp) if x is not None]
        if not cands:
            return ("gate", "query_nameserver returned a reply though nothing arrived in time")
        if "unknown" not in cands and all(x[1] != m for x in cands):
            return ("gate", "query_nameserver returned a message that neither transport carried")
        if isinstance(udp, tuple) and gate_passes(udp[1], q) and udp[1] != m:
            return ("gate", "the matching UDP reply was not the one returned")
        return None
    if impl == "None":
        for x in (udp, tcp):
            if isinstance(x, tuple) and gate_passes(x[1], q):
                return ("gate-drop", "a reply matching the request (id, QR, opcode, question, TC clear, rcode 0/3) was discarded")
        return None
    return None


def oracle(case, impl, model):
    if impl == "Panic":
        return ("panic", "the reply filter panicked")
    toks = case.split(" ")
    try:
        if toks[1] == "V":
            return oracle_v(toks, impl)
        if toks[1] == "S":
            return oracle_s(toks, impl)
        if toks[1] == "Q":
            return oracle_q(toks, impl)
    except (ValueError, IndexError, KeyError):
        return None   # malformed output is a correspondence matter
    return None


def kind(case, out):
    """buckets = the arms of the model: which variant, and through which arm it was reached"""
    toks = case.split(" ")
    op = toks[1]
    if op == "Q":
        u, t = toks[3], toks[4]
        return "Q:%s:udp=%s:tcp=%s" % ("Some" if out.startswith("Some") else out[:6],
                                       "none" if u == "none" else "reply", t if t in ("none", "refuse") else "reply")
    if op == "S":
        return "S:" + out.split(":")[0]
    v = out.split("|")[0]
    try:
        q = mt.parse_q(toks[2])
        mc = int(toks[3])
        an, au = parse_sec(toks[5]), parse_sec(toks[6])
        if v == "Answer":
            if not out.endswith("|-"):
                return "V:Negative"
            rrs = parse_sec(out.split("|")[1])
            if q[1] == CNAME:
                return "V:Answer:cname-question"
            return "V:Answer:" + ("cname-chain" if rrs and rrs[0][1] == CNAME and rrs[-1][1] != CNAME else "direct")
        if v == "Deleg":
            a, b = best_delegation(q[0], mc, an, []), best_delegation(q[0], mc, [], au)
            if a and b:
                return "V:Deleg:" + ("answer-deeper" if len(a[0]) > len(b[0]) else "equal-depth" if len(a[0]) == len(b[0]) else "authority-deeper")
            return "V:Deleg:" + ("answer-only" if a else "authority-only")
        if v == "None":
            seen, edges = reachable(q[0], an)
            if q[0] in edges and q[1] != CNAME:
                return "V:None:cname-loop"
            if not an:
                return "V:None:no-answers"
            return "V:None:nothing-relevant"
    except (ValueError, IndexError):
        pass
    return "V:" + v[:8]


def nontrivial(case, out):
    toks = case.split(" ")
    if toks[1] == "Q":
        return toks[3] != "none" or toks[4] not in ("none", "refuse")
    return sum(0 if t == "_" else t.count(";") + 1 for t in toks[5:8]) >= 2


# --------------------------------------------------------------------------
# resolver stream (hook `extra`): non-progressing referrals through the resolver LOOP
#
# The V op hands the filter an explicit match_count, so it cannot see how resolve_recursive COMPUTES the depth of
# the delegation in use (Nameservers::match_count, taken from root hints, from a cached NS set or from the referral
# just followed).  These cases run the whole recursive resolver (drivers of the `resolver` stream, syntax:
# ocaml/drv_resolver.ml) against a generated universe in which the reply of the servers of ONE zone on the path to
# ONE question is replaced by a referral that makes no progress:
#    same   NS records owned by the very zone the server was reached through
#    up     NS records owned by a zone above it
#    side   NS records owned by a name that is no ancestor of the question name
# naming fresh hosts (outside every zone, or inside the zone in use) with glue addresses nobody else has; at the
# root, in the middle of the chain and at the last zone; the delegation in use coming from the root hints, from a
# referral followed in the same resolution (cold) or from the cache (warm); the NS records in the authority or in
# the answer section.  Behind the fresh addresses: nobody (silent), a server with a forged answer (answer), a
# server repeating the referral (loop); `selfloop` = a same-depth referral naming the zone's REAL servers again.
# Oracle, on the implementation's output alone: nothing of the referral reaches the cache or an answer, no exchange
# goes to an address learnt only from it, the zone's servers are not asked the same question again, and the question
# ends as a dead end (every server that could make progress has refused to) -- not as an answer, not by running
# out of the 60 s budget.
# --------------------------------------------------------------------------

RES_MODES = {"r4": ("4", "46"), "rp4": ("4", "6", "46"), "rp6": ("4", "6", "46"), "r6": ("6", "46")}
FORGED = 0x06060606


def wire_reply(q, an=(), au=(), ad=(), aa=0, rcode=0):
    from . import wiregen
    return wiregen.encode(((0, 1, 0, aa, 0, 0, 0, rcode), (q,), tuple(an), tuple(au), tuple(ad)), mode="none").hex()


def ip_rr(host, iptok, ttl=3600):
    """address record for an ip token of the resolver stream (a<u32> | q<32 hex digits>)"""
    if iptok[0] == "a":
        return rr(host, A, ("a", int(iptok[1:])), ttl)
    return rr(host, AAAA, ("q", bytes.fromhex(iptok[1:])), ttl)


def nonprog_builder(rng, batch, seed_u, mode, level, direction, behind, warm, section, fresh_style, qchoice=0, tag="gen"):
    """one resolver-stream case; -> CaseBuilder | None when the combination does not exist in this universe"""
    from . import resolvergen as rg
    u = seed_u
    path = ["."] + u.chain
    L = {"root": 0, "last": len(path) - 1}.get(level)
    if L is None:
        if len(path) < 3:
            return None
        L = 1 + (qchoice % (len(path) - 2))
    zone_l = path[L]
    last = path[-1]
    qn, qt = [("www." + last, A), ("txt." + last, TXT), ("nx." + last, A), ("alias." + last, A), ("mail." + last, MX)][qchoice % 5]
    if direction == "up":
        if L == 0:
            return None
        owner = path[(qchoice // 2) % L]
    elif direction == "side":
        owner = "elsewhere." if L == 0 else "beside-%d.%s" % (L, path[L - 1] if path[L - 1] != "." else "")
    else:
        owner = zone_l
    zl_ips = [ip for ip, apexes in u.servers.items() if zone_l in apexes]
    fams = {"r4": "4", "r6": "6"}.get(mode, "46")
    k = 1 + (qchoice % 2)
    evil, fresh, glue, nsrrs = [], [], [], []
    base = 0x4200 + 16 * rng.randint(0, 200)
    if behind == "selfloop":
        # the zone's real servers, named again by a referral for the zone itself
        z = u.zones[zone_l]
        for h in z.ns:
            nsrrs.append(rr_ns(nm(owner), nm(h), 3600))
            for ip in u.hosts.get(h, []):
                glue.append(ip_rr(nm(h), ip))
    else:
        for i in range(k):
            host = ("ns%d.intruder-%d." % (i + 1, base)) if fresh_style == "out" else ("fresh%d-%d.%s" % (i + 1, base, zone_l if zone_l != "." else ""))
            fresh.append(host)
            nsrrs.append(rr_ns(nm(owner), nm(host), rng.choice([300, 3600, 172800])))
            for f in fams:
                ip = rg.v4(0x0A000000 + base + 2 * i) if f == "4" else rg.v6(0x660000 + base + 2 * i + 1)
                evil.append(ip)
                glue.append(ip_rr(nm(host), ip))
    q = (nm(qn), qt, IN)
    an, au = (nsrrs, []) if section == "answer" else ([], nsrrs) if section == "authority" else (nsrrs[:1], nsrrs)
    doctored = wire_reply(q, an=an, au=au, ad=glue)
    qtok = mt.qtok(q)
    prefix = ["%s=%s=%s" % (",".join(zl_ips), qtok, doctored)]
    forged = []
    if behind == "answer" and evil:
        forged = [rg.v4(FORGED)]
        data = {A: ("a", FORGED), TXT: ("o", b"\x06forged"), MX: ("x", 6, nm(qn))}[qt]
        prefix.append("%s=%s=%s" % (",".join(evil), qtok, wire_reply(q, an=[rr(nm(qn), qt, data)], aa=1)))
    elif behind == "loop" and evil:
        prefix.append("%s=%s=%s" % (",".join(evil), qtok, doctored))
    questions = []
    if warm and L > 0:
        questions.append(("a.ent." + zone_l, A))          # leaves the delegation of zone_l in the cache
    questions.append((qn, qt))
    # a repeating referral followed by mistake must cost virtual time, or the 60 s budget never ends it
    # (150 exchanges of 400 ms use it up; the plan covers the exchanges before them as well)
    faults = rg.fault_plan({n: "delay400" for n in range(420)}) if behind in ("loop", "selfloop") else "_"
    flags = {"kind": "%s:%s:%s:%s:%s" % (tag, level, direction, behind, "warm" if warm and L > 0 else "cold"),
             "ff": "0", "dq": str(len(questions) - 1), "zl": ",".join(zl_ips), "evil": ",".join(evil + forged) or "-",
             "fresh": ",".join(mt.nametok(nm(h)) for h in fresh) or "-", "sec": section}
    b = rg.CaseBuilder(batch, u, mode, 53, questions, faults=faults, flags=flags)
    b.table_prefix = prefix
    return b


def nonprog_universe(rng, mode, depth=None):
    from . import resolvergen as rg
    return rg.gen_universe(rng, depth=depth or rng.choice([2, 2, 3, 3, 4]), provider=rng.random() < 0.3, fams=RES_MODES[mode],
                           max_ns=2)


def resolver_cases(rng, tier):
    import random
    from . import resolvergen as rg
    batch = rg.Batch()
    builders = []
    modes = sorted(RES_MODES)
    # corpus: every (level, direction, behind, warm) once, on fixed universes, modes and sections in rotation
    i = 0
    for level in ("root", "mid", "last"):
        for direction in ("same", "up", "side"):
            for behind in ("silent", "answer", "loop", "selfloop"):
                if behind == "selfloop" and direction != "same":
                    continue
                for warm in (False, True):
                    if warm and level == "root":
                        continue
                    mode = modes[i % 4]
                    r = random.Random(600 + i)
                    u = nonprog_universe(r, mode, depth=[3, 2, 4][i % 3] if level == "mid" else [2, 1, 3][i % 3])
                    b = nonprog_builder(r, batch, u, mode, level, direction, behind, warm, ("authority", "answer", "both")[i % 3],
                                        ("out", "in")[(i // 3) % 2], qchoice=i, tag="corpus")
                    i += 1
                    if b is not None:
                        builders.append(b)
    n = 160 if tier == "quick" else 4000
    for j in range(n):
        mode = rng.choice(modes)
        u = nonprog_universe(rng, mode)
        direction = rng.choice(["same", "same", "same", "up", "side"])
        behind = rng.choice(["silent", "answer", "loop"] + (["selfloop"] if direction == "same" else []))
        b = nonprog_builder(rng, batch, u, mode, rng.choice(["root", "mid", "mid", "last", "last"]), direction, behind,
                            rng.random() < 0.5, rng.choice(["authority", "authority", "answer", "both"]), rng.choice(["out", "in"]),
                            qchoice=rng.randint(0, 59))
        if b is not None:
            builders.append(b)
    outs = batch.run()
    return [b.line(outs) for b in builders]


def nonprog_oracle(case, impl):
    """-> None | (class, text): the sentences of the header comment on the implementation's output"""
    from . import resolvergen as rg
    if impl == "Panic":
        return ("panic", "the resolver panicked")
    try:
        c = rg.Case(case)
        parsed = rg.parse_result(impl)
        if parsed is None:
            return None
        results, cache = parsed
        evil = set(c.flags["evil"].split(",")) - {"-"}
        fresh = set(c.flags["fresh"].split(",")) - {"-"}
        zl = set(c.flags["zl"].split(","))
        dq = int(c.flags["dq"])
        kindtxt = c.flags.get("kind", "?")

        def poisoned(name, data):
            return name in fresh or data in evil or (data[0] == "n" and data[1:] in fresh)
        if cache != "_":
            for e in cache.split("+"):
                name, typ, vals = e.split("=")
                for v in vals.split("&"):
                    if poisoned(name, v.rsplit("@", 1)[0]):
                        return ("non-progressing-referral-cached",
                                "[%s] a record of a referral that is not deeper than the delegation in use is in the cache: %s type %s %s"
                                % (kindtxt, rg.tokname(name), typ, v))
        for (qn, qt, qc), r in zip(c.questions, results):
            for x in r.rrs:
                p = tok.parse_rr(x)
                if poisoned(p["name"], p["data"]):
                    return ("non-progressing-referral-used", "[%s] %s type %d is answered with %s, which only a server reached through "
                            "a referral that is not deeper than the delegation in use supplied (or that referral itself)" % (kindtxt, rg.tokname(qn), qt, x))
            for e in r.log:
                if e.ip in evil:
                    return ("non-progressing-referral-followed", "[%s] %s type %d: exchange %d goes to %s, an address only a referral that is "
                            "not deeper than the delegation in use named" % (kindtxt, rg.tokname(qn), qt, e.n, e.ip))
        if dq < len(results):
            (qn, qt, qc), r = c.questions[dq], results[dq]
            again = {}
            for e in r.log:
                if e.kind == "U" and e.ip in zl and (e.qname, e.qtype) == (qn, qt):
                    again[e.ip] = again.get(e.ip, 0) + 1
            if any(v > 1 for v in again.values()):
                return ("non-progressing-referral-loop", "[%s] %s type %d: a server of the zone in use is asked the same question %d times: its "
                        "referral to its own zone is followed" % (kindtxt, rg.tokname(qn), qt, max(again.values())))
            if again:
                # the doctored reply was delivered: nobody that could make progress is left
                if r.kind == "E" and r.error.startswith("timeout"):
                    return ("non-progressing-referral-loop", "[%s] %s type %d ran out of the 60 s budget" % (kindtxt, rg.tokname(qn), qt))
                if r.kind in ("A", "N", "X"):
                    return ("non-progressing-referral-used", "[%s] %s type %d is answered (%s) although every server of the zone in use "
                            "only offered a referral that makes no progress" % (kindtxt, rg.tokname(qn), qt, r.raw[:80]))
    except Exception:      # malformed output is a correspondence matter
        return None
    return None


def nonprog_delivered(case, out):
    """the doctored reply was delivered to the resolver (model's or implementation's log)"""
    from . import resolvergen as rg
    try:
        c = rg.Case(case)
        p = rg.parse_result(out)
        dq = int(c.flags["dq"])
        zl = set(c.flags["zl"].split(","))
        qn, qt, _ = c.questions[dq]
        return p is not None and any(e.kind == "U" and e.ip in zl and (e.qname, e.qtype) == (qn, qt) for e in p[0][dq].log)
    except Exception:
        return False


def extra(ctx):
    """-> (failures, info): the resolver-stream cases above on both drivers of the `resolver` stream"""
    import random
    from . import core, netgen
    from . import resolvergen as rg
    info = {"stream": "resolver (non-progressing referrals through resolve_recursive)", "evaluations": 0, "distinct_nontrivial": 0,
            "rule": "non-trivial = distinct case in which, according to the model, the doctored referral was delivered to the resolver"}
    ok, out = (True, "up to date") if netgen.model_driver_fresh("resolver", netgen.ML_EXTRA) else core.build_model_driver("resolver", netgen.ML_EXTRA)
    if not ok:
        return [core.Failure("resolver-model-build", "model driver `resolver` failed to build: " + core.trunc(out[-800:], 800), found_input=False)], info
    ok, out = core.build_impl_driver("resolver")
    if not ok:
        return [core.Failure("resolver-impl-build", "harness driver `resolver` failed to build against /repo: " + core.trunc(out[-1500:], 1500),
                             found_input=False)], info
    rng = random.Random(ctx["seed"] * 1000003 + 6 * 7919 + 11)
    cases = resolver_cases(rng, ctx["tier"])
    mouts = netgen.run_past_deaths(core.model_driver_path("resolver"), cases, ctx["run_dir"], "np-model")
    iouts = netgen.run_past_deaths(core.impl_driver_path("resolver"), cases, ctx["run_dir"], "np-impl")
    failures, dist, results, byclass, seen = [], {}, {}, {}, set()
    disagreements = delivered_impl = not_run = 0
    for c, mo, io in zip(cases, mouts, iouts):
        info["evaluations"] += 1
        if c not in seen:
            seen.add(c)
            if nonprog_delivered(c, mo):
                info["distinct_nontrivial"] += 1
        k = netgen.kind_of(c)
        dist[k] = dist.get(k, 0) + 1
        if io.startswith("DRIVER-DIED-AFTER") or mo.startswith("DRIVER-DIED-AFTER"):
            not_run += 1
            continue
        if nonprog_delivered(c, io):
            delivered_impl += 1
        try:
            p = rg.parse_result(io)
        except Exception:
            p = None
        if p:
            for r in p[0]:
                rk = r.kind + (":" + r.error.split(":")[0] if r.kind == "E" else "")
                results[rk] = results.get(rk, 0) + 1
        f = nonprog_oracle(c, io)
        if f is None and io.startswith("DRIVER-DIED"):
            f = ("non-progressing-referral-loop", "the resolution did not complete (driver died or hung)")
        if f is not None:
            byclass[f[0]] = byclass.get(f[0], 0) + 1
            if byclass[f[0]] <= 20:
                failures.append(core.Failure(f[0], f[1] + "  [replay: feed the case line to build/target/debug/impl_resolver]", c, io, mo))
        elif mo != io:
            disagreements += 1
            if disagreements <= 10:
                failures.append(core.Failure("resolver-correspondence",
                                             "model and implementation disagree on a non-progressing-referral case (resolver stream); no property "
                                             "failure found on it  [replay: feed the case line to build/model_resolver and "
                                             "build/target/debug/impl_resolver]", c, io, mo, found_input=False))
    info.update({"disagreements": disagreements, "not_run_behind_a_driver_death": not_run, "doctored_reply_delivered_impl": delivered_impl,
                 "results": dict(sorted(results.items())), "oracle_failures_by_class": dict(sorted(byclass.items())),
                 "distribution": dict(sorted(dist.items())),
                 "sample": {"case": core.trunc(cases[0], 300), "impl": core.trunc(iouts[0], 300)} if cases else {}})
    return failures, info
