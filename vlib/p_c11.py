"""C11 -- a zone file means what RFC 1035 section 5 says it means.

Stream "zonefile" (syntax: ocaml/drv_zonefile.ml), op P.  A case line is
    zonefile P <text> <kind>=<expectation>
where the last token is ignored by both drivers and read by the oracle:
    expectation = the expected P result string, computed by the independent python denotation
                  (vlib/zonefilegen.py denote) of the abstract file the text was rendered from
                | "reject"   the file carries one of the faults the property lists: must be an Err
                | "any"      malformed text outside the property's list (interpretations D9 / D10):
                             only "no panic / no hang" and model = impl are required
"""
import os

from . import core, tok
from . import zonefilegen as zg

ID = "C11"
DRIVER = "zonefile"
COQ_TARGETS = ["Properties/C11.vo"]
THEOREMS = ["C11_tokenise_render", "C11_tokenise_render_simple", "C11_parse_rr_forms", "C11_unambiguous_sufficient",
            "C11_reject_include", "C11_reject_class", "C11_reject_second_soa", "C11_reject_wildcard_soa",
            "C11_reject_outside_apex", "C11_reject_relative_without_origin", "C11_reject_no_ttl",
            "C11_no_partial_load", "C11_soa_raises_ttls"]
RULE = ("cases: abstract zone files (entries = $ORIGIN | RR with owner form in {absent, absolute, relative, @, *.x, *}, "
        "optional TTL and class in either order, all 18 record types) rendered to text: exhaustively the 10 field shapes x "
        "18 types in a plain and in random layouts, then random files with random layouts (space/tab runs, comments, "
        "parenthesised groups incl. parentheses glued to tokens, quoted/unquoted tokens, \\X and \\DDD escapes per octet), "
        "and single-fault corruptions of such files; non-trivial = distinct case line holding at least one record entry")
ASSUMPTIONS = [
    "D3: the SOA RR is loaded with TTL = MINIMUM and a following record without TTL inherits that value",
    "D4: a class mnemonic other than IN where an owner may stand is an owner name; rejection is claimed for shapes with an explicit owner",
    "D9/D10: an unterminated quoted string or an open parenthesis at the end of input is accepted (the tokeniser returns the "
    "tokens read so far); such texts are generated (kind unterminated-*) and only checked for model = impl and no panic",
    "the generated RR entries are 'unambiguous': no owner / RDATA-name token is all digits, 'IN', a type mnemonic or TYPE<n>",
    "std's Ipv4Addr/Ipv6Addr FromStr/Display are a parameter of the model (all theorems hold for every codec); the driver instance is Ip/IpModel.v (coq/ZoneFile/ZfInstance.v)",
]
TRUSTED = ["python denotation vlib/zonefilegen.py denote (the oracle's reading of RFC 1035 section 5 plus D3/D4)"]

CORPUS = os.path.join(core.VERIF, "corpus", "C11")


def mk(kind, text, expect):
    return "zonefile P %s %s=%s" % (tok.text(text), kind, expect)


def L(*names):
    return tuple(n.encode() for n in names)


EX = L("example", "com")


def base_file():
    return [("origin", ("abs", EX)),
            ("rr", dict(owner=("at",), ttl=300, cls=True, ttl_first=True, rtype=tok.A, rdata=("a", 0xC0000201)))]


def sample_rdata(rtype, k=0):
    ns = [("rel", L("ns")), ("abs", L("h", "example", "com")), ("at",), ("abs", L("other", "org")), ("abs", ())]
    n = lambda i: ns[(k + i) % len(ns)]
    if rtype == tok.A:
        return ("a", 0x01020304 + k)
    if rtype == tok.AAAA:
        return ("aaaa", bytes([0x20, 0x01, 0x0d, 0xb8] + [0] * 11 + [1 + k % 200]))
    if rtype in tok.NAME_TYPES:
        return ("name", n(0))
    if rtype == tok.SOA:
        return ("soa", n(0), n(1), 1, 2, 3, 4, 60)
    if rtype == tok.MINFO:
        return ("minfo", n(0), n(1))
    if rtype == tok.MX:
        return ("mx", 10, n(0))
    if rtype == tok.SRV:
        return ("srv", 1, 2, 443, n(0))
    return ("octets", [b"hello world", b"", b"a;b(c)\"d\\e", bytes(range(0, 256, 17))][k % 4])


def exhaustive(rng, cases):
    """10 shapes x 18 types, after a fully explicit first record; plain layout and two random layouts"""
    k = 0
    for shape in zg.SHAPES:
        has_owner, has_ttl, has_cls, ttl_first = shape
        for rtype in zg.TYPES:
            k += 1
            owner = None
            if has_owner:
                owner = ("at",) if rtype == tok.SOA else [("rel", L("www")), ("abs", L("a", "b", "example", "com")),
                                                          ("wild", ("rel", L("w"))), ("star",), ("at",)][k % 5]
            d = dict(owner=owner, ttl=(7200 + k) if has_ttl else None, cls=has_cls, ttl_first=ttl_first,
                     rtype=rtype, rdata=sample_rdata(rtype, k))
            f = base_file() + [("rr", d)]
            exp = zg.denote(f)
            assert exp != "reject", (shape, rtype)
            cases.append(mk("shape", zg.render(rng, f, zg.STYLE_SIMPLE), exp))
            for _ in range(2):
                cases.append(mk("shape", zg.render(rng, f, zg.STYLE_RICH, final_newline=False), exp))
            # the record first in the file (needs owner; TTL unless SOA)
            if has_owner and (has_ttl or rtype == tok.SOA):
                f2 = [("origin", ("abs", EX)), ("rr", d)]
                exp2 = zg.denote(f2)
                assert exp2 != "reject"
                cases.append(mk("shape-first", zg.render(rng, f2, zg.STYLE_RICH), exp2))


def corpus_cases(cases):
    so = "$ORIGIN example.com.\n"
    soa_exp = zg.denote([("origin", ("abs", EX)),
                         ("rr", dict(owner=("at",), ttl=None, cls=True, ttl_first=True, rtype=tok.SOA,
                                     rdata=("soa", ("rel", L("ns")), ("rel", L("h")), 1, 2, 3, 4, 60)))])
    # F14 (fixed in c778b73): parentheses glued to tokens
    cases.append(mk("corpus", so + "@ IN SOA ns h (1 2 3 4\n 60)", soa_exp))
    cases.append(mk("corpus", so + "@ IN SOA ns h (1 2 3 4\n 60)\n", soa_exp))
    cases.append(mk("corpus", so + "@ IN SOA(ns h 1 2 3 4 60)", soa_exp))
    cases.append(mk("corpus", so + "(@)IN(SOA)ns h 1 2 3 4 60", soa_exp))
    # without $ORIGIN the same line has relative names and is rejected
    cases.append(mk("fault-relative", "@ IN SOA ns h (1 2 3 4\n 60)", "reject"))
    # D3: a record after the SOA inherits the SOA's TTL as loaded (= MINIMUM)
    f = [("origin", ("abs", EX)),
         ("rr", dict(owner=("at",), ttl=500, cls=True, ttl_first=True, rtype=tok.SOA,
                     rdata=("soa", ("rel", L("ns")), ("rel", L("h")), 1, 2, 3, 4, 30))),
         ("rr", dict(owner=("rel", L("www")), ttl=None, cls=False, ttl_first=True, rtype=tok.A, rdata=("a", 0x01020304)))]
    cases.append(mk("corpus-d3", so + "@ 500 IN SOA ns h 1 2 3 4 30\nwww A 1.2.3.4\n", zg.denote(f)))
    # D4: a class mnemonic in owner position is an owner
    f = [("origin", ("abs", L("x"))),
         ("rr", dict(owner=("rel", L("a")), ttl=5, cls=True, ttl_first=True, rtype=tok.A, rdata=("a", 0x01020304))),
         ("rr", dict(owner=("rel", L("CH")), ttl=None, cls=False, ttl_first=True, rtype=tok.A, rdata=("a", 0x01020304))),
         ("rr", dict(owner=("rel", L("CH")), ttl=7, cls=False, ttl_first=True, rtype=tok.A, rdata=("a", 0x01020304)))]
    cases.append(mk("d4-class-as-owner", "$ORIGIN x.\na 5 IN A 1.2.3.4\nCH A 1.2.3.4\nCH 7 A 1.2.3.4\n", zg.denote(f)))
    # D9 / D10
    cases.append(mk("unterminated-quote", "a.example. 300 IN TXT \"abc\nb.example. 300 IN A 5.6.7.8\n", "any"))
    cases.append(mk("unterminated-quote", "a.example. 300 IN TXT \"abc", "any"))
    cases.append(mk("unterminated-paren", "a.example. 300 IN A ( 1.2.3.4\n", "any"))
    cases.append(mk("fault-paren", "a.example. 300 IN A ( 1.2.3.4\nb.example. 300 IN A 5.6.7.8\n", "reject"))
    if os.path.isdir(CORPUS):
        for fn in sorted(os.listdir(CORPUS)):
            with open(os.path.join(CORPUS, fn)) as fh:
                for line in fh:
                    line = line.strip()
                    if line and not line.startswith("#"):
                        cases.append(line)


def explicit(owner, ttl, rtype, rdata):
    return ("rr", dict(owner=owner, ttl=ttl, cls=True, ttl_first=True, rtype=rtype, rdata=rdata))


def corrupt(rng, g):
    """one single-fault corruption of a valid random file -> (kind, text, expectation)"""
    style = zg.STYLE_RICH if rng.random() < 0.7 else zg.STYLE_SIMPLE
    f = g.file()
    origin_line = [("origin", ("abs", g.apex))]
    kind = rng.choice(["include", "class", "soa2", "wildsoa", "outside", "relative", "nottl", "number", "paren",
                       "unterminated-quote", "unterminated-paren"])
    pos = rng.randint(0, len(f))

    def absname(extra=()):
        return ("abs", tuple(extra) + g.apex)
    if kind == "include":
        line = rng.choice(["$INCLUDE other.zone", "$INCLUDE other.zone sub.example.org.", "$INCLUDE \"a b\" ; c",
                           "  $INCLUDE x"])
        f.insert(pos, ("raw", line))
    elif kind == "class":
        e = explicit(absname([g.label()]), zg.rand_u32(rng), tok.A, ("a", 7))
        e[1]["cls_text"] = rng.choice([b"CH", b"HS", b"CLASS3", b"CS", b"ANY"])
        e[1]["ttl_first"] = rng.random() < 0.5
        if rng.random() < 0.3:
            e[1]["ttl"] = None                    # <owner> <class> <type>: the class is read as a TTL and fails
        f.insert(pos, e)
    elif kind == "soa2":
        f = [e for e in f]
        soas = [i for i, e in enumerate(f) if e[0] == "rr" and e[1]["rtype"] == tok.SOA]
        if not soas:
            f.insert(0, explicit(absname(), 60, tok.SOA, ("soa", absname([b"ns"]), absname([b"h"]), 1, 2, 3, 4, 5)))
            soas = [0]
        at = rng.randint(soas[0] + 1, len(f))
        f.insert(at, explicit(absname() if rng.random() < 0.6 else absname([g.label()]), 60, tok.SOA,
                              ("soa", absname([b"ns"]), absname([b"h"]), 9, 2, 3, 4, 5)))
    elif kind == "wildsoa":
        f.insert(pos, explicit(("wild", absname()), 60, tok.SOA, ("soa", absname([b"ns"]), absname([b"h"]), 1, 2, 3, 4, 5)))
    elif kind == "outside":
        g2 = g
        if not g.authoritative or not g.apex:
            g2 = zg.Gen(rng, root_apex=False, authoritative=True)
            f = g2.file()
        out = ("abs", (b"outside",) + tuple(reversed(g2.apex)) + (b"zz",))
        wild = rng.random() < 0.3
        f.insert(rng.randint(1, len(f)), explicit(("wild", out) if wild else out, 300, tok.A, ("a", 7)))
    elif kind == "relative":
        # a file that never sets an origin, all names absolute, plus one relative name / @ / *
        g2 = zg.Gen(rng)
        f = []
        for _ in range(rng.randint(0, 3)):
            f.append(explicit(("abs", (g2.label(),) + g2.apex), 300, tok.A, ("a", 1)))
        bad = rng.choice([
            explicit(("rel", (g2.label(),)), 300, tok.A, ("a", 7)),
            explicit(("at",), 300, tok.A, ("a", 7)),
            explicit(("star",), 300, tok.A, ("a", 7)),
            explicit(("wild", ("rel", (g2.label(),))), 300, tok.A, ("a", 7)),
            explicit(("abs", (b"x",) + g2.apex), 300, tok.NS, ("name", ("rel", (b"ns",)))),
            explicit(("abs", (b"x",) + g2.apex), 300, tok.MX, ("mx", 1, ("at",))),
            ("origin", ("rel", (b"sub",))),
        ])
        f.insert(rng.randint(0, len(f)), bad)
    elif kind == "nottl":
        # the first record has no TTL (and is no SOA): nothing to inherit
        g2 = zg.Gen(rng, authoritative=False)
        rtype = rng.choice([tok.A, tok.AAAA] + list(tok.OCTET_TYPES))
        first = dict(owner=("abs", (g2.label(),) + g2.apex), ttl=None, cls=rng.random() < 0.5, ttl_first=True,
                     rtype=rtype, rdata=g2.rdata(rtype, None))
        f = [("rr", first)]
        for _ in range(rng.randint(0, 3)):
            f.append(explicit(("abs", (b"q",) + g2.apex), 300, tok.A, ("a", 2)))
    elif kind == "number":
        nm = "n.example."
        line = rng.choice([
            nm + " 12x IN A 1.2.3.4", nm + " 4294967296 IN A 1.2.3.4", nm + " -1 IN A 1.2.3.4", nm + " IN 1.5 A 1.2.3.4",
            nm + " 99999999999999999999999999999999999999999 IN A 1.2.3.4", nm + " \"\" IN A 1.2.3.4",
            nm + " 300 IN MX 65536 " + nm, nm + " 300 IN MX -1 " + nm, nm + " 300 IN SRV 1 2 65536 " + nm,
            nm + " 300 IN SRV 1 70000 3 " + nm, nm + " 300 IN SRV 1x 2 3 " + nm,
            nm + " 300 IN SOA " + nm + " " + nm + " 1 2 3 4 4294967296", nm + " 300 IN SOA " + nm + " " + nm + " 1 2 x 4 5",
            nm + " 300 IN A 1.2.3.256", nm + " 300 IN A 1.2.3", nm + " 300 IN A 01.2.3.4", nm + " 300 IN AAAA 1::2::3",
            nm + " 300 IN AAAA 12345::1", nm + " + IN A 1.2.3.4", nm + " 300 IN TXT \\256", nm + " 300 IN TXT \\25",
        ])
        f = [explicit(("abs", (b"ok", b"example")), 300, tok.A, ("a", 1)), ("raw", line)]
    elif kind == "paren":
        base = [explicit(("abs", (b"a", b"example")), 300, tok.A, ("a", 1)),
                explicit(("abs", (b"b", b"example")), 300, tok.A, ("a", 2))]
        line = rng.choice([
            "c.example. 300 IN A 1.2.3.4 )", ") c.example. 300 IN A 1.2.3.4", "c.example. 300 IN A ( ( 1.2.3.4 ) )",
            "c.example. ( 300 IN ( A 1.2.3.4 )", "c.example. 300 IN A 1.2.3.4)", "c.example. 300 IN TXT \"a\")",
            "c.example. 300 IN TXT a(b(c))",
        ])
        f = [base[0], ("raw", line), base[1]]
        # an open parenthesis that is never closed, not in the last entry: the entry swallows the next records
        if rng.random() < 0.3:
            f = [("raw", "c.example. 300 IN A ( 1.2.3.4"), base[0], base[1]]
    elif kind == "unterminated-quote":
        line = rng.choice(["c.example. 300 IN TXT \"abc", "c.example. 300 IN TXT \"abc def ; x", "c.example. 300 IN HINFO \"",
                           "c.example. 300 IN TXT \"a\\\""])
        tail = [explicit(("abs", (b"b", b"example")), 300, tok.A, ("a", 2))] if rng.random() < 0.5 else []
        f = [explicit(("abs", (b"a", b"example")), 300, tok.A, ("a", 1)), ("raw", line)] + tail
        text = zg.render(rng, f, zg.STYLE_SIMPLE, final_newline=rng.random() < 0.5)
        return kind, text, "any"
    elif kind == "unterminated-paren":
        line = rng.choice(["c.example. 300 IN A ( 1.2.3.4", "c.example. 300 IN A (1.2.3.4", "c.example. 300 ( IN A 1.2.3.4 ; c",
                           "c.example. 300 IN A 1.2.3.4 ("])
        f = [explicit(("abs", (b"a", b"example")), 300, tok.A, ("a", 1)), ("raw", line)]
        text = zg.render(rng, f, zg.STYLE_SIMPLE, final_newline=rng.random() < 0.5)
        return kind, text, "any"
    text = zg.render(rng, f, style)
    if kind in ("include", "number", "paren"):
        exp = "reject"
    else:
        exp = zg.denote(f)
        assert exp == "reject", (kind, f)
    return "fault-" + kind, text, exp


def generate(rng, tier):
    n = 3000 if tier == "quick" else 100000
    cases = []
    corpus_cases(cases)
    exhaustive(rng, cases)
    while len(cases) < n:
        r = rng.random()
        g = zg.Gen(rng, nasty=rng.choice([0.0, 0.1, 0.3]))
        if r < 0.62:
            f = g.file()
            exp = zg.denote(f)
            style = zg.STYLE_RICH if rng.random() < 0.85 else zg.STYLE_SIMPLE
            text = zg.render(rng, f, style, final_newline=rng.random() < 0.8)
            # a random valid file can still denote "reject" (e.g. name too long after an origin change): keep the verdict
            cases.append(mk("valid" if exp != "reject" else "fault-generated", text, exp))
        else:
            kind, text, exp = corrupt(rng, g)
            cases.append(mk(kind, text, exp))
    return cases


def split_case(case):
    toks = case.split(" ")
    kind, _, exp = toks[3].partition("=") if len(toks) > 3 else ("", "", "any")
    return toks, kind, exp


def oracle(case, impl, model):
    toks, kind, exp = split_case(case)
    if impl == "Panic" or impl.startswith("DRIVER-DIED rc") or impl == "Hang" or impl.startswith("IMPL-EXN"):
        return ("parser-crash", "Zone::deserialise did not return (%s)" % impl)
    if impl.startswith("DRIVER-DIED"):
        return None
    if exp == "any":
        return None                  # D9 / D10: only "no crash" (above) and model = impl (the differ) are required
    if exp == "reject":
        if not impl.startswith("Err:"):
            return ("fault-accepted", "a file with the fault '%s' was loaded instead of being rejected" % kind)
        return None
    if impl != exp:
        if impl.startswith("Err:"):
            return ("valid-rejected", "a valid file was rejected with %s" % impl)
        return ("wrong-zone", "the loaded zone differs from the denotation of the file; expected %s" % core.trunc(exp, 300))
    return None


def nontrivial(case, model):
    toks, kind, exp = split_case(case)
    return kind != "" and toks[2] != "_"


def kind(case, model):
    toks, k, exp = split_case(case)
    res = model.split(":")[0] if not model.startswith("Err:") else model
    return "%s -> %s" % (k, res)
