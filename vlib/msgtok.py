"""Message tokens (see ocaml/vmsg.ml, harness/src/msg.rs) on top of tok.py.

Python representation of a message (everything immutable, so messages compare with ==):

  name     tuple of labels, each a bytes object; the final root label b"" is included
           explicitly:  www.example. = (b"www", b"example", b"")   root = (b"",)
  header   (id, qr, opcode, aa, tc, rd, ra, rcode)          ints; flags 0/1
  question (name, qtype, qclass)
  rdata    ("a", u32) | ("n", name) | ("s", mname, rname, serial, refresh, retry, expire, minimum)
           | ("o", bytes) | ("i", rmailbx, emailbx) | ("x", preference, exchange)
           | ("q", bytes of length 16) | ("v", priority, weight, port, target)
  rr       (name, type, class, ttl, rdata)
  message  (header, questions, answers, authority, additional)   the four sections are tuples
"""
from . import tok

NAME_TYPES = frozenset(tok.NAME_TYPES)
OCTET_TYPES = frozenset(tok.OCTET_TYPES)
KNOWN_TYPES = frozenset(tok.KNOWN_TYPES)

ROOT = (b"",)


def rdata_letter(typ):
    """the rdata shape that record type `typ` carries"""
    if typ == tok.A:
        return "a"
    if typ in NAME_TYPES:
        return "n"
    if typ == tok.SOA:
        return "s"
    if typ == tok.MINFO:
        return "i"
    if typ == tok.MX:
        return "x"
    if typ == tok.AAAA:
        return "q"
    if typ == tok.SRV:
        return "v"
    return "o"


def name(s):
    """'www.example.' -> name (ASCII dotted text, absolute)"""
    if s == ".":
        return ROOT
    assert s.endswith(".")
    return tuple(l.encode() for l in s[:-1].split(".")) + (b"",)


_NT = {}


def nametok(n):
    t = _NT.get(n)
    if t is None:
        t = ".".join([l.hex() if l else "-" for l in n]) if n else "_"
        if len(_NT) > 20000:
            _NT.clear()
        _NT[n] = t
    return t


def name_len(n):
    """DomainName.len: one length octet per label (the root included) plus the label octets"""
    return len(n) + sum(map(len, n))


def name_ok(n):
    return (len(n) >= 1 and n[-1] == b"" and all(1 <= len(l) <= 63 for l in n[:-1])
            and name_len(n) <= 255)


def lower_name(n):
    return tuple([l.lower() for l in n])


def rdatatok(d):
    k = d[0]
    if k == "a":
        return "a%d" % d[1]
    if k == "n":
        return "n" + nametok(d[1])
    if k == "o":
        return "o" + (d[1].hex() if d[1] else "-")
    if k == "s":
        return "s%s,%s,%d,%d,%d,%d,%d" % (nametok(d[1]), nametok(d[2]), d[3], d[4], d[5], d[6], d[7])
    if k == "i":
        return "i%s,%s" % (nametok(d[1]), nametok(d[2]))
    if k == "x":
        return "x%d,%s" % (d[1], nametok(d[2]))
    if k == "q":
        return "q" + d[1].hex()
    if k == "v":
        return "v%d,%d,%d,%s" % (d[1], d[2], d[3], nametok(d[4]))
    raise ValueError("rdata kind " + repr(k))


def rrtok(r):
    return "%s:%d:%d:%d:%s" % (nametok(r[0]), r[1], r[2], r[3], rdatatok(r[4]))


def qtok(q):
    return "%s:%d:%d" % (nametok(q[0]), q[1], q[2])


def headertok(h):
    return "%d,%d,%d,%d,%d,%d,%d,%d" % tuple(h)


def msgtok(m):
    h, qs, an, ns, ar = m
    return "|".join((headertok(h),
                     ";".join([qtok(q) for q in qs]) if qs else "_",
                     ";".join([rrtok(r) for r in an]) if an else "_",
                     ";".join([rrtok(r) for r in ns]) if ns else "_",
                     ";".join([rrtok(r) for r in ar]) if ar else "_"))


def rdata_names(d):
    k = d[0]
    if k == "n":
        return (d[1],)
    if k in ("s", "i"):
        return (d[1], d[2])
    if k == "x":
        return (d[2],)
    if k == "v":
        return (d[4],)
    return ()


def msg_lens(m):
    """sum of DomainName.len over every name of the message (what the drivers print after '#')"""
    s = 0
    for q in m[1]:
        s += name_len(q[0])
    for sec in m[2:5]:
        for r in sec:
            s += name_len(r[0])
            for n in rdata_names(r[4]):
                s += name_len(n)
    return s


def render_ok(m):
    """the line both drivers print for a successfully decoded message"""
    return "Ok:%s#%d" % (msgtok(m), msg_lens(m))


# ---- parsing -------------------------------------------------------------

def parse_name(t):
    if t == "_":
        return ()
    return tuple([bytes.fromhex(h) if h != "-" else b"" for h in t.split(".")])


def parse_rdata(t):
    k, body = t[0], t[1:]
    if k == "a":
        return ("a", int(body))
    if k == "n":
        return ("n", parse_name(body))
    if k == "o":
        return ("o", b"" if body == "-" else bytes.fromhex(body))
    p = body.split(",")
    if k == "s":
        return ("s", parse_name(p[0]), parse_name(p[1]), int(p[2]), int(p[3]), int(p[4]), int(p[5]), int(p[6]))
    if k == "i":
        return ("i", parse_name(p[0]), parse_name(p[1]))
    if k == "x":
        return ("x", int(p[0]), parse_name(p[1]))
    if k == "q":
        return ("q", bytes.fromhex(body))
    if k == "v":
        return ("v", int(p[0]), int(p[1]), int(p[2]), parse_name(p[3]))
    raise ValueError("rdata token " + t[:20])


def parse_rr(t):
    n, ty, c, ttl, d = t.split(":")
    return (parse_name(n), int(ty), int(c), int(ttl), parse_rdata(d))


def parse_q(t):
    n, ty, c = t.split(":")
    return (parse_name(n), int(ty), int(c))


def parse_msg(t):
    h, qs, an, ns, ar = t.split("|")
    sec = lambda s: () if s == "_" else tuple([parse_rr(x) for x in s.split(";")])
    return (tuple(int(x) for x in h.split(",")),
            () if qs == "_" else tuple([parse_q(x) for x in qs.split(";")]),
            sec(an), sec(ns), sec(ar))


# ---- case folding ----------------------------------------------------------

def lower_rdata(d):
    k = d[0]
    if k == "n":
        return ("n", lower_name(d[1]))
    if k in ("s", "i"):
        return (k, lower_name(d[1]), lower_name(d[2])) + tuple(d[3:])
    if k == "x":
        return ("x", d[1], lower_name(d[2]))
    if k == "v":
        return ("v", d[1], d[2], d[3], lower_name(d[4]))
    return d


def lower_msg(m):
    """the message with every label lower-cased (what Label::try_from makes of it)"""
    h, qs, an, ns, ar = m
    f = lambda sec: tuple([(lower_name(r[0]), r[1], r[2], r[3], lower_rdata(r[4])) for r in sec])
    return (tuple(h), tuple([(lower_name(q[0]), q[1], q[2]) for q in qs]), f(an), f(ns), f(ar))


def rdata_wire_len(d):
    """octets of the RDATA when no name inside it is compressed"""
    k = d[0]
    if k == "a":
        return 4
    if k == "o":
        return len(d[1])
    if k == "q":
        return 16
    if k == "n":
        return name_len(d[1])
    if k == "s":
        return name_len(d[1]) + name_len(d[2]) + 20
    if k == "i":
        return name_len(d[1]) + name_len(d[2])
    if k == "x":
        return 2 + name_len(d[2])
    if k == "v":
        return 6 + name_len(d[4])
    raise ValueError(k)
