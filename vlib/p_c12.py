"""C12 -- configuration files compose by union, with the last SOA winning.

Stream "config" (syntax: ocaml/drv_config.ml), op L: a case describes 1..5 zone files and 0..3 hosts
files, each BOTH as data (for the model) and as text (written to a scratch directory and loaded by the
real resolved::fs::load_zone_configuration), given as explicit -z/-a files or inside -Z/-A directories
with file names whose sorted order differs from their creation order, optionally with one defect.  Both
sides print None or, per apex, SOA + all_records + all_wildcard_records, and the answers of
Zones::resolve to a question grid.

The oracle evaluates the property on the implementation's output alone: it reads the case independently
(which files are applied in which order, what each defines), forms per apex the union with duplicates
removed, the last SOA, the hosts map with later-file-wins per (name, family) merged into the root zone,
and answers the questions with the python reference of RFC 1034 4.3.2 (vlib/p_c02.py) on that union.
"""
import os
import re

from . import core, tok
from . import configgen as cg
from . import p_c02 as flatref

ID = "C12"
DRIVER = "config"
COQ_TARGETS = ["Properties/C12.vo"]
RULE = ("cases: 1..5 zone files (apexes root / example.com / sub.example.com / a / other; with and without SOA -- a file "
        "without SOA has the root apex --, several SOAs per apex, records drawn from a common pool so that files overlap, "
        "duplicates, same data with other TTLs, TTLs around the SOA minimum, wildcards at nodes that exist in another file only) "
        "and 0..3 hosts files (names overridden across and inside files, both families), placed as -z/-a files or in 1..2 "
        "-Z/-A directories under names like 10.zone 9.zone a.zone B.zone, with sub-directories, the same path given twice, "
        "and in ~20% of the cases one defect (unparsable / not UTF-8 / missing file, dangling symlink, missing directory, "
        "a file given as directory, a stray README); non-trivial = distinct case line with at least one file or directory")
ASSUMPTIONS = [
    "a configuration file is already-parsed data in the model (what Zone::deserialise / Hosts::deserialise return); that the "
    "text means the data is C11/C14's subject -- here it is checked per case, because the implementation side parses the text",
    "zones produced by the zone-file parser carry records under their apex with well-formed names (Zone::deserialise checks "
    "is_subdomain_of; DomainName values are well formed, C16)",
    "the file system does not change while one load_zone_configuration call runs",
    "file names inside one directory are distinct and contain no '/' (POSIX); PathBuf's Ord on two entries of one directory "
    "is the byte-wise order of the last component",
    "the order in which HashMap iteration feeds Hosts -> Zone conversion and the merges is not observable (each name has at "
    "most one address per family; results are compared after sorting type groups and names)",
]
ASSUMPTIONS.append(
    "C12_zone_is_chain_of_files_partial carries the explicit premise that Zone::merge refines the flat merge (planned for "
    "Zone/ZoneMergeProofs.v); the composed statement is checked by this stream's oracle on every case instead")
TRUSTED = ["python rendering of generated zone / hosts data as text (vlib/configgen.py); a wrong rendering shows up as a "
           "model/implementation disagreement, never as agreement"]

CORPUS = os.path.join(core.VERIF, "corpus", "C12")


def parse_case(case):
    t = case.split(" ")
    args = cg.parse_args(t[2])
    files, dirs = cg.parse_fs(t[3])
    apexes = cg.lst(",", t[4])
    qs = [(q.split("~")[0], int(q.split("~")[1])) for q in cg.lst("|", t[5])]
    return args, files, dirs, apexes, qs


def oracle(case, impl, model):
    t = case.split(" ")
    if t[1] != "L":
        return None
    try:
        args, files, dirs, apexes, qs = parse_case(case)
        zones, hosts = cg.expected_config(args, files, dirs)
    except Exception:
        return None
    if impl == "Panic":
        return ("panic", "load_zone_configuration panicked")
    if zones is None:
        if impl != "None":
            return ("bad-file-accepted", "a file or directory of the configuration cannot be read / parsed, yet a configuration was returned")
        return None
    if impl == "None":
        return ("good-config-rejected", "every file and directory is readable and valid, yet load_zone_configuration returned None")
    try:
        head, ans = impl.split("#")
        zds = head.split("|")
        answers = ans.split("|") if qs else []
        if len(zds) != len(apexes) or len(answers) != len(qs):
            return None
    except Exception:
        return None
    for at, zd in zip(apexes, zds):
        apex = flatref.labels_of(at)
        rest = zd.split("=", 1)[1]
        if apex not in zones:
            if rest != "-":
                return ("extra-zone", "a zone exists for apex %s which no file defines" % at)
            continue
        if rest == "-":
            return ("zone-missing", "no zone for apex %s although a file defines it" % at)
        fz = zones[apex]
        soa, r, w = rest.split("!")
        if soa[1:] != (fz.soa or "-"):
            return ("soa-not-last", "apex %s: the zone's SOA is %s, the last file supplying one has %s" % (at, soa[1:], fz.soa or "none"))
        for what, dump, recs in (("records", r[1:], fz.norm), ("wildcard records", w[1:], fz.wild)):
            got, n = cg.parse_dump(dump)
            exp = cg.expected_records(apex, recs)
            nsoa = sum(1 for x in got if x[1] == tok.SOA)
            if what == "records" and nsoa != (1 if fz.soa else 0):
                return ("soa-count", "apex %s holds %d SOA records, expected %d" % (at, nsoa, 1 if fz.soa else 0))
            if n != len(got):
                return ("duplicate-records", "apex %s: %s contain a duplicate" % (at, what))
            if got != exp:
                missing = sorted(exp - got)[:3]
                extra = sorted(got - exp)[:3]
                return ("not-the-union", "apex %s: %s are not the union of what the files define: missing %s, extra %s"
                        % (at, what, missing, extra))
    for (qn, qt), got in zip(qs, answers):
        ql = flatref.labels_of(qn)
        cands = [a for a in zones if len(ql) >= len(a) and ql[len(ql) - len(a):] == a]
        best = max(cands, key=len)
        if got == "-":
            return ("no-zone", "question %s %d: no zone answered although %s is configured" % (qn, qt, tok.labtok(list(best))))
        gapex, res = got.split(">", 1)
        if gapex != tok.labtok(list(best)):
            return ("wrong-zone", "question %s %d answered by zone %s, the longest configured apex is %s" % (qn, qt, gapex, tok.labtok(list(best))))
        fz = zones[best]
        if not flatref.d1_holds(fz):
            continue
        want = flatref.lookup(best, fz, ql[:len(ql) - len(best)], qn, qt)
        if cg.canon_zres(res) != cg.canon_zres(want):
            return ("answer-not-from-union", "question %s type %d: answered %s, the union of the files' records gives %s"
                    % (qn, qt, core.trunc(res, 300), core.trunc(want, 300)))
    return None


def nontrivial(case, model):
    t = case.split(" ")
    return t[1] == "L" and t[3] != "_"


def kind(case, model):
    t = case.split(" ")
    tag = t[6] if len(t) > 6 else "-"
    fam = tag.split(":")[0]
    fam = re.sub(r"-\d+$", "", fam)
    out = "None" if model == "None" else ("ok" if "#" in model else model.split(":")[0])
    return "L:%s:%s" % (fam, out)


def generate(rng, tier):
    cases = []
    if os.path.isdir(CORPUS):
        for f in sorted(os.listdir(CORPUS)):
            if f.endswith(".txt"):
                with open(os.path.join(CORPUS, f)) as fh:
                    cases += [l.rstrip("\n") for l in fh if l.strip() and not l.startswith("#")]
    cases += cg.corpus_configs()
    nstruct, nrand = (150, 330) if tier == "quick" else (6000, 14000)
    for _ in range(nstruct):
        cases.append(cg.structured_config(rng))
    for _ in range(nrand):
        cases.append(cg.rand_config(rng))
    return cases


THEOREMS = []
try:
    with open(os.path.join(core.COQ, "Properties", "C12.v")) as _f:
        THEOREMS = re.findall(r"^Theorem\s+(C12_\w+)", _f.read(), re.M)
except OSError:
    pass
