"""Reference decoder for DNS messages, written from RFC 1035 section 4.1 (plus RFC 3596 for
AAAA and RFC 2782 for SRV), independently of the Rust decoder and of the Coq model.

  decode(data)  -> ("ok", message) | ("err", reason)       message as in msgtok.py
  render(msg)   -> the "Ok:<message token>#<lens>" line the drivers print for that message
  pointer_check(data, msg) -> None | text        (property C04: compression pointers)

What is a well-formed message here (RFC 1035 4.1):

  4.1.1 header: 12 octets.  ID; octet 2 = QR(bit 7) OPCODE(bits 6..3) AA(2) TC(1) RD(0);
        octet 3 = RA(bit 7) Z(bits 6..4, ignored) RCODE(bits 3..0); QDCOUNT ANCOUNT NSCOUNT ARCOUNT.
  4.1.2 question: QNAME QTYPE(16) QCLASS(16); exactly QDCOUNT of them.
  4.1.3 resource record: NAME TYPE(16) CLASS(16) TTL(32) RDLENGTH(16) RDATA(RDLENGTH octets);
        exactly ANCOUNT + NSCOUNT + ARCOUNT of them.  The RDATA of the types of 3.3/3.4 (and
        AAAA, SRV) has the format given there and must fill the RDLENGTH octets exactly; names
        inside it may be compressed.  Any other type: opaque octets.
  4.1.4 / 2.3.4 / 3.1 names: a sequence of labels, each a length octet 1..63 followed by that many
        octets, ended by the zero octet (root) or by a pointer (two octets, top bits 11, 14-bit
        offset from the start of the message) to a *prior* occurrence: the offset must lie
        strictly before the first octet of the name being read, and the rest of the name is the
        name read at that offset (for which the same rule holds with that offset as the start,
        so chains of pointers strictly descend).  Length octets with top bits 01 or 10 are
        reserved.  A name is at most 255 octets (label octets + one length octet per label,
        the root included; pointers do not count).  Comparison is case-insensitive: labels are
        returned with A-Z folded to a-z.
  Octets after the last record are ignored (the transport gives the message length).

No recursion anywhere: pointer chains of 8000+ hops occur.
"""
import struct

from . import msgtok
from .msgtok import ROOT, rdata_letter

_U16x4 = struct.Struct(">HHHH")
_U16x2 = struct.Struct(">HH")
_RRFIX = struct.Struct(">HHIH")
_U32x5 = struct.Struct(">IIIII")
_U16x3 = struct.Struct(">HHH")


class Malformed(Exception):
    pass


def read_name(data, pos, limit, memo):
    """The name starting at `pos`.  The octets of the name that are read in place (up to its root
    octet or its pointer) must end at or before `limit`; whatever a pointer leads to may lie
    anywhere in the message.  Returns (name, offset just after the in-place part).
    memo: offset -> name read at that offset (a pure function of the message), filled here."""
    n = len(data)
    segs = []
    start = pos
    lim = limit
    total = 0            # octets of the labels met so far, with their length octets
    nxt = -1
    while True:
        labels = []
        p = start
        while True:
            if p >= lim:
                raise Malformed("name runs past the end")
            c = data[p]
            if c == 0:
                p += 1
                target = -1
                break
            if c < 64:
                e = p + 1 + c
                if e > lim:
                    raise Malformed("label runs past the end")
                labels.append(data[p + 1:e].lower())
                total += 1 + c
                if total >= 255:
                    raise Malformed("name longer than 255 octets")
                p = e
            elif c >= 192:
                if p + 1 >= lim:
                    raise Malformed("pointer runs past the end")
                target = ((c & 63) << 8) | data[p + 1]
                if target >= start:
                    raise Malformed("pointer at %d does not point before the name (%d >= %d)" % (p, target, start))
                p += 2
                break
            else:
                raise Malformed("reserved label type %d at %d" % (c, p))
        if nxt < 0:
            nxt = p
        segs.append((start, labels))
        if target < 0:
            tail = ROOT
            break
        tail = memo.get(target)
        if tail is not None:
            break
        start = target
        lim = n
    if total + msgtok.name_len(tail) > 255:
        raise Malformed("name longer than 255 octets")
    for s, labels in reversed(segs):
        if labels:
            tail = tuple(labels) + tail
        memo[s] = tail
    return tail, nxt


def _rdata(data, typ, pos, end, memo):
    """RDATA of a record of type `typ` occupying data[pos:end]"""
    k = rdata_letter(typ)
    if k == "o":
        return ("o", data[pos:end])
    if k == "a":                                   # 3.4.1
        if end - pos != 4:
            raise Malformed("A RDATA of %d octets" % (end - pos))
        return ("a", int.from_bytes(data[pos:end], "big"))
    if k == "q":                                   # RFC 3596 2.2
        if end - pos != 16:
            raise Malformed("AAAA RDATA of %d octets" % (end - pos))
        return ("q", data[pos:end])
    if k == "n":                                   # 3.3.1, .4, .5, .6, .8, .11, .12; 3.3.3, 3.3.2 (MB, MD, MF)
        nm, p = read_name(data, pos, end, memo)
        d = ("n", nm)
    elif k == "s":                                 # 3.3.13
        m, p = read_name(data, pos, end, memo)
        r, p = read_name(data, p, end, memo)
        if p + 20 > end:
            raise Malformed("SOA RDATA too short")
        d = ("s", m, r) + _U32x5.unpack_from(data, p)
        p += 20
    elif k == "i":                                 # 3.3.7
        r, p = read_name(data, pos, end, memo)
        e, p = read_name(data, p, end, memo)
        d = ("i", r, e)
    elif k == "x":                                 # 3.3.9
        if pos + 2 > end:
            raise Malformed("MX RDATA too short")
        e, p = read_name(data, pos + 2, end, memo)
        d = ("x", (data[pos] << 8) | data[pos + 1], e)
    elif k == "v":                                 # RFC 2782
        if pos + 6 > end:
            raise Malformed("SRV RDATA too short")
        t, p = read_name(data, pos + 6, end, memo)
        d = ("v",) + _U16x3.unpack_from(data, pos) + (t,)
    else:
        raise AssertionError(k)
    if p != end:
        raise Malformed("RDLENGTH %d but the RDATA of type %d takes %d octets" % (end - pos, typ, p - pos))
    return d


def _decode(data):
    n = len(data)
    if n < 12:
        raise Malformed("header needs 12 octets, got %d" % n)
    b2, b3 = data[2], data[3]
    header = ((data[0] << 8) | data[1], b2 >> 7, (b2 >> 3) & 15, (b2 >> 2) & 1, (b2 >> 1) & 1, b2 & 1,
              b3 >> 7, b3 & 15)
    qd, an, ns, ar = _U16x4.unpack_from(data, 4)
    pos = 12
    memo = {}
    questions = []
    for _ in range(qd):
        nm, pos = read_name(data, pos, n, memo)
        if pos + 4 > n:
            raise Malformed("question runs past the end")
        qt, qc = _U16x2.unpack_from(data, pos)
        pos += 4
        questions.append((nm, qt, qc))
    sections = []
    for count in (an, ns, ar):
        sec = []
        for _ in range(count):
            nm, pos = read_name(data, pos, n, memo)
            if pos + 10 > n:
                raise Malformed("record runs past the end")
            typ, cls, ttl, rdlen = _RRFIX.unpack_from(data, pos)
            pos += 10
            end = pos + rdlen
            if end > n:
                raise Malformed("RDATA runs past the end")
            sec.append((nm, typ, cls, ttl, _rdata(data, typ, pos, end, memo)))
            pos = end
        sections.append(tuple(sec))
    return (header, tuple(questions), sections[0], sections[1], sections[2])


def decode(data):
    data = bytes(data)
    try:
        return ("ok", _decode(data))
    except Malformed as e:
        return ("err", str(e))


def render(msg):
    return msgtok.render_ok(msg)


# --------------------------------------------------------------------------
# compression pointers of an encoded message (C04)
# --------------------------------------------------------------------------

def _skip_rdata_names(data, typ, pos, end, starts):
    """record where names start inside an RDATA (any of them may be a pointer target)"""
    k = rdata_letter(typ)
    memo = {}
    if k == "n":
        starts.add(pos)
    elif k in ("s", "i"):
        starts.add(pos)
        _, p = read_name(data, pos, end, memo)
        starts.add(p)
    elif k == "x":
        starts.add(pos + 2)
    elif k == "v":
        starts.add(pos + 6)


def pointer_check(data, msg, whole_names=True):
    """Walk the encoded message `data` beside the message `msg` it is meant to encode.  For
    every compression pointer met while reading a question or owner name: the target offset is
    < 16384 and lies strictly before the name; the name read at the target, on its own, equals
    the labels of the message's name that remain at that point; and (whole_names, which is how
    the encoder under test compresses) the pointer stands for the entire name and its target is
    an offset at which an earlier name of the message starts.  Returns None when all hold."""
    data = bytes(data)
    n = len(data)
    msg = msgtok.lower_msg(msg)
    starts = set()

    def owner(pos, expected, what):
        inline = []
        p = pos
        while True:
            c = data[p]
            if c == 0:
                p += 1
                got = tuple(inline) + ROOT
                if got != expected:
                    return None, "%s at %d is %s, the message has %s" % (what, pos, msgtok.nametok(got), msgtok.nametok(expected))
                break
            if c < 64:
                inline.append(data[p + 1:p + 1 + c].lower())
                p += 1 + c
                continue
            if c < 192:
                return None, "%s at %d: reserved label type" % (what, pos)
            target = ((c & 63) << 8) | data[p + 1]
            if target >= 16384:
                return None, "%s at %d: pointer target %d >= 16384" % (what, pos, target)
            if target >= pos:
                return None, "%s at %d: pointer target %d is not before the name" % (what, pos, target)
            if whole_names and inline:
                return None, "%s at %d: pointer after %d labels (only whole names are compressed)" % (what, pos, len(inline))
            if whole_names and target not in starts:
                return None, "%s at %d: pointer target %d is not the start of an earlier name" % (what, pos, target)
            try:
                there, _ = read_name(data, target, n, {})
            except Malformed as e:
                return None, "%s at %d: no name at pointer target %d (%s)" % (what, pos, target, e)
            if tuple(inline) != expected[:len(inline)] or there != expected[len(inline):]:
                return None, ("%s at %d: pointer to %d where the name is %s, but the message has %s there"
                              % (what, pos, target, msgtok.nametok(there), msgtok.nametok(expected[len(inline):])))
            p += 2
            break
        starts.add(pos)
        return p, None

    try:
        if n < 12:
            return "shorter than a header"
        qd, an, ns, ar = _U16x4.unpack_from(data, 4)
        if (qd, an, ns, ar) != tuple(len(s) for s in msg[1:5]):
            return "section counts %r differ from the message's" % ((qd, an, ns, ar),)
        pos = 12
        for i, q in enumerate(msg[1]):
            pos, bad = owner(pos, q[0], "question %d name" % i)
            if bad:
                return bad
            pos += 4
        for si, sec in enumerate(msg[2:5]):
            for i, r in enumerate(sec):
                pos, bad = owner(pos, r[0], "section %d record %d owner" % (si, i))
                if bad:
                    return bad
                typ, cls, ttl, rdlen = _RRFIX.unpack_from(data, pos)
                pos += 10
                if typ != r[1]:
                    return "section %d record %d has type %d, the message %d" % (si, i, typ, r[1])
                _skip_rdata_names(data, typ, pos, pos + rdlen, starts)
                pos += rdlen
        if pos != n:
            return "encoding has %d octets, the walk ends at %d" % (n, pos)
    except (IndexError, struct.error, Malformed) as e:
        return "walk fell off the encoding: %r" % (e,)
    return None
