"""C02 -- zone lookup follows the authoritative-server algorithm (RFC 1034 4.3.2, RFC 4592).

Stream "zone" (syntax: ocaml/drv_zone.ml): a case builds a zone by a list of insert /
insert_wildcard operations (optionally a second zone with the same apex that is merged into
the first), asks a list of questions and dumps all_records / all_wildcard_records / SOA.

The oracle is an independent python implementation of the lookup on the FLAT record list of
the case (what was inserted, after duplicate suppression, TTL clamp and merge), restricted
for lookups to zones satisfying deviation D1; the dump is checked on every case.
"""
import itertools
import os

from . import core, tok

ID = "C02"
DRIVER = "zone"
COQ_TARGETS = ["Properties/C02.vo"]
RULE = ("cases: zones of <= 12 records over labels {a,b,c}, depth <= 4 (records, NS, CNAME, CNAME next to other data, "
        "wildcards incl. wildcard NS/CNAME, empty non-terminals, NS at the apex, duplicates, TTLs around the SOA minimum), "
        "root and non-root apex, authoritative and not, optionally merged from two zones; questions to depth 5 over the same "
        "labels x {A,NS,CNAME,SOA,TXT,MX,ANY,AXFR,MAILB,MAILA,999}; non-trivial = distinct case line with at least one record "
        "and at least one question under the apex")
ASSUMPTIONS = [
    "records are well-shaped (the rdata constructor fits the type code): RecordTypeWithData guarantees it in Rust",
    "names given to insert/resolve are well-formed DomainName values (<= 255 octets); the malformed stream covers raw over-long names (both sides panic alike)",
    "wildcard NS (RFC 4592 4.2: undefined) is read as a delegation of <next label>.<closest encloser>, as the code's comment says",
]

SOA_T, NS_T, CNAME_T, A_T, TXT_T, MX_T, AAAA_T = tok.SOA, tok.NS, tok.CNAME, tok.A, tok.TXT, tok.MX, tok.AAAA
QTYPES = [tok.A, tok.NS, tok.CNAME, tok.SOA, tok.TXT, tok.MX, tok.ANY, tok.AXFR, tok.MAILB, tok.MAILA, 999]
SPECIAL_Q = (tok.AXFR, tok.MAILB, tok.MAILA)
LOOKUPS = [0]
RESULT_STATS = {}

CORPUS = os.path.join(core.VERIF, "corpus", "C02")


# ----------------------------------------------------------------------------
# case construction
# ----------------------------------------------------------------------------

def ntok(labels):
    """labels: tuple of str, leftmost first, WITHOUT the root label"""
    return tok.labtok(list(labels) + [""])


def soa_tok(apex, serial, minimum):
    return tok.rd_soa(ntok(("ns",) + apex), ntok(("admin",) + apex), serial, 7200, 600, 86400, minimum)


def rdata_for(rng, typ, apex):
    names = [ntok(("ns1",) + apex), ntok(("t", "example")), ntok(("a",) + apex), ntok(())]
    if typ == A_T:
        return tok.rd_a(rng.choice([1, 2, 3, 0x7F000001]))
    if typ in (NS_T, CNAME_T):
        return tok.rd_name(rng.choice(names))
    if typ == MX_T:
        return tok.rd_mx(rng.choice([0, 10]), rng.choice(names))
    if typ == AAAA_T:
        return tok.rd_aaaa([0] * 15 + [rng.choice([1, 2])])
    if typ == SOA_T:
        return soa_tok(apex, rng.choice([1, 2]), rng.choice([5, 300]))
    return tok.rd_octets([rng.choice([1, 2])] * rng.choice([0, 1, 2]))


def op(kind, owner, typ, ttl, rdata):
    return "%s~%s" % (kind, tok.rr(owner, typ, ttl, rdata))


def case_line(apex, soa, ops, queries):
    return "zone Z %s %s %s %s" % (ntok(apex), soa or "-", "|".join(ops) if ops else "_",
                                   "|".join("%s~%d" % (n, q) for n, q in queries) if queries else "_")


# ----------------------------------------------------------------------------
# flat reading of a case (independent of the Coq text)
# ----------------------------------------------------------------------------

def labels_of(tokn):
    return tuple(tok.parse_labels(tokn))


def parse_case(case):
    t = case.split(" ")
    apex = labels_of(t[2])
    soa = None if t[3] == "-" else t[3]
    ops = [] if t[4] == "_" else [o.split("~") for o in t[4].split("|")]
    qs = [] if t[5] == "_" else [(q.split("~")[0], int(q.split("~")[1])) for q in t[5].split("|")]
    return apex, soa, ops, qs


def soa_min(soa):
    return int(soa.split(",")[6])


def name_ok(labels):
    return (len(labels) >= 1 and labels[-1] == b"" and all(0 < len(l) <= 63 for l in labels[:-1])
            and sum(len(l) + 1 for l in labels) <= 255)


class Flat:
    """ordinary and wildcard records as (relpath, type, ttl, rdata) in zone order"""

    def __init__(self, soa):
        self.soa = soa
        self.norm = []
        self.wild = []
        if soa is not None:
            self.norm.append(((), SOA_T, soa_min(soa), soa))

    def add(self, wild, rel, typ, ttl, rdata):
        if self.soa is not None:
            ttl = max(ttl, soa_min(self.soa))
        rec = (rel, typ, ttl, rdata)
        l = self.wild if wild else self.norm
        if rec not in l:
            l.append(rec)

    def merge(self, other):
        if other.soa is not None:
            self.soa = other.soa
            self.norm = [r for r in self.norm if not (r[0] == () and r[1] == SOA_T)]
        for r in other.norm:
            if r not in self.norm:
                self.norm.append(r)
        for r in other.wild:
            if r not in self.wild:
                self.wild.append(r)


def flat_of_case(case):
    """returns (apex labels, Flat, malformed?)"""
    apex, soa, ops, qs = parse_case(case)
    malformed = not name_ok(apex)
    acc = None
    cur = Flat(soa)
    for o in ops:
        if o[0] == "M":
            if acc is None:
                acc = cur
            else:
                acc.merge(cur)
            cur = Flat(None if o[1] == "-" else o[1])
            continue
        r = tok.parse_rr(o[1])
        owner = labels_of(r["name"])
        if not name_ok(owner):
            malformed = True
        if len(owner) >= len(apex) and owner[len(owner) - len(apex):] == apex:
            cur.add(o[0] == "W", owner[:len(owner) - len(apex)], r["type"], r["ttl"], r["data"])
    if acc is None:
        acc = cur
    else:
        acc.merge(cur)
    if any(not name_ok(labels_of(q[0])) for q in qs):
        malformed = True
    return apex, acc, malformed, qs


def d1_holds(fz):
    """no record strictly beneath, and no wildcard at, a non-apex name holding NS"""
    cuts = {r[0] for r in fz.norm if r[1] == NS_T and r[0] != ()}
    for c in cuts:
        k = len(c)
        for r in fz.norm:
            q = r[0]
            if len(q) > k and q[len(q) - k:] == c:
                return False
        for r in fz.wild:
            q = r[0]
            if len(q) >= k and q[len(q) - k:] == c:
                return False
    return True


def name_tok_of(rel, apex):
    return tok.labtok(list(rel) + list(apex))


def name_len(rel, apex):
    return sum(len(l) + 1 for l in list(rel) + list(apex))


def matches(rtype, qtype):
    if qtype == tok.ANY:
        return True
    if qtype in SPECIAL_Q:
        return False
    return rtype == qtype


def show_rrs(owner_tok, recs):
    recs = sorted(recs, key=lambda r: r[1])  # stable: order inside a type group kept
    return tok.rrs([tok.rr(owner_tok, r[1], r[2], r[3]) for r in recs])


def classify(qname_tok, qtype, recs):
    if not matches(CNAME_T, qtype):
        cn = [r for r in recs if r[1] == CNAME_T]
        if cn:
            r = cn[0]
            return "C%s=%s" % (r[3][1:], tok.rr(qname_tok, r[1], r[2], r[3]))
    return "A" + show_rrs(qname_tok, [r for r in recs if matches(r[1], qtype)])


def lookup(apex, fz, rel, qname_tok, qtype):
    """RFC 1034 4.3.2 step 3 with RFC 4592 wildcards; rel = relative path, leftmost label first"""
    paths = [r[0] for r in fz.norm] + [r[0] for r in fz.wild]

    def exists(p):
        return p == () or any(len(q) >= len(p) and q[len(q) - len(p):] == p for q in paths)

    n = len(rel)
    encl = ()
    nxt = None
    for k in range(1, n + 1):
        c = rel[n - k:]
        if not exists(c):
            nxt = rel[n - k]
            break
        encl = c
        ns = [r for r in fz.norm if r[0] == c and r[1] == NS_T]
        if ns and not (k == n and qtype == NS_T):
            owner = name_tok_of(c, apex)
            return "D%s/%d=%s" % (owner, name_len(c, apex), tok.rrs([tok.rr(owner, r[1], r[2], r[3]) for r in ns]))
    if nxt is None:
        return classify(qname_tok, qtype, [r for r in fz.norm if r[0] == rel])
    ws = [r for r in fz.wild if r[0] == encl]
    if not ws:
        return "N"
    ns = [r for r in ws if r[1] == NS_T]
    if ns and qtype != NS_T:
        c = (nxt,) + encl
        owner = name_tok_of(c, apex)
        return "D%s/%d=%s" % (owner, name_len(c, apex), tok.rrs([tok.rr(owner, r[1], r[2], r[3]) for r in ns]))
    return classify(qname_tok, qtype, ws)


def expected_dump(apex, recs):
    by = {}
    for r in recs:
        by.setdefault(r[0], []).append(r)
    if not by:
        return "_"
    items = []
    for rel, rs in by.items():
        rs = sorted(rs, key=lambda r: r[1])
        items.append(("%s/%d" % (name_tok_of(rel, apex), name_len(rel, apex)),
                      ";".join("%d:%d:%s" % (r[1], r[2], r[3]) for r in rs)))
    items.sort(key=lambda x: x[0].encode())
    return "+".join("%s=%s" % x for x in items)


def oracle(case, impl, model):
    try:
        apex, fz, malformed, qs = flat_of_case(case)
    except Exception:
        return None
    if impl == "Panic":
        if malformed:
            return None
        return ("panic", "zone operation panicked on well-formed names")
    if malformed:
        return None
    try:
        head, rdump, wdump, soa = impl.split("#")
        results = head.split("|") if qs else []
        if len(results) != len(qs):
            return None
    except Exception:
        return None
    # the dump: the zone holds exactly what was inserted (duplicates dropped, TTL raised to the SOA minimum)
    if rdump[1:] != expected_dump(apex, fz.norm):
        return ("records-differ", "all_records differs from the inserted records: expected %s" % core.trunc(expected_dump(apex, fz.norm), 300))
    if wdump[1:] != expected_dump(apex, fz.wild):
        return ("wildcards-differ", "all_wildcard_records differs from the inserted wildcard records: expected %s" % core.trunc(expected_dump(apex, fz.wild), 300))
    if soa[1:] != (fz.soa or "-"):
        return ("soa-differs", "get_soa is not the last SOA supplied")
    if sum(1 for r in fz.norm if r[0] == () and r[1] == SOA_T) != (1 if fz.soa else 0):
        pass  # a SOA inserted by hand as an ordinary record: allowed by the API, nothing to check
    if not d1_holds(fz):
        return None
    for (qn, qt), got in zip(qs, results):
        ql = labels_of(qn)
        if not name_ok(ql):
            continue
        under = len(ql) >= len(apex) and ql[len(ql) - len(apex):] == apex
        if not under:
            if got != "X":
                return ("outside-apex", "a name outside the zone was resolved: %s %d -> %s" % (qn, qt, core.trunc(got, 200)))
            continue
        want = lookup(apex, fz, ql[:len(ql) - len(apex)], qn, qt)
        if got != want:
            return ("lookup-differs", "question %s type %d: zone answered %s, RFC 1034 4.3.2 on the zone's records gives %s"
                    % (qn, qt, core.trunc(got, 300), core.trunc(want, 300)))
    return None


def canonical(case, out):
    return out


def nontrivial(case, model):
    t = case.split(" ")
    if t[4] == "_" or t[5] == "_":
        return False
    head = model.split("#")[0]
    return any(r and r[0] in "ACDN" for r in head.split("|"))


def kind(case, model):
    t = case.split(" ")
    flags = ("r" if t[2] == "-" else "n") + ("a" if t[3] != "-" else "u") + ("m" if "M~" in t[4] else "")
    if model in ("Panic",) or "#" not in model:
        return "Z" + flags + ":" + model.split(":")[0]
    head = model.split("#")[0]
    res = [r for r in head.split("|") if r]
    for r in res:
        k = "answer-empty" if r.startswith("A_") else {"A": "answer", "C": "cname", "D": "delegation", "N": "nameerror",
                                                         "X": "outside-apex"}.get(r[0], "other")
        RESULT_STATS[k] = RESULT_STATS.get(k, 0) + 1
    feats = ""
    if any(r[0] == "D" for r in res):
        feats += "D"
    if any(r[0] == "C" for r in res):
        feats += "C"
    if any("!SPEC" in r for r in res):
        feats += "!"
    return "Z" + flags + ":" + feats


# ----------------------------------------------------------------------------
# generators
# ----------------------------------------------------------------------------

APEXES = [(), ("example", "com"), ("a",), ("b", "a")]
LABELS = ["a", "b", "c"]
TTLS = [0, 1, 299, 300, 301, 3600]


def rand_path(rng, maxd):
    return tuple(rng.choice(LABELS) for _ in range(rng.randint(0, maxd)))


def repair_d1(rng, apex, recs):
    """recs: list of (wild, rel, typ, ttl, rdata); drop either the occluded records or the occluding NS"""
    out = list(recs)
    for _ in range(20):
        cuts = {r[1] for r in out if not r[0] and r[2] == NS_T and r[1] != ()}
        bad = None
        for c in cuts:
            k = len(c)
            occ = [r for r in out if (len(r[1]) > k or (r[0] and len(r[1]) == k)) and r[1][len(r[1]) - k:] == c]
            if occ:
                bad = (c, occ)
                break
        if bad is None:
            return out
        c, occ = bad
        if rng.random() < 0.5:
            out = [r for r in out if not (not r[0] and r[2] == NS_T and r[1] == c)]
        else:
            out = [r for r in out if r not in occ]
    return [r for r in out if r[2] != NS_T or r[1] == ()]


def rand_zone_recs(rng, apex, nmax):
    recs = []
    n = rng.choice([0, 1, 2, 3, 4, 6, 8, nmax])
    spine = tuple(rng.choice(LABELS) for _ in range(rng.randint(1, 4)))
    while len(recs) < n:
        r = rng.random()
        if r < 0.55:
            # a node on (or hanging off) the spine
            k = rng.randint(0, len(spine))
            rel = spine[len(spine) - k:]
            if rng.random() < 0.25 and len(rel) < 4:
                rel = (rng.choice(LABELS),) + rel
        else:
            rel = rand_path(rng, 4)
        wild = rng.random() < 0.3
        typ = rng.choice([A_T, A_T, A_T, NS_T, NS_T, CNAME_T, CNAME_T, TXT_T, MX_T, AAAA_T, 999, SOA_T if rng.random() < 0.2 else A_T])
        ttl = rng.choice(TTLS)
        recs.append((wild, rel, typ, ttl, rdata_for(rng, typ, apex)))
        if rng.random() < 0.12:
            recs.append(recs[-1])                                      # exact duplicate
        if rng.random() < 0.08:
            w, p, t, _, d = recs[-1]
            recs.append((w, p, t, rng.choice(TTLS), d))                # same data, other TTL
        if rng.random() < 0.15:
            w, p, t, tt, _ = recs[-1]
            recs.append((w, p, t, tt, rdata_for(rng, t, apex)))        # second record of the type
    return recs[:nmax]


def rand_queries(rng, apex, recs, n):
    qs = []
    owners = [r[1] for r in recs] or [()]
    for _ in range(n):
        r = rng.random()
        if r < 0.3:
            rel = rng.choice(owners)
        elif r < 0.45:
            o = rng.choice(owners)
            rel = o[rng.randint(0, len(o)):]                            # an ancestor (empty non-terminal / apex)
        elif r < 0.75:
            o = rng.choice(owners)
            rel = tuple(rng.choice(LABELS) for _ in range(rng.randint(1, 2))) + o     # below an owner (wildcards, cuts)
        elif r < 0.8:
            o = rng.choice(owners)
            rel = (rng.choice(LABELS),) + o[rng.randint(0, len(o)):]
        else:
            rel = rand_path(rng, 5)
        rel = rel[max(0, len(rel) - 5):]
        if rng.random() < 0.03:
            name = ntok(rel + ("other",))                               # outside the apex (unless the apex is the root)
        else:
            name = ntok(rel + apex)
        qs.append((name, rng.choice(QTYPES)))
    return qs


def ops_of(apex, recs):
    return [op("W" if w else "I", ntok(rel + apex), typ, ttl, d) for (w, rel, typ, ttl, d) in recs]


def rand_case(rng):
    apex = rng.choice(APEXES)
    auth = rng.random() < 0.7
    soa = soa_tok(apex, 1, rng.choice([300, 300, 5, 0])) if auth else None
    recs = rand_zone_recs(rng, apex, 12)
    merge = rng.random() < 0.3
    recs2 = []
    soa2 = None
    if merge:
        k = rng.randint(0, len(recs))
        recs, recs2 = recs[:k], recs[k:] + (rand_zone_recs(rng, apex, 4) if rng.random() < 0.5 else [])
        if rng.random() < 0.5:
            recs2 = recs2 + [rng.choice(recs)] if recs else recs2     # overlap
        soa2 = soa_tok(apex, 2, rng.choice([300, 60, 400])) if rng.random() < 0.6 else None
    if rng.random() < 0.75:
        allr = repair_d1(rng, apex, recs + recs2)
        recs = [r for r in recs if r in allr]
        recs2 = [r for r in recs2 if r in allr]
    ops = ops_of(apex, recs)
    if merge:
        ops = ops + ["M~%s" % (soa2 or "-")] + ops_of(apex, recs2)
    qs = rand_queries(rng, apex, recs + recs2, rng.choice([8, 14, 20]))
    return case_line(apex, soa, ops, qs)


def corpus_cases():
    ex = ("example", "com")
    soa1 = soa_tok(ex, 1, 300)
    soa2 = soa_tok(ex, 2, 300)
    ns = tok.rd_name(ntok(("ns1",) + ex))
    out = []
    # F2: NS at the apex does not delegate the zone
    out.append(case_line(ex, soa1,
                         [op("I", ntok(ex), NS_T, 300, ns), op("I", ntok(("www",) + ex), A_T, 300, tok.rd_a(1))],
                         [(ntok(ex), A_T), (ntok(ex), SOA_T), (ntok(ex), NS_T), (ntok(ex), tok.ANY),
                          (ntok(("missing",) + ex), A_T), (ntok(("www",) + ex), A_T), (ntok(("x", "www") + ex), A_T)]))
    # F3: merge keeps the other zone's wildcards at a node that had none
    out.append(case_line(ex, None,
                         [op("I", ntok(("w",) + ex), A_T, 300, tok.rd_a(1)), "M~-",
                          op("W", ntok(("w",) + ex), A_T, 300, tok.rd_a(2))],
                         [(ntok(("x", "w") + ex), A_T), (ntok(("w",) + ex), A_T), (ntok(("y", "x", "w") + ex), tok.ANY)]))
    # F4: two SOAs merged: exactly one SOA RR, the second
    out.append(case_line(ex, soa1, ["M~" + soa2], [(ntok(ex), SOA_T), (ntok(ex), tok.ANY)]))
    out.append(case_line(ex, soa1, [op("I", ntok(("www",) + ex), A_T, 1, tok.rd_a(1)), "M~-",
                                    op("I", ntok(("www",) + ex), A_T, 1, tok.rd_a(1))],
                         [(ntok(ex), SOA_T), (ntok(("www",) + ex), A_T)]))
    # node kinds of the property text
    a = ("a",)
    for apex, soa in [((), None), (ex, soa1), (a, soa_tok(a, 1, 300))]:
        n = lambda *ls: ntok(tuple(ls) + apex)
        ops = [op("I", n("b", "c"), A_T, 300, tok.rd_a(1)),                 # c is an empty non-terminal
               op("W", n("c"), TXT_T, 300, tok.rd_octets([1])),             # wildcard next to an existing sibling
               op("W", n("a", "a"), A_T, 300, tok.rd_a(2)),                 # wildcard under an empty non-terminal
               op("I", n("d"), CNAME_T, 300, tok.rd_name(n("b", "c"))),
               op("I", n("d"), A_T, 300, tok.rd_a(3)),                      # CNAME next to other data
               op("I", n("e"), NS_T, 300, ns), op("I", n("e"), A_T, 300, tok.rd_a(4)),   # delegation point with other data
               op("W", n("f"), NS_T, 300, ns),                              # wildcard NS
               op("W", n("g"), CNAME_T, 300, tok.rd_name(n("b", "c"))),
               op("I", n(), NS_T, 300, ns)]
        names = [n(), n("c"), n("b", "c"), n("x", "c"), n("y", "x", "c"), n("a"), n("a", "a"), n("x", "a", "a"), n("z", "y", "x", "a", "a"),
                 n("d"), n("e"), n("x", "e"), n("y", "x", "e"), n("f"), n("x", "f"), n("y", "x", "f"), n("x", "g"), n("q"), n("x", "b", "c")]
        out.append(case_line(apex, soa, ops, [(nm, qt) for nm in names for qt in QTYPES]))
    return out


def malformed_cases(rng, n):
    out = []
    ex = ("example", "com")
    soa1 = soa_tok(ex, 1, 300)
    long4 = tuple(c * 63 for c in "abcd")
    long3 = long4[1:]
    for apex, soa in [(ex, soa1), ((), None)]:
        # raw over-long owner: from_labels(..).unwrap() in ZoneRecords::insert
        out.append(case_line(apex, soa, [op("I", ntok(long4 + apex), A_T, 300, tok.rd_a(1))], [(ntok(apex), A_T)]))
        out.append(case_line(apex, soa, [op("W", ntok(long4 + apex), A_T, 300, tok.rd_a(1))], [(ntok(apex), A_T)]))
        # over-long question below a deep wildcard: the unwrap in ZoneRecords::resolve
        out.append(case_line(apex, soa, [op("W", ntok(long3 + apex), A_T, 300, tok.rd_a(1))],
                             [(ntok(("z" * 63,) + long3 + apex), A_T), (ntok(("z",) + long3 + apex), A_T),
                              (ntok(("y", "z" * 63) + long3 + apex), tok.ANY), (ntok(long4 + apex), A_T)]))
        # owners and questions outside the apex, empty zone, no questions
        out.append(case_line(apex, soa, [op("I", ntok(("www", "other")), A_T, 300, tok.rd_a(1)), op("W", ntok(("other",)), A_T, 300, tok.rd_a(1))],
                             [(ntok(("www", "other")), A_T), (ntok(("x", "other")), A_T), (ntok(()), tok.ANY), (ntok(("com",)), NS_T)]))
        out.append(case_line(apex, soa, [], [(ntok(apex), tok.ANY), (ntok(("a",) + apex), A_T)]))
        out.append(case_line(apex, soa, [op("I", ntok(apex), A_T, 300, tok.rd_a(1))], []))
    while len(out) < n:
        apex = rng.choice(APEXES)
        soa = soa_tok(apex, 1, 300) if rng.random() < 0.5 else None
        k = rng.choice([2, 3, 4])
        big = tuple(rng.choice("abc") * rng.choice([60, 63]) for _ in range(k))
        ops = [op(rng.choice("IW"), ntok(big + apex), A_T, 300, tok.rd_a(1))]
        qs = [(ntok((rng.choice("abc") * rng.choice([1, 63]),) + big[rng.randint(0, k - 1):] + apex), rng.choice(QTYPES)) for _ in range(4)]
        out.append(case_line(apex, soa, ops, qs))
    return out


def exhaustive_cases(max_recs):
    """all zones of <= max_recs records out of {A,NS,CNAME} x {ordinary,wildcard} x owners of depth <= 2 over {a,b},
    each asked every name of depth <= 3 over {a,b} x {A,NS,CNAME,ANY}"""
    labels = ["a", "b"]
    owners = [()] + [(x,) for x in labels] + [(x, y) for x in labels for y in labels]
    apex = ("z",)
    soa = soa_tok(apex, 1, 300)
    target = tok.rd_name(ntok(("t",) + apex))
    universe = []
    for o in owners:
        for typ, d in [(A_T, tok.rd_a(1)), (NS_T, target), (CNAME_T, target)]:
            for w in (False, True):
                universe.append((w, o, typ, 300, d))
    qnames = owners + [(x, y, z) for x in labels for y in labels for z in labels]
    qs = [(ntok(q + apex), qt) for q in qnames for qt in (A_T, NS_T, CNAME_T, tok.ANY)]
    out = []
    for k in range(0, max_recs + 1):
        for recs in itertools.combinations(universe, k):
            out.append(case_line(apex, soa, ops_of(apex, list(recs)), qs))
    return out


def generate(rng, tier):
    cases = []
    if os.path.isdir(CORPUS):
        for f in sorted(os.listdir(CORPUS)):
            if f.endswith(".txt"):
                with open(os.path.join(CORPUS, f)) as fh:
                    cases += [l.rstrip("\n") for l in fh if l.strip() and not l.startswith("#")]
    cases += corpus_cases()
    cases += malformed_cases(rng, 40 if tier == "quick" else 400)
    if tier == "quick":
        cases += exhaustive_cases(1)
        n = 1700
    else:
        cases += exhaustive_cases(3)
        n = 12000
    while n > 0:
        cases.append(rand_case(rng))
        n -= 1
    LOOKUPS[0] = sum(0 if c.split(" ")[5] == "_" else c.split(" ")[5].count("|") + 1 for c in cases)
    return cases


def extra(ctx):
    return [], {"lookups": LOOKUPS[0], "lookup_results": dict(RESULT_STATS),
                "note": "every lookup is also compared with the extracted flat specification (flat_resolve) inside the model "
                        "driver when the zone satisfies D1; a difference would show as a '!SPEC' suffix and a disagreement"}


THEOREMS = ["C02_resolve_refines_flat", "C02_flat_of_ops_sound", "C02_flat_of_ops_complete", "C02_insert_preserves",
            "C02_resolve_no_panic", "C02_resolve_R", "C02_owner_is_query_name", "C02_ent_and_apex_give_empty_answer",
            "C02_apex_gives_empty_answer", "C02_nameerror_only_if_absent", "C02_records_are_zone_records",
            "C02_ns_question_at_cut_answered_directly", "C02_referral_at_or_beneath_cut", "C02_existing_name_classified",
            "C02_missing_name_from_wildcard", "C02_example_wildcard_synthesis"]
