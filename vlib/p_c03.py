"""C03 -- the wire decoder is total, bounded and accepts exactly the well-formed messages.

Stream "wire", op DEC: the byte string is decoded by the model (extracted from WireModel.v) and
by Message::from_octets; the oracle compares the implementation's answer with the independent
RFC 1035 decoder vlib/wireref.py (accept/reject, and the whole decoded message when accepted),
checks the error id and that nothing panics.  Thorough tier: the maximal pointer chain is also
decoded by the release build on a 2 MiB thread in a subprocess (extra)."""
import os
import subprocess
import time

from . import core
from . import tok, wiregen, wireref

ID = "C03"
DRIVER = "wire"
ML_EXTRA = ("vmsg.ml",)
COQ_TARGETS = ["Properties/C03.vo"]
# names of the theorems in coq/Properties/C03.v to Print Assumptions on (edit here)
THEOREMS = [
    "C03_decode_total",
    "C03_decode_name_hops",
    "C03_decode_name_fuel_irrelevant",
    "C03_decode_err_id",
    "C03_decode_short",
    "C03_decode_sound",
    "C03_decode_complete",
    "C03_decode_exact",
    "C03_decode_wf",
    "C03_decode_steps_result",
    "C03_decode_steps",
    "C03_decode_name_steps",
    "C03_decode_ok_sizes",
]
RULE = ("cases: adversarial families first (short inputs, counts 0xFFFF, self/forward/header pointers, pointer chains "
        "up to the maximal stride-2 chain of 8181 pointers in a NULL RDATA, reserved label types 64..191, labels 63/64, "
        "names 255/256 directly and through pointers, 65535-octet RDATA, RDLENGTH one off for every record type), the "
        "header sweep, then valid messages from the structured generator encoded by a python encoder without "
        "compression / whole-name compression / suffix compression (RDATA too) / mixed case, every truncation of "
        "messages, single-octet mutations, random octets; non-trivial = distinct case line whose input has at least "
        "12 octets (a full header)")
ASSUMPTIONS = [
    "stack use per pointer hop is a property of the compiled code: the theorem bounds the hops (< 16384 frames); the "
    "thorough tier measures the release build on a 2 MiB thread with the maximal chain",
]
TRUSTED = ["independent reference decoder vlib/wireref.py (written from RFC 1035 4.1; used by the oracle only)"]

ERR_KINDS = ("CompletelyBusted", "HeaderTooShort", "QuestionTooShort", "ResourceRecordTooShort", "ResourceRecordInvalid",
             "DomainTooShort", "DomainTooLong", "DomainPointerInvalid", "DomainLabelInvalid")

_FAMILY = {}          # case line -> family tag (filled by generate; a replay has no tags)


def hexb(b):
    return b.hex() if b else "-"


def generate(rng, tier):
    n = 5000 if tier == "quick" else 300000
    cases = []
    fam = _FAMILY

    def add(tag, b):
        line = "wire DEC " + (b.hex() if b else "-")
        cases.append(line)
        if line not in fam:
            fam[line] = tag

    # 1. adversarial families / corpus, each once
    small_adversarial = []
    for tag, b in wiregen.families(rng):
        add(tag, b)
        if len(b) <= 600:
            small_adversarial.append(b)
    # 2. header sweep over a small body, the compression mode cycling
    for i, m in enumerate(wiregen.header_sweep_messages(tier)):
        add("header", wiregen.encode(m, wiregen.MODES[i % 3], rng, i % 5 == 0, z=(i % 8 if i % 4 == 0 else 0)))
    # 3. every record type in every mode; every truncation of the small body
    quick = tier == "quick"
    for i in range(6 if quick else 60):
        m = wiregen.every_type_message(rng)
        for mode in wiregen.MODES:
            add("valid-" + mode, wiregen.encode(m, mode, rng, False))
            add("valid-" + mode + "-mixcase", wiregen.encode(m, mode, rng, True))
        if i < 3:
            b = wiregen.encode(m, "suffix", rng, False)
            if quick:
                for _ in range(120):
                    add("truncation", b[:rng.randrange(len(b))])
            else:
                for t in wiregen.truncations(b):
                    add("truncation", t)
    for t in wiregen.truncations(wiregen.encode(wiregen.header_sweep_messages("quick")[0], "whole")):
        add("truncation", t)
    # 4. the mix, by quota
    rest = max(0, n - len(cases))
    p_big = 0.004 if quick else 0.0015

    def fill(share, step):
        stop = len(cases) + int(rest * share)
        while len(cases) < stop:
            step(stop - len(cases))

    def valid(room):
        m = wiregen.gen_message(rng, p_big)
        mode = rng.choice(wiregen.MODES)
        mc = rng.random() < 0.25
        add("valid-" + mode + ("-mixcase" if mc else ""), wiregen.encode(m, mode, rng, mc))

    def truncs(room):
        b = wiregen.encode(wiregen.gen_message(rng), rng.choice(wiregen.MODES), rng, rng.random() < 0.2)
        if len(b) <= 250:
            for t in wiregen.truncations(b)[:room]:
                add("truncation", t)
        else:
            for _ in range(min(room, 60)):
                add("truncation", b[:rng.randrange(len(b))])

    def mutations(room):
        big = rng.random() < (0.02 if quick else 0.004)
        b = wiregen.encode(wiregen.gen_message(rng, 1.0 if big else 0.0), rng.choice(wiregen.MODES), rng, rng.random() < 0.2)
        for _ in range(min(room, 3 if big else 10)):
            add("mutation", wiregen.mutate(rng, b))
        if rng.random() < 0.3:
            add("mutation2", wiregen.mutate(rng, wiregen.mutate(rng, b)))

    def mutations_adversarial(room):
        b = rng.choice(small_adversarial)
        for _ in range(min(room, 4)):
            add("mutation-adversarial", wiregen.mutate(rng, b))

    def noise(room):
        add("random", wiregen.random_bytes(rng))

    fill(0.32, valid)
    fill(0.20, truncs)
    fill(0.28, mutations)
    fill(0.06, mutations_adversarial)
    fill(0.14, noise)
    return cases


def case_bytes(case):
    h = case.split(" ")[2]
    return b"" if h == "-" else bytes.fromhex(h)


def oracle(case, impl, model):
    op = case.split(" ", 2)[1]
    if op not in ("DEC", "STACK2M"):
        return None
    if impl.startswith("DRIVER-DIED-AFTER"):
        return None                        # not run: the case that killed the driver is reported
    if impl == "Panic" or impl.startswith("DRIVER-DIED"):
        return ("panic", "decoding panicked or killed the process: " + impl)
    data = case_bytes(case)
    ref = wireref.decode(data)
    if impl.startswith("Err:"):
        p = impl.split(":")
        if len(p) != 3 or p[1] not in ERR_KINDS:
            return ("bad-output", "unreadable result " + core.trunc(impl, 80))
        want = str((data[0] << 8) | data[1]) if len(data) >= 2 else "-"
        if p[2] != want:
            return ("wrong-error-id", "error %s carries id %s, the input's id is %s" % (p[1], p[2], want))
        if ref[0] == "ok":
            return ("rejects-wellformed", "rejected with %s a message the RFC 1035 decoder reads as %s"
                    % (p[1], core.trunc(wireref.render(ref[1]), 200)))
        return None
    if impl.startswith("Ok:"):
        if ref[0] == "err":
            return ("accepts-malformed", "accepted a message the RFC 1035 decoder rejects (%s)" % ref[1])
        want = wireref.render(ref[1])
        if impl != want:
            return ("decodes-differently", "decoded as %s, the RFC 1035 decoder reads %s" % (core.trunc(impl, 200), core.trunc(want, 200)))
        return None
    return ("bad-output", "unreadable result " + core.trunc(impl, 80))


def outcome(out):
    if out.startswith("Ok:"):
        return "Ok"
    if out.startswith("Err:"):
        return out.split(":")[1]
    return out.split(" ")[0][:20]


def kind(case, model):
    return "%s:%s:%s" % (case.split(" ", 2)[1], _FAMILY.get(case, "replay"), outcome(model))


def nontrivial(case, model):
    return len(case) - len("wire DEC ") >= 24


# --------------------------------------------------------------------------
# the stack clause: release build, 2 MiB thread, maximal chain
# --------------------------------------------------------------------------

def release_driver_path():
    return os.path.join(core.TARGET, "release", "impl_wire")


def build_release_driver():
    with core.Lock("cargo"):
        env = {"RUSTFLAGS": "--cfg " + core.GUARD, "CARGO_TARGET_DIR": core.TARGET, "CARGO_NET_OFFLINE": "true"}
        rc, out = core.sh(["cargo", "build", "--release", "--offline", "--bin", "impl_wire"], cwd=core.HARNESS, env=env, timeout=3000)
        return rc == 0, out


def server_stack_probe(ctx):
    """The property speaks about the stack of a SERVER worker thread: send the maximal backward pointer
    chain (and two shorter ones) to the real release `resolved` binary over TCP and check that the
    process survives and keeps answering.  (The decoder proofs bound the number of nested calls; the
    bytes per frame and the thread stack size are the compiler's / the runtime configuration's.)"""
    import socket
    from . import p_c09
    fails = []
    info = {"server_probe": {}}
    ok, out = p_c09.build_release_binaries()
    if not ok:
        return ([core.Failure("server-probe-build-failed", "release build of resolved failed: " + core.trunc(out[-600:], 600),
                              found_input=False)], info)
    cfg = {"zones": [], "hosts": [(0x01020304, "www.example.com.")], "cache_size": 16, "protocol_mode": "only-v4", "mode": "A"}
    try:
        srv = p_c09.Server(cfg, os.path.join(ctx["run_dir"], "c03-server"))
    except Exception as e:  # configuration shape changed: report as a broken probe, not silently
        return ([core.Failure("server-probe-broken", "could not start the server probe: %r" % (e,), found_input=False)], info)
    try:
        if not srv.wait_ready():
            return ([core.Failure("server-probe-broken", "resolved did not come up for the stack probe", found_input=False)], info)
        sent = 0
        for hops in (wiregen.MAX_CHAIN_PTRS, wiregen.MAX_CHAIN_PTRS // 2, 1500):
            msg = wiregen.chain_message(hops)
            if len(msg) > 65535:
                continue
            try:
                c = socket.create_connection(srv.addr, timeout=5)
                c.sendall(len(msg).to_bytes(2, "big") + msg)
                c.shutdown(socket.SHUT_WR)
                c.settimeout(5)
                try:
                    while c.recv(65536):
                        pass
                except OSError:
                    pass
                c.close()
            except OSError:
                pass
            sent += 1
            time.sleep(0.05)
            alive = srv.proc.poll() is None
            answered = False
            if alive:
                probe = p_c09.simple_query("www.example.com.", tok.A, ident=0x4242)
                for _ in range(20):
                    u = socket.socket(socket.AF_INET, socket.SOCK_DGRAM)
                    try:
                        u.settimeout(0.5)
                        u.sendto(probe, srv.addr)
                        r = u.recv(2048)
                        if r[:2] == probe[:2]:
                            answered = True
                            break
                    except OSError:
                        pass
                    finally:
                        u.close()
                    if srv.proc.poll() is not None:
                        break
            if not (alive and answered):
                fails.append(core.Failure(
                    "server-stack-overflow",
                    "the release resolved binary %s after a well-formed TCP message whose name is a backward pointer chain of %d hops (%d octets)"
                    % ("exited with status %s" % srv.proc.poll() if srv.proc.poll() is not None else "stopped answering", hops + 1, len(msg)),
                    case="C03-server-probe tcp " + msg.hex()[:200] + "...", impl="exit status %s" % srv.proc.poll()))
                break
        info["server_probe"] = {"messages": sent, "max_hops": wiregen.MAX_CHAIN_PTRS + 1, "alive_at_end": srv.proc.poll() is None}
        info["evaluations"] = sent
        info["distinct_nontrivial"] = sent
    finally:
        try:
            srv.proc.kill()
            srv.proc.wait(timeout=5)
            srv.log.close()
        except Exception:
            pass
    return fails, info


def extra(ctx):
    pf, pinfo = server_stack_probe(ctx)
    if ctx["tier"] != "thorough":
        return pf, pinfo
    f2, i2 = thorough_extra(ctx)
    i2.update(pinfo)
    i2["evaluations"] = i2.get("evaluations", 0) + pinfo.get("evaluations", 0)
    return pf + f2, i2


def thorough_extra(ctx):
    t0 = time.time()
    ok, out = build_release_driver()
    build_s = round(time.time() - t0, 1)
    if not ok:
        return ([core.Failure("stack-probe-build-failed", "release build of the harness failed: " + core.trunc(out[-800:], 800),
                              found_input=False)], {"stack_probe": {"built": False, "build_s": build_s}})
    msg = wiregen.max_chain_message()
    case = "wire STACK2M " + msg.hex()
    try:
        p = subprocess.run([release_driver_path()], input=case + "\n", stdout=subprocess.PIPE, stderr=subprocess.DEVNULL,
                           text=True, timeout=300)
        rc, line = p.returncode, p.stdout.split("\n")[0]
    except subprocess.TimeoutExpired:
        rc, line = "timeout", ""
    info = {"stack_probe": {"built": True, "build_s": build_s, "binary": "build/target/release/impl_wire",
                            "thread_stack_bytes": 2 * 1024 * 1024, "message_octets": len(msg),
                            "pointers_in_chain": wiregen.MAX_CHAIN_PTRS, "hops": wiregen.MAX_CHAIN_PTRS + 1,
                            "exit_status": rc, "result": core.trunc(line, 60)},
            "evaluations": 1, "distinct_nontrivial": 1}
    fails = []
    if rc != 0 or not line.startswith("Ok:"):
        fails.append(core.Failure("stack-overflow-2MiB",
                                  "release build decoding the maximal pointer chain (%d hops) on a 2 MiB thread: exit status %s, output %s"
                                  % (wiregen.MAX_CHAIN_PTRS + 1, rc, core.trunc(line, 80) or "(none)"),
                                  case=case, impl="exit status %s" % rc))
    else:
        f = oracle(case, line, line)
        if f is not None:
            fails.append(core.Failure(f[0], f[1], case=case, impl=line))
    return fails, info
