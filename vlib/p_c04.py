"""C04 -- encoding then decoding a message returns the same message.

Stream "wire": ENC <message> (to_octets; the oracle decodes the octets with the independent
RFC 1035 decoder vlib/wireref.py and checks every compression pointer), RT <message> (to_octets
then from_octets, compared inside the driver), REENC <hex> (decode, encode, decode, encode)."""
from . import core, msgtok, tok, wiregen, wireref
from .msgtok import ROOT, name

ID = "C04"
DRIVER = "wire"
ML_EXTRA = ("vmsg.ml",)
COQ_TARGETS = ["Properties/C04.vo"]
# names of the theorems in coq/Properties/C04.v to Print Assumptions on (edit here)
THEOREMS = [
    "C04_enc_table_inv",
    "C04_enc_table_entry",
    "C04_enc_table_keys",
    "C04_NameAt_stable",
    "C04_patch_local",
    "C04_patch_free",
    "C04_pointer_target",
    "C04_encode_name_parses",
    "C04_encode_question_parses",
    "C04_encode_rr_parses",
    "C04_header_parses",
    "C04_encode_parses",
    "C04_encode_bytes",
    "C04_parses_unique",
    "C04_roundtrip",
    "C04_encode_ok_iff",
    "C04_reencode_parses",
    "C04_reencode",
    "C04_example",
    "C04_example_big",
]
RULE = ("cases: the 17 000-octet TXT regression message first, then messages whose padding record places the first "
        "occurrence of a new name (as owner, or inside RDATA) at every offset 16381..16386 and around 65535/65536, "
        "each followed by records that reuse the name as owner and in RDATA; the header sweep; structured messages "
        "over small name pools (all 18 record types, unknown types, label lengths 1 and 63, names of 255 octets, RDATA "
        "of 0..65535 octets), each as an ENC and an RT case; REENC of octets written by a python encoder with no / "
        "whole-name / suffix compression and mixed case, and of single-octet mutations of those; counters above 65535; "
        "non-trivial = distinct case line whose message has a question or a record (ENC, RT) or whose input has at "
        "least 12 octets (REENC)")
ASSUMPTIONS = [
    "messages are built through the public constructors: names via from_labels (wf_name), enum values via From<u16>/From<u8>",
]
TRUSTED = ["independent reference decoder and pointer walk vlib/wireref.py (written from RFC 1035 4.1; used by the oracle only)"]

_FAMILY = {}


def regression_message():
    big = name("big.example.")
    late = name("late.example.")
    txt = bytes((i * 7 + 3) & 255 for i in range(17000))
    return ((0x1701, 1, 0, 1, 0, 1, 1, 0), (),
            ((big, tok.TXT, 1, 300, ("o", txt)),
             (late, tok.A, 1, 300, ("a", 0x0A000001)),
             (late, tok.A, 1, 300, ("a", 0x0A000002))), (), ())


def size_targeted(rng, target, variant, padtype):
    """a message in which the name new<target>.example. occurs for the first time exactly at
    offset `target` (as an owner name, or as the NS RDATA of a root-owned record), after one
    padding record of type padtype; two more records then use the name as owner and in RDATA.
    variant "alias": a question holds another name at offset 12 and the target is 16384 + 12."""
    new = (b"new%d" % target, b"example", b"")
    other = name("early.example.")
    qs = ()
    pre = 12
    if variant == "alias":
        qs = ((other, tok.A, 1),)
        pre = 12 + msgtok.name_len(other) + 4
    pad_start = pre + 1 + 10                      # root owner + fixed part
    pad = target - pad_start - (11 if variant == "rdata" else 0)
    assert 0 <= pad <= 65535, (target, variant, pad)
    blk = rng.randbytes(97)
    padrec = (ROOT, padtype, 1, 0, ("o", (blk * (pad // 97 + 1))[:pad]))
    rest = []
    if variant == "rdata":
        rest.append((ROOT, tok.NS, 1, 60, ("n", new)))
    else:
        rest.append((new, tok.A, 1, 60, ("a", 0x7F000001)))
    rest.append((new, tok.CNAME, 1, 60, ("n", new)))
    rest.append((new, tok.MX, 1, 60, ("x", 10, new)))
    m = ((target & 0xFFFF, 1, 0, 0, 0, 0, 0, 0), qs, (padrec,), tuple(rest[:2]), tuple(rest[2:]))
    b = wiregen.encode(m, "none")
    # self-check of the construction: the first occurrence really is at `target`
    first = b.find(msgtok_wire(new))
    assert first == target, (first, target, variant)
    return m


def msgtok_wire(nm):
    return wiregen.wname(nm)


# Cost control.  A 64 KiB ENC/RT case costs the model driver about 0.6 s and the implementation
# 0.2 s (a 16 KiB one 0.2 s / 0.05 s).  core.run_sharded cuts the stream into contiguous shards, so
# the heavy cases are dealt evenly over the stream instead of standing in one block (the regression
# corpus stays in front).  An earlier model encoder was quadratic (List.rev; 65 s per 64 KiB
# case); with such a model set this to True: the 64 KiB sweeps shrink to a handful of cases.
MODEL_ENCODE_QUADRATIC = False

HEAVY_LINE = 16000        # case lines longer than this count as heavy


def generate(rng, tier):
    quick = tier == "quick"
    slow = MODEL_ENCODE_QUADRATIC
    first = []            # regression corpus: stays in front
    heavy = []            # large cases: spread evenly over the rest
    cases = []
    fam = _FAMILY

    def add(tag, line, to=None):
        if to is None:
            to = heavy if len(line) > HEAVY_LINE else cases
        to.append(line)
        if line not in fam:
            fam[line] = tag

    def add_msg(tag, m, ops=("ENC", "RT"), to=None):
        t = msgtok.msgtok(m)
        for op in ops:
            add(tag, "wire %s %s" % (op, t), to)

    # 1. regression corpus
    add_msg("regression-17000", regression_message(), to=first)
    # 2. size-targeted family
    near16k = range(16381, 16387) if quick else range(16370, 16400)
    for t in near16k:
        for variant in ("owner", "rdata"):
            if quick:
                add_msg("size-16384", size_targeted(rng, t, variant, tok.TXT if (t + (variant == "rdata")) % 2 else tok.NULL))
            else:
                for padtype in (tok.TXT, tok.NULL):
                    add_msg("size-16384", size_targeted(rng, t, variant, padtype))
    add_msg("size-16384", size_targeted(rng, 16384 + 12, "alias", tok.TXT))
    if not quick:
        add_msg("size-16384", size_targeted(rng, 16384 + 12, "alias", tok.NULL))
        for t in (16383 + 12, 16385 + 12, 32768, 32768 + 12, 49152 + 12):
            add_msg("size-16384", size_targeted(rng, t, "alias" if t % 16384 in (11, 12, 13) else "owner", tok.TXT))
    if quick and slow:
        near64k = [(65535, "owner", ("ENC",)), (65536, "owner", ("RT",)), (65536, "rdata", ("ENC",))]
    elif quick:
        near64k = [(t, v, ("ENC", "RT")) for t, v in ((65534, "owner"), (65535, "owner"), (65536, "owner"), (65537, "owner"),
                                                      (65535, "rdata"), (65536, "rdata"))]
    elif slow:
        near64k = [(t, v, ("ENC", "RT")) for t in range(65533, 65539) for v in ("owner", "rdata")] + [(65558, "owner", ("ENC", "RT"))]
    else:
        near64k = [(t, v, ("ENC", "RT")) for t in range(65524, 65548) for v in ("owner", "rdata")] \
            + [(65558, "owner", ("ENC", "RT")), (65569, "rdata", ("ENC", "RT"))]
    for t, variant, ops in near64k:
        add_msg("size-65536", size_targeted(rng, t, variant, tok.TXT if t % 2 else tok.NULL), ops)
    # 2b. confusable names (different names that a careless memoisation key would identify)
    for m in wiregen.confusable_messages(rng):
        add_msg("confusable-names", m)
    # 3. header sweep
    for i, m in enumerate(wiregen.header_sweep_messages(tier)):
        add_msg("header", m)
    # 4. structured messages
    nmsg = 800 if quick else 32000
    for i in range(6 if quick else 40):
        add_msg("every-type", wiregen.every_type_message(rng))
    if slow:
        # large RDATA: mostly 16 KiB; the 64 KiB ones a fixed small number
        p_big, sizes = (0.006, [16383, 16384]) if quick else (0.002, [16383, 16384, 16384, 16383, 65535])
    else:
        p_big, sizes = (0.006 if quick else 0.002), wiregen.BIG_SIZES
    for i in range(nmsg):
        add_msg("structured", wiregen.gen_message(rng, p_big, sizes))
    # 5. re-encoding of octets that decode
    nre = 650 if quick else 19000
    made = 0
    re_sizes = [16383, 16384] if slow else wiregen.BIG_SIZES
    while made < nre:
        m = wiregen.gen_message(rng, 0.003 if quick else 0.001, re_sizes)
        mode = rng.choice(wiregen.MODES)
        mc = rng.random() < 0.3
        b = wiregen.encode(m, mode, rng, mc, z=rng.choice([0, 0, 0, 7, rng.randrange(8)]))
        add("reenc-" + mode + ("-mixcase" if mc else ""), "wire REENC " + b.hex())
        made += 1
        if rng.random() < 0.5 and len(b) < 2000:
            for _ in range(3):
                add("reenc-mutation", "wire REENC " + wiregen.mutate(rng, b).hex())
                made += 1
    for tag, b in wiregen.families(rng):
        if tag in ("ptr-header", "ptr-chain", "name-255-256", "max-chain", "counts"):
            add("reenc-" + tag, "wire REENC " + b.hex())
    # 6. counters that do not fit 16 bits
    for typ, n in ((tok.TXT, 65536), (99, 65537)):
        blk = rng.randbytes(89)
        m = ((7, 0, 0, 0, 0, 0, 0, 0), (), ((name("a."), typ, 1, 0, ("o", (blk * (n // 89 + 1))[:n])),), (), ())
        add_msg("counter-rdata-%d" % n, m)
    if not quick:
        q = (ROOT, tok.A, 1)
        r = (ROOT, tok.A, 1, 0, ("a", 0))
        h = (9, 0, 0, 0, 0, 0, 0, 0)
        add_msg("counter-questions-65536", (h, (q,) * 65536, (), (), ()))
        add_msg("counter-additional-65536", (h, (), (), (), (r,) * 65536), ("ENC",))
        if not slow:
            add_msg("counter-questions-65535", (h, (q,) * 65535, (), (), ()), ("RT",))
            add_msg("counter-authority-65535", (h, (), (), (r,) * 65535, ()), ("RT",))
    # spread the heavy cases evenly over the others, the longest first within the spread
    out = list(first)
    if heavy:
        heavy.sort(key=len, reverse=True)
        # deal the heavy cases round-robin so that neighbours in the stream are of unlike cost
        k = 16
        dealt = [h for i in range(k) for h in heavy[i::k]]
        stride = len(cases) / float(len(dealt))
        nxt = 0
        for i, h in enumerate(dealt):
            upto = int(round(i * stride))
            out.extend(cases[nxt:upto])
            nxt = upto
            out.append(h)
        out.extend(cases[nxt:])
    else:
        out.extend(cases)
    return out


def too_large_counters(m):
    """the 16-bit counters of the encoding of m that do not fit"""
    cs = [len(m[1]), len(m[2]), len(m[3]), len(m[4])]
    for sec in m[2:5]:
        for r in sec:
            cs.append(msgtok.rdata_wire_len(r[4]))
    return {c for c in cs if c > 65535}


def _counter_verdict(arg, impl):
    try:
        n = int(impl.split(":")[2])
    except (IndexError, ValueError):
        return ("bad-output", "unreadable result " + core.trunc(impl, 80))
    if n in too_large_counters(msgtok.parse_msg(arg)):
        return None
    return ("roundtrip-differs", "encoding failed with CounterTooLarge(%d) but the message has no such counter" % n)


def oracle(case, impl, model):
    _, op, arg = case.split(" ", 2)
    if impl.startswith("DRIVER-DIED-AFTER"):
        return None
    if impl == "Panic" or impl.startswith("DRIVER-DIED"):
        return ("panic", "%s panicked or killed the process: %s" % (op, impl))
    if op == "RT":
        if impl.startswith("eq:"):
            return None
        if impl.startswith("neq:"):
            return ("roundtrip-differs", "from_octets(to_octets(m)) is not m: " + core.trunc(impl, 200))
        if impl.startswith("Err:CounterTooLarge:"):
            return _counter_verdict(arg, impl)
        return ("bad-output", "unreadable result " + core.trunc(impl, 80))
    if op == "ENC":
        if impl.startswith("Err:CounterTooLarge:"):
            return _counter_verdict(arg, impl)
        if not impl.startswith("Ok:"):
            return ("bad-output", "unreadable result " + core.trunc(impl, 80))
        h = impl[3:]
        try:
            data = b"" if h == "-" else bytes.fromhex(h)
        except ValueError:
            return ("bad-output", "unreadable octets")
        want = msgtok.lower_msg(msgtok.parse_msg(arg))
        ref = wireref.decode(data)
        if ref[0] != "ok":
            return ("roundtrip-differs", "the RFC 1035 decoder rejects the encoding: " + ref[1])
        if ref[1] != want:
            return ("roundtrip-differs", "the RFC 1035 decoder reads the encoding as " + core.trunc(msgtok.msgtok(ref[1]), 300))
        bad = wireref.pointer_check(data, want)
        if bad is not None:
            return ("bad-compression-pointer", bad)
        return None
    if op == "REENC":
        data = b"" if arg == "-" else bytes.fromhex(arg)
        ref = wireref.decode(data)
        if impl.startswith("Err:"):
            if ref[0] == "ok":
                return ("rejects-wellformed", "rejected with %s octets the RFC 1035 decoder reads" % impl)
            return None
        if impl.startswith("Ok:"):
            if ref[0] != "ok":
                return ("accepts-malformed", "decoded octets the RFC 1035 decoder rejects (%s)" % ref[1])
            p = impl.split(":")
            if len(p) >= 3 and p[1] == "Err":
                return ("reencode-differs", "the decoded message cannot be encoded again: " + impl)
            if len(p) != 5 or p[1] not in ("eq", "neq") or p[2] not in ("stable", "unstable"):
                return ("bad-output", "unreadable result " + core.trunc(impl, 80))
            if p[1] != "eq":
                return ("reencode-differs", "decoding the re-encoding of a decoded message gives another message")
            if p[2] != "stable":
                return ("reencode-unstable", "encoding the re-decoded message gives other octets")
            return None
        return ("bad-output", "unreadable result " + core.trunc(impl, 80))
    return None


def outcome(out):
    p = out.split(":")
    if p[0] == "Ok" and len(p) >= 3 and p[1] in ("eq", "neq", "Err"):
        return ":".join(p[:3])
    if p[0] == "Err" and len(p) >= 2:
        return "Err:" + p[1]
    return p[0][:20]


def kind(case, model):
    return "%s:%s:%s" % (case.split(" ", 2)[1], _FAMILY.get(case, "replay"), outcome(model))


def nontrivial(case, model):
    _, op, arg = case.split(" ", 2)
    if op == "REENC":
        return len(arg) >= 24
    return not arg.endswith("|_|_|_|_")
