"""Token syntax shared with ocaml/vutil.ml, ocaml/vrr.ml and harness/src/util.rs."""

# record type codes
A, NS, MD, MF, CNAME, SOA, MB, MG, MR, NULL, WKS, PTR, HINFO, MINFO, MX, TXT, AAAA, SRV = \
    1, 2, 3, 4, 5, 6, 7, 8, 9, 10, 11, 12, 13, 14, 15, 16, 28, 33
AXFR, MAILB, MAILA, ANY = 252, 253, 254, 255
IN = 1
NAME_TYPES = (NS, MD, MF, CNAME, MB, MG, MR, PTR)
OCTET_TYPES = (NULL, WKS, HINFO, TXT)
KNOWN_TYPES = (A, NS, MD, MF, CNAME, SOA, MB, MG, MR, NULL, WKS, PTR, HINFO, MINFO, MX, TXT, AAAA, SRV)


def hexb(b):
    b = bytes(b)
    return b.hex() if b else "-"


def labtok(ls):
    """ls: list of labels (bytes/list of ints/str); the root label must be included explicitly."""
    if not ls:
        return "_"
    return ".".join(hexb(l.encode() if isinstance(l, str) else l) for l in ls)


def name(s):
    """'www.example.com.' -> label token (ASCII dotted text, absolute)."""
    if s == ".":
        return "-"
    assert s.endswith(".")
    return labtok(s[:-1].split(".") + [""])


def nums(s):
    return ",".join(str(c) for c in s) if s else "_"


def text(s):
    return nums([ord(c) for c in s])


def rd_a(u32):
    return "a%d" % u32


def rd_name(n):
    return "n" + n


def rd_soa(m, r, serial, refresh, retry, expire, minimum):
    return "s%s,%s,%d,%d,%d,%d,%d" % (m, r, serial, refresh, retry, expire, minimum)


def rd_octets(b):
    return "o" + hexb(b)


def rd_minfo(r, e):
    return "i%s,%s" % (r, e)


def rd_mx(p, e):
    return "x%d,%s" % (p, e)


def rd_aaaa(b16):
    assert len(b16) == 16
    return "q" + bytes(b16).hex()


def rd_srv(p, w, o, t):
    return "v%d,%d,%d,%s" % (p, w, o, t)


def rr(nm, typ, ttl, rdata, cls=IN):
    return "%s:%d:%d:%d:%s" % (nm, typ, cls, ttl, rdata)


def rrs(l):
    return ";".join(l) if l else "_"


def question(nm, qt, qc=IN):
    return "%s:%d:%d" % (nm, qt, qc)


def parse_labels(tok):
    if tok == "_":
        return []
    return [bytes.fromhex(h) if h != "-" else b"" for h in tok.split(".")]


def parse_rr(tok):
    n, t, c, ttl, d = tok.split(":")
    return {"name": n, "type": int(t), "class": int(c), "ttl": int(ttl), "data": d}


def parse_rrs(tok):
    return [] if tok == "_" else [parse_rr(x) for x in tok.split(";")]


def random_rdata(rng, typ, names):
    """random rdata token of the right shape for typ; names: pool of name tokens"""
    if typ == A:
        return rd_a(rng.choice([0, 1, 0x7F000001, 0x01020304, 0xFFFFFFFF, rng.getrandbits(32)]))
    if typ in NAME_TYPES:
        return rd_name(rng.choice(names))
    if typ == SOA:
        return rd_soa(rng.choice(names), rng.choice(names), rng.getrandbits(32), rng.getrandbits(32),
                      rng.randint(0, 1000), rng.getrandbits(32), rng.choice([0, 1, 5, 30, 300, 2 ** 32 - 1]))
    if typ == MINFO:
        return rd_minfo(rng.choice(names), rng.choice(names))
    if typ == MX:
        return rd_mx(rng.choice([0, 1, 10, 65535]), rng.choice(names))
    if typ == AAAA:
        return rd_aaaa([rng.choice([0, 0, 1, 255, rng.randint(0, 255)]) for _ in range(16)])
    if typ == SRV:
        return rd_srv(rng.randint(0, 65535), rng.randint(0, 65535), rng.choice([0, 53, 443, 65535]), rng.choice(names))
    return rd_octets([rng.randint(0, 255) for _ in range(rng.choice([0, 1, 2, 5, 20]))])
