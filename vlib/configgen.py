"""Shared code of the "config" stream (C12, C19): rendering of zone / hosts files as data
tokens and as text, case lines (syntax: ocaml/drv_config.ml), an independent reading of a
case for the oracles, the configuration generator (C12) and the edit-sequence generator (C19).
"""
import os
import re

from . import core, tok
from . import p_c02 as flatref   # RFC 1034 4.3.2 on a flat record list (python reference of C02)

A, AAAA, NS, CNAME, MX, TXT, SOA = tok.A, tok.AAAA, tok.NS, tok.CNAME, tok.MX, tok.TXT, tok.SOA
TYPE_NAME = {A: "A", AAAA: "AAAA", NS: "NS", CNAME: "CNAME", MX: "MX", TXT: "TXT"}


def hosts_ttl():
    """hosts::types::TTL of the current source (the property speaks of 'the hosts TTL')"""
    try:
        with open(os.path.join(core.REPO, "crates/dns-types/src/hosts/types.rs")) as f:
            m = re.search(r"pub const TTL: u32 = (\d+);", f.read())
        return int(m.group(1))
    except Exception:
        return 5


HOSTS_TTL = hosts_ttl()

# ----------------------------------------------------------------------------
# rendering: names are tuples of str labels, leftmost first, without the root label
# rdata: ('a', u32) | ('q', bytes16) | ('n', name) | ('x', pref, name) | ('o', ascii bytes)
# ----------------------------------------------------------------------------


def ntok(labels):
    return tok.labtok(list(labels) + [""])


def ntext(labels):
    return ".".join(labels) + "." if labels else "."


def rd_tok(rd):
    k = rd[0]
    if k == "a":
        return tok.rd_a(rd[1])
    if k == "q":
        return tok.rd_aaaa(rd[1])
    if k == "n":
        return tok.rd_name(ntok(rd[1]))
    if k == "x":
        return tok.rd_mx(rd[1], ntok(rd[2]))
    if k == "o":
        return tok.rd_octets(rd[1])
    raise ValueError(rd)


def ip4_text(u):
    return "%d.%d.%d.%d" % ((u >> 24) & 255, (u >> 16) & 255, (u >> 8) & 255, u & 255)


def ip6_text(b):
    return ":".join("%x" % (b[2 * i] * 256 + b[2 * i + 1]) for i in range(8))


def rd_text(rd):
    k = rd[0]
    if k == "a":
        return ip4_text(rd[1])
    if k == "q":
        return ip6_text(rd[1])
    if k == "n":
        return ntext(rd[1])
    if k == "x":
        return "%d %s" % (rd[1], ntext(rd[2]))
    if k == "o":
        return bytes(rd[1]).decode("ascii")
    raise ValueError(rd)


def soa_tok(apex, serial, minimum):
    return tok.rd_soa(ntok(("ns",) + apex), ntok(("admin",) + apex), serial, 7200, 600, 86400, minimum)


def soa_text(apex, serial, minimum):
    return "%s %s %d 7200 600 86400 %d" % (ntext(("ns",) + apex), ntext(("admin",) + apex), serial, minimum)


def hexs(b):
    b = bytes(b)
    return b.hex() if b else "-"


class ZoneFile:
    """apex; soa = None | (serial, minimum); recs = [(wild, owner name, type, ttl, rdata)] in text order.
    A file without SOA has the root as apex (Zone::deserialise)."""

    def __init__(self, apex, soa, recs, soa_last=False, comments=False):
        self.apex = tuple(apex)
        self.soa = soa
        self.recs = list(recs)
        self.soa_last = soa_last
        self.comments = comments
        assert soa is not None or self.apex == ()

    def data(self):
        # Zone::deserialise inserts all ordinary records first, then all wildcard records
        ops = ["I" + tok.rr(ntok(o), t, ttl, rd_tok(rd)) for (w, o, t, ttl, rd) in self.recs if not w]
        ops += ["W" + tok.rr(ntok(o), t, ttl, rd_tok(rd)) for (w, o, t, ttl, rd) in self.recs if w]
        return "Z%s@%s@%s" % (ntok(self.apex), soa_tok(self.apex, *self.soa) if self.soa else "-", "&".join(ops) if ops else "_")

    def text(self):
        lines = []
        if self.comments:
            lines.append("; generated zone file")
        lines.append("$ORIGIN %s" % ntext(self.apex))
        soa_line = None
        if self.soa:
            soa_line = "%s 300 IN SOA %s" % (ntext(self.apex), soa_text(self.apex, *self.soa))
            if not self.soa_last:
                lines.append(soa_line)
        for (w, o, t, ttl, rd) in self.recs:
            owner = ("*." + (ntext(o) if o else "")) if w else ntext(o)
            lines.append("%s %d IN %s %s" % (owner, ttl, TYPE_NAME[t], rd_text(rd)))
            if self.comments and len(lines) % 3 == 0:
                lines.append("")
        if soa_line and self.soa_last:
            lines.append(soa_line)
        return ("\n".join(lines) + "\n").encode()

    def content(self):
        return "%s%%%s" % (self.data(), hexs(self.text()))


class HostsFile:
    """entries = [(name, 'a'|'q', address)] in line order"""

    def __init__(self, entries, group=False, comments=False):
        self.entries = list(entries)
        self.group = group
        self.comments = comments

    def data(self):
        es = ["%s@%s" % (ntok(n), rd_tok((f, a))) for (n, f, a) in self.entries]
        return "H" + ("&".join(es) if es else "_")

    def text(self):
        lines = []
        if self.comments:
            lines += ["# generated hosts file", ""]
        i = 0
        while i < len(self.entries):
            n, f, a = self.entries[i]
            names = [n]
            # several names of one address on one line
            while self.group and i + 1 < len(self.entries) and self.entries[i + 1][1:] == (f, a) and self.entries[i + 1][0] not in names:
                i += 1
                names.append(self.entries[i][0])
            lines.append("%s %s%s" % (rd_text((f, a)), " ".join(".".join(x) for x in names), "  # c" if self.comments else ""))
            i += 1
        return ("\n".join(lines) + "\n").encode() if lines else b""

    def content(self):
        return "%s%%%s" % (self.data(), hexs(self.text()))


class BadFile:
    """kind: 'g' unparsable text, 'b' not UTF-8, 'm' missing (explicit path absent / dangling symlink)"""

    def __init__(self, kind, raw=b""):
        self.kind = kind
        self.raw = raw

    def content(self):
        if self.kind == "m":
            return "Xm"
        return "X%s%%%s" % (self.kind, hexs(self.raw))


BAD_ZONE_TEXTS = [
    b"$INCLUDE other.zone\n",                                   # IncludeNotSupported
    b"www 300 IN A 1.2.3.4\n",                                  # relative name without $ORIGIN
    b"www.example.com. 300 IN BOGUS 1\n",                       # no record type
    b"example.com. 300 IN SOA ns. admin. 1 2 3 4 5\nexample.com. 300 IN SOA ns. admin. 2 2 3 4 5\n",   # MultipleSOA
    b"example.com. 300 IN SOA ns. admin. 1 2 3 4 5\nwww.other. 300 IN A 1.2.3.4\n",                      # NotSubdomainOfApex
    b"*.example.com. 300 IN SOA ns. admin. 1 2 3 4 5\n",         # WildcardSOA
    b"www.example.com. IN A 1.2.3.4\n",                          # MissingTTL
    b"www.example.com. 300 IN A 1.2.3\n",                        # bad address: no type parses
]
BAD_HOSTS_TEXTS = [
    b"999.1.1.1 host\n",
    b"1.2.3.4 bad..name\n",
    b"not-an-address host\n",
    "1.2.3.4 héte\n".encode(),
]
BAD_UTF8 = b"\xff\xfe www.example.com. 300 IN A 1.2.3.4\n"


# ----------------------------------------------------------------------------
# case lines
# ----------------------------------------------------------------------------

def args_tok(z, zd, a, ad):
    f = lambda l: ",".join(l) if l else "_"
    return "%s;%s;%s;%s" % (f(z), f(zd), f(a), f(ad))


def fs_tok(files, dirs):
    """files: [(path, content obj)], dirs: [(path, [(fname, content obj | 'S')])]"""
    es = ["F~%s~%s" % (p, c.content()) for p, c in files]
    for p, listing in dirs:
        des = ["%s^%s" % (n, "S" if c == "S" else c.content()) for n, c in listing]
        es.append("D~%s~%s" % (p, "+".join(des) if des else "_"))
    return "|".join(es) if es else "_"


def load_case(args, fs, apexes, questions, tag="-"):
    return "config L %s %s %s %s %s" % (args, fs, ",".join(ntok(a) for a in apexes),
                                       "|".join("%s~%d" % (ntok(n), q) for n, q in questions) if questions else "_", tag)


def history_case(op, args, questions, fss):
    return "config %s %s %s %s" % (op, args, "|".join(tok.question(ntok(n), q) for n, q in questions) if questions else "_",
                                   " ".join(fss))


# ----------------------------------------------------------------------------
# independent reading of a case (for the oracles): bytes-label tuples incl. the root label
# ----------------------------------------------------------------------------

def lst(sep, s):
    return [] if s == "_" else s.split(sep)


def data_of(content):
    return content.split("%", 1)[0]


def parse_args(s):
    z, zd, a, ad = s.split(";")
    return {"z": lst(",", z), "Z": lst(",", zd), "a": lst(",", a), "A": lst(",", ad)}


def parse_fs(s):
    files, dirs = {}, {}
    for e in lst("|", s):
        k, p, rest = e.split("~", 2)
        if k == "F":
            files[p] = data_of(rest)
        else:
            listing = []
            for de in lst("+", rest):
                n, c = de.split("^", 1)
                listing.append((n, "S" if c == "S" else data_of(c)))
            dirs[p] = listing
    return files, dirs


def file_sequence(explicit, dirlist, files, dirs):
    """the files in the order load_zone_configuration applies them: the explicit ones in argument
    order, then every directory's non-directory entries sorted by name (byte-wise); None in place
    of a file / a leading None flag if something cannot be read.  Returns (list of data | None, bad?)"""
    seq = []
    bad = False
    for p in explicit:
        d = files.get(p)
        if d is None or d.startswith("X"):
            bad = True
            seq.append(None)
        else:
            seq.append(d)
    for dp in dirlist:
        if dp not in dirs:
            bad = True
            continue
        ents = [(n, c) for n, c in dirs[dp] if c != "S"]
        for n, c in sorted(ents, key=lambda e: e[0].encode()):
            if c.startswith("X"):
                bad = True
                seq.append(None)
            else:
                seq.append(c)
    return seq, bad


def parse_zone_data(d):
    apex, soa, ops = d[1:].split("@")
    recs = []
    for o in lst("&", ops):
        recs.append((o[0] == "W", tok.parse_rr(o[1:])))
    return flatref.labels_of(apex), (None if soa == "-" else soa), recs


def parse_hosts_data(d):
    out = []
    for e in lst("&", d[1:]):
        n, a = e.split("@")
        out.append((flatref.labels_of(n), a))
    return out


def flat_of_zone_data(d):
    apex, soa, recs = parse_zone_data(d)
    fz = flatref.Flat(soa)
    for w, r in recs:
        owner = flatref.labels_of(r["name"])
        if len(owner) >= len(apex) and owner[len(owner) - len(apex):] == apex:
            fz.add(w, owner[:len(owner) - len(apex)], r["type"], r["ttl"], r["data"])
    return apex, fz


ROOT = (b"",)


def expected_config(args, files, dirs):
    """None if some file / directory is bad, else {apex: Flat} (the union per apex in application
    order; hosts merged last into the root zone) and the merged hosts map"""
    zseq, bad1 = file_sequence(args["z"], args["Z"], files, dirs)
    hseq, bad2 = file_sequence(args["a"], args["A"], files, dirs)
    if bad1 or bad2:
        return None, None
    if any(not d.startswith("Z") for d in zseq) or any(not d.startswith("H") for d in hseq):
        return None, None          # a file in the wrong role: not generated
    zones = {}
    for d in zseq:
        apex, fz = flat_of_zone_data(d)
        if apex in zones:
            zones[apex].merge(fz)
        else:
            zones[apex] = fz
    hosts = {}
    for d in hseq:
        for n, a in parse_hosts_data(d):
            hosts[(n, a[0])] = a          # later file (and later line) wins per name and family
    hz = flatref.Flat(None)
    for fam, typ in (("a", A), ("q", AAAA)):
        for (n, f), a in hosts.items():
            if f == fam:
                hz.add(False, n[:len(n) - 1], typ, HOSTS_TTL, a)
    if ROOT in zones:
        zones[ROOT].merge(hz)
    else:
        zones[ROOT] = hz
    return zones, hosts


def parse_dump(s):
    """dump -> set of (owner token with /len, type, ttl, rdata) and the number of records"""
    out = set()
    n = 0
    if s == "_":
        return out, 0
    for part in s.split("+"):
        owner, recs = part.split("=", 1)
        for r in recs.split(";"):
            t, ttl, d = r.split(":", 2)
            out.add((owner, int(t), int(ttl), d))
            n += 1
    return out, n


def expected_records(apex, recs):
    return {("%s/%d" % (flatref.name_tok_of(r[0], apex), flatref.name_len(r[0], apex)), r[1], r[2], r[3]) for r in recs}


def canon_zres(s):
    """lookup result up to the order of records"""
    if s[:1] == "A":
        return "A" + ";".join(sorted(lst(";", s[1:])))
    if s[:1] == "D":
        o, rrs = s[1:].split("=", 1)
        return "D" + o + "=" + ";".join(sorted(lst(";", rrs)))
    return s


# ----------------------------------------------------------------------------
# C12: configurations
# ----------------------------------------------------------------------------

APEXES = [(), ("example", "com"), ("sub", "example", "com"), ("a",), ("other",)]
DUMP_APEXES = APEXES + [("com",)]
LABELS = ["a", "b", "c", "w"]
TTLS = [0, 1, 5, 60, 299, 300, 301, 3600]
ZONE_NAMES = ["10.zone", "9.zone", "a.zone", "B.zone", "b.zone", "Z.zone", "_x.zone", "1.zone", "a", "a.z", "a-z", "A.zone",
              "00.zone", "z9.zone", "a.zone.bak", "100.zone", "2.zone"]
HOSTS_NAMES = ["10.hosts", "9.hosts", "a.hosts", "B.hosts", "b.hosts", "Z.hosts", "_x", "1.hosts", "hosts", "Hosts", "hosts.d",
               "00", "2.hosts", "100.hosts"]
HOST_POOL = [("h1",), ("h2",), ("www", "example", "com"), ("blocked", "ads"), ("h1", "lan"), ("a",), ("x", "other"), ("deep", "w", "a")]
QTYPES = [A, AAAA, NS, CNAME, SOA, TXT, MX, tok.ANY, tok.ANY]


def rand_rd(rng, typ, apex):
    names = [("ns1",) + apex, ("t", "example"), ("a",) + apex, ()]
    if typ == A:
        return ("a", rng.choice([1, 2, 3, 0x7F000001, 0x0A000001]))
    if typ == AAAA:
        return ("q", bytes([0] * 15 + [rng.choice([1, 2])]))
    if typ in (NS, CNAME):
        return ("n", rng.choice(names))
    if typ == MX:
        return ("x", rng.choice([0, 10]), rng.choice(names))
    return ("o", rng.choice([b"hello", b"v1", b"x"]))


def rand_pool(rng, apex, n, clean):
    """a pool of records for one apex out of which the files of a case draw (so that they overlap)"""
    pool = []
    spine = tuple(rng.choice(LABELS) for _ in range(rng.randint(1, 3)))
    while len(pool) < n:
        k = rng.randint(0, len(spine))
        rel = spine[len(spine) - k:]
        if rng.random() < 0.4 and len(rel) < 3:
            rel = (rng.choice(LABELS),) + rel
        wild = rng.random() < 0.3
        typ = rng.choice([A, A, A, AAAA, TXT, MX, CNAME, NS] if not clean else [A, A, A, AAAA, TXT, MX, CNAME])
        if clean and rng.random() < 0.12:
            # a clean delegation: NS at a leaf of its own with nothing at or beneath it
            rel, wild, typ = (rng.choice(["del", "del2"]),), False, NS
        if clean and rng.random() < 0.08:
            rel, wild, typ = (), False, NS           # NS at the apex describes the zone
        ttl = rng.choice(TTLS)
        rd = rand_rd(rng, typ, apex)
        pool.append((wild, rel + apex, typ, ttl, rd))
        if rng.random() < 0.2:
            pool.append((wild, rel + apex, typ, rng.choice(TTLS), rd))       # same data, other TTL
        if rng.random() < 0.25:
            pool.append((wild, rel + apex, typ, ttl, rand_rd(rng, typ, apex)))  # second record of the type
        if rng.random() < 0.2:
            pool.append((not wild, rel + apex, typ, ttl, rd))                # same node, ordinary vs wildcard
    return pool


def pick_names(rng, pool, k):
    names = list(pool)
    rng.shuffle(names)
    return names[:k]


def rand_config(rng):
    """-> case line"""
    clean = rng.random() < 0.75
    nz = rng.choice([1, 2, 2, 3, 3, 4, 5])
    nh = rng.choice([0, 1, 1, 2, 3])
    napex = rng.choice([1, 1, 2, 3])
    apexes = rng.sample(APEXES, napex)
    pools = {a: rand_pool(rng, a, rng.choice([3, 6, 10]), clean) for a in apexes}
    zfiles = []
    serial = 0
    for i in range(nz):
        apex = rng.choice(apexes)
        with_soa = rng.random() < 0.7
        pool = pools[apex]
        recs = [r for r in pool if rng.random() < 0.5]
        if rng.random() < 0.3 and recs:
            recs.append(rng.choice(recs))                  # duplicate inside one file
        rng.shuffle(recs)
        if with_soa:
            serial += 1
            zfiles.append(ZoneFile(apex, (serial, rng.choice([0, 5, 300, 300])), recs, soa_last=rng.random() < 0.2,
                                   comments=rng.random() < 0.3))
        else:
            # no SOA: the file's apex is the root whatever its names are
            zfiles.append(ZoneFile((), None, recs, comments=rng.random() < 0.3))
    hfiles = []
    for i in range(nh):
        es = []
        for _ in range(rng.choice([0, 1, 2, 4, 6])):
            n = rng.choice(HOST_POOL)
            if rng.random() < 0.7:
                es.append((n, "a", rng.choice([0x7F000001, 0x0A000000 + i, 0, 0xC0A80001 + i])))
            else:
                es.append((n, "q", bytes([0xfd] + [0] * 13 + [i, rng.choice([1, 2])])))
            if rng.random() < 0.2:
                es.append((rng.choice(HOST_POOL),) + es[-1][1:])     # same address, other name (groupable)
        hfiles.append(HostsFile(es, group=rng.random() < 0.5, comments=rng.random() < 0.3))
    # a defect?
    defect = None
    if rng.random() < 0.22:
        defect = rng.choice(["zg", "zb", "zm", "zdir-missing", "zdir-file", "hg", "hm", "hdir-missing", "hb", "stray"])
    return assemble(rng, zfiles, hfiles, pools, defect, "rand" + ("-clean" if clean else ""))


def place(rng, objs, names, prefix, ext):
    """-> explicit [(path, obj)], dirs [(dirpath, [(fname, obj)])] and the argument lists"""
    mode = rng.choice(["files", "dir", "mixed", "mixed"]) if objs else rng.choice(["files", "dir"])
    explicit, dirs = [], []
    if mode == "files":
        explicit = [("%s%d.%s" % (prefix, i, ext), o) for i, o in enumerate(objs)]
    elif mode == "dir":
        dirs = [(prefix + "d", list(zip(pick_names(rng, names, len(objs)), objs)))]
    else:
        ndirs = rng.choice([1, 2])
        buckets = [[] for _ in range(ndirs + 1)]
        for o in objs:
            rng.choice(buckets).append(o)
        explicit = [("%s%d.%s" % (prefix, i, ext), o) for i, o in enumerate(buckets[0])]
        for j in range(ndirs):
            dirs.append(("%sd%d" % (prefix, j), list(zip(pick_names(rng, names, len(buckets[j + 1])), buckets[j + 1]))))
    return explicit, dirs


def assemble(rng, zfiles, hfiles, pools, defect, tag, questions=None, zplace=None, hplace=None):
    zexp, zdirs = zplace if zplace else place(rng, zfiles, ZONE_NAMES, "z", "zone")
    hexp, hdirs = hplace if hplace else place(rng, hfiles, HOSTS_NAMES, "h", "hosts")
    zargs = [p for p, _ in zexp]
    zdargs = [p for p, _ in zdirs]
    hargs = [p for p, _ in hexp]
    hdargs = [p for p, _ in hdirs]
    files = list(zexp) + list(hexp)
    dirs = [(p, list(l)) for p, l in zdirs + hdirs]
    # creation order in a directory is not the sorted order
    for _, l in dirs:
        rng.shuffle(l)
        if rng.random() < 0.2:
            l.insert(rng.randint(0, len(l)), ("sub.d", "S"))
    if rng.random() < 0.08 and zdargs:
        zdargs.append(zdargs[0])                    # the same directory twice
    if rng.random() < 0.05 and zargs:
        zargs.append(zargs[0])                      # the same file twice
    if defect == "zg":
        put_bad(rng, files, dirs, zargs, zdargs, BadFile("g", rng.choice(BAD_ZONE_TEXTS)), "bad.zone")
    elif defect == "zb":
        put_bad(rng, files, dirs, zargs, zdargs, BadFile("b", BAD_UTF8), "bad.zone")
    elif defect == "zm":
        put_bad(rng, files, dirs, zargs, zdargs, BadFile("m"), "gone.zone")
    elif defect == "stray":
        put_bad(rng, files, dirs, zargs, zdargs, BadFile("g", b"This directory holds zone files.\n"), "README")
    elif defect == "hg":
        put_bad(rng, files, dirs, hargs, hdargs, BadFile("g", rng.choice(BAD_HOSTS_TEXTS)), "bad.hosts")
    elif defect == "hb":
        put_bad(rng, files, dirs, hargs, hdargs, BadFile("b", b"1.2.3.4 h\xff\n"), "bad.hosts")
    elif defect == "hm":
        put_bad(rng, files, dirs, hargs, hdargs, BadFile("m"), "gone.hosts")
    elif defect == "zdir-missing":
        zdargs.insert(rng.randint(0, len(zdargs)), "nozd")
    elif defect == "hdir-missing":
        hdargs.insert(rng.randint(0, len(hdargs)), "nohd")
    elif defect == "zdir-file":
        files.append(("plain", ZoneFile((), None, [])))
        zdargs.insert(rng.randint(0, len(zdargs)), "plain")
    if questions is None:
        questions = rand_questions(rng, pools, hfiles)
    return load_case(args_tok(zargs, zdargs, hargs, hdargs), fs_tok(files, dirs), DUMP_APEXES, questions, tag + (":" + defect if defect else ""))


def put_bad(rng, files, dirs, explicit_args, dir_args, obj, name):
    target_dirs = [d for d in dirs if d[0] in dir_args]
    if target_dirs and rng.random() < 0.6:
        l = rng.choice(target_dirs)[1]
        l.insert(rng.randint(0, len(l)), (name, obj))
    else:
        files.append((name, obj))
        explicit_args.insert(rng.randint(0, len(explicit_args)), name)


def rand_questions(rng, pools, hfiles, n=None):
    qs = []
    owners = [r[1] for p in pools.values() for r in p] or [()]
    hostnames = [e[0] for h in hfiles for e in h.entries]
    for a in pools:
        qs += [(a, SOA), (a, tok.ANY), (a, NS)]
    for hn in hostnames[:4]:
        qs += [(hn, A), (hn, rng.choice([AAAA, tok.ANY]))]
    n = n or rng.choice([8, 12, 16])
    for _ in range(n):
        r = rng.random()
        o = rng.choice(owners)
        if r < 0.35:
            name = o
        elif r < 0.5:
            name = o[rng.randint(0, len(o)):]
        elif r < 0.8:
            name = tuple(rng.choice(LABELS) for _ in range(rng.randint(1, 2))) + o
        else:
            name = tuple(rng.choice(LABELS + ["example", "com", "other"]) for _ in range(rng.randint(0, 3)))
        qs.append((name, rng.choice(QTYPES)))
    return qs


def corpus_configs():
    """regression witnesses of the two merge fixes (F3, F4), through load_zone_configuration, and the
    sentences of the property one by one"""
    ex = ("example", "com")
    out = []
    w = ("w",) + ex
    # F3: the second file's wildcard records at a node that had none in the first must survive the merge
    z1 = ZoneFile(ex, (1, 300), [(False, w, A, 300, ("a", 1))])
    z2 = ZoneFile(ex, (2, 300), [(True, w, A, 300, ("a", 2))])
    qs = [(("x",) + w, A), (w, A), (("y", "x") + w, tok.ANY), (ex, SOA), (ex, tok.ANY)]
    out.append(assemble_fixed([("z0.zone", z1), ("z1.zone", z2)], [], [], [], qs, "corpus-F3-files"))
    out.append(assemble_fixed([], [("zd", [("b.zone", z2), ("a.zone", z1)])], [], [], qs, "corpus-F3-dir"))
    # the same with SOA-less files (root apex)
    r1 = ZoneFile((), None, [(False, w, A, 300, ("a", 1))])
    r2 = ZoneFile((), None, [(True, w, A, 300, ("a", 2)), (True, (), TXT, 60, ("o", b"x"))])
    out.append(assemble_fixed([("z0.zone", r1), ("z1.zone", r2)], [], [], [], qs + [(("nowhere",), TXT)], "corpus-F3-root"))
    # F4: two SOAs for one apex: exactly one SOA RR afterwards, the later one
    s1 = ZoneFile(ex, (1, 300), [(False, ("www",) + ex, A, 1, ("a", 1))])
    s2 = ZoneFile(ex, (2, 60), [(False, ("www",) + ex, A, 1, ("a", 1))])
    s3 = ZoneFile(ex, (3, 5), [])
    qs4 = [(ex, SOA), (ex, tok.ANY), (("www",) + ex, A), (("missing",) + ex, A)]
    out.append(assemble_fixed([("z0.zone", s1), ("z1.zone", s2)], [], [], [], qs4, "corpus-F4-files"))
    out.append(assemble_fixed([("z0.zone", s2), ("z1.zone", s1)], [], [], [], qs4, "corpus-F4-files-rev"))
    out.append(assemble_fixed([("z0.zone", s1)], [("zd", [("9.zone", s3), ("10.zone", s2)])], [], [], qs4, "corpus-F4-dir-order"))
    # sorted order: 10 < 9 < B < a  (byte-wise), observable through the serial
    names = ["a.zone", "9.zone", "B.zone", "10.zone"]
    lst_ = [(n, ZoneFile(ex, (i + 1, 300), [(False, ("n%d" % i,) + ex, A, 300, ("a", i))])) for i, n in enumerate(names)]
    out.append(assemble_fixed([], [("zd", lst_)], [], [], [(ex, SOA)] + [((("n%d" % i),) + ex, A) for i in range(4)], "corpus-sorted"))
    # hosts: later file wins per name and family; hosts live in the non-authoritative root zone
    h1 = HostsFile([(("h1",), "a", 0x0A000001), (("h1",), "q", bytes([0xfd] + [0] * 14 + [1])), (("h2",), "a", 0x0A000002)])
    h2 = HostsFile([(("h1",), "a", 0x0A000009), (("h3",), "a", 0x0A000003), (("h3",), "a", 0x0A000004)])
    hq = [(("h1",), A), (("h1",), AAAA), (("h1",), tok.ANY), (("h2",), A), (("h3",), A), ((), SOA), (("h4",), A)]
    out.append(assemble_fixed([], [], [("h0.hosts", h1), ("h1.hosts", h2)], [], hq, "corpus-hosts-files"))
    out.append(assemble_fixed([], [], [], [("hd", [("9.hosts", h1), ("10.hosts", h2)])], hq, "corpus-hosts-dir-order"))
    # a root zone file with a SOA plus hosts: the root zone is authoritative then
    rz = ZoneFile((), (7, 300), [(False, ("h1",), A, 10, ("a", 0x0A0000FF)), (False, ("h1",), TXT, 10, ("o", b"root"))])
    out.append(assemble_fixed([("root.zone", rz)], [], [("h0.hosts", h1)], [], hq, "corpus-root-soa-hosts"))
    out.append(assemble_fixed([("root.zone", ZoneFile((), None, rz.recs))], [], [("h0.hosts", h1)], [], hq, "corpus-root-hosts"))
    # nothing at all: the (empty, non-authoritative) root zone is still there
    out.append(assemble_fixed([], [], [], [], [((), SOA), (("a",), A)], "corpus-empty"))
    out.append(assemble_fixed([], [("zd", [])], [], [("hd", [("sub", "S")])], [((), SOA)], "corpus-empty-dirs"))
    # every defect once
    good = ZoneFile(ex, (1, 300), [(False, ("www",) + ex, A, 300, ("a", 1))])
    for i, txt in enumerate(BAD_ZONE_TEXTS):
        out.append(assemble_fixed([("z0.zone", good), ("bad.zone", BadFile("g", txt))], [], [], [], qs4, "corpus-bad-zone-%d" % i))
    for i, txt in enumerate(BAD_HOSTS_TEXTS):
        out.append(assemble_fixed([("z0.zone", good)], [], [("bad.hosts", BadFile("g", txt))], [], qs4, "corpus-bad-hosts-%d" % i))
    out.append(assemble_fixed([("z0.zone", good), ("gone.zone", BadFile("m"))], [], [], [], qs4, "corpus-missing-file"))
    out.append(assemble_fixed([("z0.zone", good)], [("zd", [("x", BadFile("m"))])], [], [], qs4, "corpus-dangling"))
    out.append(assemble_fixed([("z0.zone", good)], [("zd", [("x", BadFile("b", BAD_UTF8))])], [], [], qs4, "corpus-not-utf8"))
    c = assemble_fixed([("z0.zone", good)], [], [], [], qs4, "corpus-missing-dir")
    out.append(c.replace("z0.zone;_;", "z0.zone;nozd;", 1))
    c = assemble_fixed([("z0.zone", good)], [], [], [], qs4, "corpus-missing-hosts-dir")
    out.append(c.replace(";_;_ ", ";_;nohd ", 1))
    c = assemble_fixed([("z0.zone", good)], [], [], [], qs4, "corpus-dir-is-file")
    out.append(c.replace("z0.zone;_;", "z0.zone;z0.zone;", 1))
    return out


def assemble_fixed(zexp, zdirs, hexp, hdirs, questions, tag):
    files = list(zexp) + list(hexp)
    dirs = list(zdirs) + list(hdirs)
    return load_case(args_tok([p for p, _ in zexp], [p for p, _ in zdirs], [p for p, _ in hexp], [p for p, _ in hdirs]),
                     fs_tok(files, dirs), DUMP_APEXES, questions, tag)


def structured_config(rng):
    """the families of DESIGN C12 X, one at a time"""
    fam = rng.choice(["same-apex-soas", "wild-one-file", "ttl-variants", "hosts-override", "root-plus-hosts", "dir-order", "nested"])
    ex = rng.choice([("example", "com"), ("a",), ("sub", "example", "com")])
    pools = {ex: []}
    hfiles = []
    zfiles = []
    if fam == "same-apex-soas":
        k = rng.randint(2, 5)
        for i in range(k):
            soa = (i + 1, rng.choice([5, 300])) if rng.random() < 0.7 else None
            recs = [(False, ("www",) + ex, A, rng.choice(TTLS), ("a", rng.choice([1, 2])))]
            zfiles.append(ZoneFile(ex if soa else (), soa, recs))
        pools[ex] = [(False, ("www",) + ex, A, 0, ("a", 1))]
    elif fam == "wild-one-file":
        node = (rng.choice(LABELS),) + ex
        base = [(False, node, A, 300, ("a", 1)), (False, ("x",) + node, TXT, 300, ("o", b"x"))]
        wild = [(True, node, rng.choice([A, TXT, MX, CNAME]), 300, None)]
        wild = [(w, o, t, ttl, rand_rd(rng, t, ex)) for (w, o, t, ttl, _) in wild]
        order = rng.random() < 0.5
        soa = rng.random() < 0.6
        mk = lambda i, recs: ZoneFile(ex if soa else (), (i, 300) if soa else None, recs)
        zfiles = [mk(1, base), mk(2, wild)] if order else [mk(1, wild), mk(2, base)]
        if rng.random() < 0.5:
            zfiles.append(mk(3, [(True, node, A, 300, ("a", 9))] + base[:1]))
        pools[ex] = base + wild
    elif fam == "ttl-variants":
        node = ("t",) + ex
        mins = [rng.choice([0, 5, 300]) for _ in range(3)]
        for i in range(3):
            zfiles.append(ZoneFile(ex, (i + 1, mins[i]), [(False, node, A, rng.choice([1, 60, 300, 400]), ("a", 1)),
                                                         (rng.random() < 0.3, node, TXT, 60, ("o", b"v1"))]))
        pools[ex] = [(False, node, A, 0, ("a", 1))]
    elif fam == "hosts-override":
        k = rng.randint(2, 3)
        for i in range(k):
            es = [(("shared",), "a", 0x0A000000 + i), (("only%d" % i,), "a", 0x0A000100 + i)]
            if rng.random() < 0.6:
                es.append((("shared",), "q", bytes([0xfd] + [0] * 14 + [i])))
            if rng.random() < 0.4:
                es.append((("shared",), "a", 0x0A000200 + i))          # overridden inside the same file too
            rng.shuffle(es)
            hfiles.append(HostsFile(es))
        zfiles = [ZoneFile(ex, (1, 300), [(False, ("www",) + ex, A, 300, ("a", 1))])]
        pools[ex] = list(zfiles[0].recs)
    elif fam == "root-plus-hosts":
        soa = (1, rng.choice([5, 300])) if rng.random() < 0.5 else None
        recs = [(False, ("h1",), A, 60, ("a", 0x0A0000FE)), (False, ("h1",), TXT, 60, ("o", b"x")),
                (rng.random() < 0.5, ("lan",), A, 60, ("a", 7))]
        zfiles = [ZoneFile((), soa, recs)]
        if rng.random() < 0.5:
            zfiles.append(ZoneFile(ex, (2, 300), [(False, ("www",) + ex, A, 300, ("a", 1))]))
        hfiles = [HostsFile([(("h1",), "a", 0x0A000001), (("h2", "lan"), "a", 0x0A000002), (("www",) + ex, "a", 0x0A000003)])]
        pools = {(): recs}
    elif fam == "dir-order":
        names = pick_names(rng, ZONE_NAMES, rng.randint(2, 5))
        listing = [(n, ZoneFile(ex, (i + 1, rng.choice([5, 300])), [(False, ("n%d" % i,) + ex, A, 300, ("a", i))])) for i, n in enumerate(names)]
        hn = pick_names(rng, HOSTS_NAMES, rng.randint(2, 3))
        hl = [(n, HostsFile([(("shared",), "a", 0x0A000000 + i)])) for i, n in enumerate(hn)]
        rng.shuffle(listing)
        rng.shuffle(hl)
        explicit = [("z0.zone", ZoneFile(ex, (99, 300), []))] if rng.random() < 0.5 else []
        qs = [(ex, SOA), (("shared",), A)] + [((("n%d" % i),) + ex, A) for i in range(len(names))]
        return assemble(rng, [], [], {}, None, "fam-" + fam, questions=qs, zplace=(explicit, [("zd", listing)]), hplace=([], [("hd", hl)]))
    else:  # nested apexes: the longest configured apex answers
        outer, inner = ("example", "com"), ("sub", "example", "com")
        zfiles = [ZoneFile(outer, (1, 300), [(False, ("www", "sub") + outer, A, 300, ("a", 1)), (False, ("www",) + outer, A, 300, ("a", 2))]),
                  ZoneFile(inner, (2, 300), [(False, ("www",) + inner, A, 300, ("a", 3))]),
                  ZoneFile((), None, [(False, ("www",) + inner, A, 300, ("a", 4)), (False, ("else",), A, 300, ("a", 5))])]
        pools = {outer: list(zfiles[0].recs), inner: list(zfiles[1].recs), (): [(False, ("else",), A, 300, ("a", 5))]}
        rng.shuffle(zfiles)
    defect = None
    return assemble(rng, zfiles, hfiles, pools, defect, "fam-" + fam)


# ----------------------------------------------------------------------------
# C19: edit sequences over -Z / -A directories (and explicit files)
# ----------------------------------------------------------------------------

ZA = [("one", "test"), ("two", "test"), ("three", "test")]
HOSTS_DOM = ("hosts", "test")


def v_zone(k, apex_i, v, nzones=3):
    """zone file number k for apex ZA[apex_i] at version v: every record carries the version"""
    ap = ZA[apex_i]
    other = ZA[(apex_i + 1) % nzones]
    recs = [
        (False, ("pair",) + ap, A, 5, ("a", (10 << 24) | (v << 16) | (k << 8) | 1)),
        (False, ("pair",) + ap, A, 5, ("a", (10 << 24) | (v << 16) | (k << 8) | 2)),
        (False, ("n%d" % k,) + ap, A, 5, ("a", (10 << 24) | (v << 16) | (k << 8) | 3)),
        (False, ("alias",) + ap, CNAME, 5, ("n", ("pair",) + other)),
        (False, ("halias",) + ap, CNAME, 5, ("n", ("shared",) + HOSTS_DOM)),
        (True, ("wild",) + ap, A, 5, ("a", (10 << 24) | (v << 16) | (k << 8) | 4)),
    ]
    return ZoneFile(ap, (v, 5), recs)


def v_hosts(k, v):
    return HostsFile([(("host%d" % k,) + HOSTS_DOM, "a", (10 << 24) | (v << 16) | ((100 + k) << 8) | 1),
                      (("shared",) + HOSTS_DOM, "a", (10 << 24) | (v << 16) | ((100 + k) << 8) | 2),
                      (("shared",) + HOSTS_DOM, "q", bytes([0xfd, 0] + [0] * 10 + [0, v, 0, k]))])


def reload_questions(nk=6):
    qs = []
    for ap in ZA:
        qs += [(("pair",) + ap, A), (("pair",) + ap, tok.ANY), (ap, SOA), (("alias",) + ap, A), (("halias",) + ap, A),
               (("x", "wild") + ap, A), (("missing",) + ap, A)]
        qs += [(("n%d" % k,) + ap, A) for k in range(nk)]
    qs += [(("shared",) + HOSTS_DOM, A), (("shared",) + HOSTS_DOM, AAAA), (("shared",) + HOSTS_DOM, tok.ANY)]
    qs += [(("host%d" % k,) + HOSTS_DOM, A) for k in range(nk)]
    return qs


class FsState:
    """the configuration files of a running server: -Z zd -A hd -z x.zone -a x.hosts"""

    def __init__(self, rng, with_explicit):
        self.rng = rng
        self.zd = {}        # fname -> ("z", k, apex_i, v) | ("bad", kind, raw) | "S"
        self.hd = {}
        self.xz = None      # explicit zone file
        self.xh = None
        self.with_explicit = with_explicit
        self.zd_present = True
        self.hd_present = True
        self.version = 0
        self.nextk = 0

    def args(self):
        return args_tok(["x.zone"] if self.with_explicit else [], ["zd"], ["x.hosts"] if self.with_explicit else [], ["hd"])

    def obj(self, e):
        if e == "S":
            return "S"
        if e[0] == "z":
            return v_zone(e[1], e[2], e[3])
        if e[0] == "h":
            return v_hosts(e[1], e[2])
        return BadFile(e[1], e[2])

    def snapshot(self):
        files = []
        if self.with_explicit:
            if self.xz is not None:
                files.append(("x.zone", self.obj(self.xz)))
            if self.xh is not None:
                files.append(("x.hosts", self.obj(self.xh)))
        dirs = []
        if self.zd_present:
            dirs.append(("zd", [(n, self.obj(e)) for n, e in self.zd.items()]))
        if self.hd_present:
            dirs.append(("hd", [(n, self.obj(e)) for n, e in self.hd.items()]))
        return fs_tok(files, dirs)

    def disk(self):
        """{relative path: bytes | None (dangling symlink) | 'DIR'} for the real-binary runs"""
        out = {}

        def put(path, e):
            o = self.obj(e)
            if o == "S":
                out[path] = "DIR"
            elif isinstance(o, BadFile):
                out[path] = None if o.kind == "m" else o.raw
            else:
                out[path] = o.text()
        if self.with_explicit:
            if self.xz is not None:
                put("x.zone", self.xz)
            if self.xh is not None:
                put("x.hosts", self.xh)
        if self.zd_present:
            out["zd"] = "DIR"
            for n, e in self.zd.items():
                put("zd/" + n, e)
        if self.hd_present:
            out["hd"] = "DIR"
            for n, e in self.hd.items():
                put("hd/" + n, e)
        return out

    def versions(self):
        vs = set()
        for d in (self.zd, self.hd):
            for e in d.values():
                if e != "S" and e[0] in "zh":
                    vs.add(e[-1])
        for e in (self.xz, self.xh):
            if e is not None and e[0] in "zh":
                vs.add(e[-1])
        return vs

    def bad(self):
        if not self.zd_present or not self.hd_present:
            return True
        if self.with_explicit and (self.xz is None or self.xh is None or self.xz[0] == "bad" or self.xh[0] == "bad"):
            return True
        return any(e != "S" and e[0] == "bad" for d in (self.zd, self.hd) for e in d.values())

    def fresh_name(self, d, pool):
        free = [n for n in pool if n not in d]
        return self.rng.choice(free) if free else None

    def initial(self):
        rng = self.rng
        self.version = 1
        for _ in range(rng.randint(1, 3)):
            self.add_zone()
        for _ in range(rng.randint(0, 2)):
            self.add_hosts()
        if self.with_explicit:
            self.xz = ("z", self.newk(), rng.randrange(len(ZA)), self.version)
            self.xh = ("h", self.newk(), self.version)

    def newk(self):
        k = self.nextk % 6
        self.nextk += 1
        return k

    def add_zone(self):
        n = self.fresh_name(self.zd, ZONE_NAMES)
        if n:
            self.zd[n] = ("z", self.newk(), self.rng.randrange(len(ZA)), self.version)
            return True
        return False

    def add_hosts(self):
        n = self.fresh_name(self.hd, HOSTS_NAMES)
        if n:
            self.hd[n] = ("h", self.newk(), self.version)
            return True
        return False

    def edit(self):
        """apply one random edit; returns its name"""
        rng = self.rng
        zfiles = [n for n, e in self.zd.items() if e != "S"]
        hfiles = [n for n, e in self.hd.items() if e != "S"]
        ops = ["add-zone", "add-hosts", "change", "change", "bump-all", "corrupt", "subdir"]
        if zfiles or hfiles:
            ops += ["remove", "remove"]
        if self.bad():
            ops += ["repair"] * 6
        if rng.random() < 0.06:
            ops = ["rmdir"]
        op = rng.choice(ops)
        v = self.version
        if op == "add-zone":
            self.add_zone()
        elif op == "add-hosts":
            self.add_hosts()
        elif op == "remove":
            d = self.zd if (zfiles and (not hfiles or rng.random() < 0.6)) else self.hd
            n = rng.choice([n for n, e in d.items() if e != "S"])
            del d[n]
        elif op == "change":
            cands = [(d, n) for d in (self.zd, self.hd) for n, e in d.items() if e != "S" and e[0] in "zh"]
            if self.with_explicit and rng.random() < 0.3:
                if self.xz is not None and self.xz[0] == "z":
                    self.xz = self.xz[:-1] + (v,)
            elif cands:
                d, n = rng.choice(cands)
                e = d[n]
                d[n] = e[:-1] + (v,)
        elif op == "bump-all":
            for d in (self.zd, self.hd):
                for n, e in list(d.items()):
                    if e != "S" and e[0] in "zh":
                        d[n] = e[:-1] + (v,)
            if self.xz is not None and self.xz[0] == "z":
                self.xz = self.xz[:-1] + (v,)
            if self.xh is not None and self.xh[0] == "h":
                self.xh = self.xh[:-1] + (v,)
        elif op == "corrupt":
            which = rng.choice(["z", "h", "xz"] if self.with_explicit else ["z", "h"])
            if which == "xz":
                self.xz = rng.choice([None, ("bad", "g", rng.choice(BAD_ZONE_TEXTS))])
            elif which == "z":
                n = rng.choice(zfiles) if zfiles and rng.random() < 0.7 else (self.fresh_name(self.zd, ZONE_NAMES) or "zz")
                self.zd[n] = ("bad",) + rng.choice([("g", rng.choice(BAD_ZONE_TEXTS)), ("b", BAD_UTF8), ("m", b"")])
            else:
                n = rng.choice(hfiles) if hfiles and rng.random() < 0.7 else (self.fresh_name(self.hd, HOSTS_NAMES) or "hh")
                self.hd[n] = ("bad",) + rng.choice([("g", rng.choice(BAD_HOSTS_TEXTS)), ("m", b"")])
        elif op == "repair":
            self.zd_present = True
            self.hd_present = True
            for d, mk in ((self.zd, "z"), (self.hd, "h")):
                for n, e in list(d.items()):
                    if e != "S" and e[0] == "bad":
                        if rng.random() < 0.5:
                            del d[n]
                        elif mk == "z":
                            d[n] = ("z", self.newk(), rng.randrange(len(ZA)), v)
                        else:
                            d[n] = ("h", self.newk(), v)
            if self.with_explicit:
                if self.xz is None or self.xz[0] == "bad":
                    self.xz = ("z", self.newk(), rng.randrange(len(ZA)), v)
                if self.xh is None or self.xh[0] == "bad":
                    self.xh = ("h", self.newk(), v)
        elif op == "subdir":
            d = rng.choice([self.zd, self.hd])
            if "sub.d" in d:
                del d["sub.d"]
            else:
                d["sub.d"] = "S"
        elif op == "rmdir":
            if rng.random() < 0.5:
                self.zd_present = False
            else:
                self.hd_present = False
        return op

    def step(self):
        """one reload step: 1..3 edits under a new version number"""
        self.version += 1
        if self.version > 250:
            self.version = 2
        names = [self.edit() for _ in range(self.rng.choice([1, 1, 2, 3]))]
        return "+".join(names)

    def clone_state(self):
        return (dict(self.zd), dict(self.hd), self.xz, self.xh, self.zd_present, self.hd_present)

    def restore_state(self, s):
        self.zd, self.hd, self.xz, self.xh, self.zd_present, self.hd_present = dict(s[0]), dict(s[1]), s[2], s[3], s[4], s[5]


def rand_history(rng, nsteps):
    """-> (args, questions, [(fs token, disk dict, bad?, versions, edit names)])"""
    st = FsState(rng, with_explicit=rng.random() < 0.4)
    st.initial()
    steps = [(st.snapshot(), st.disk(), st.bad(), st.versions(), "start")]
    saved = [st.clone_state()]
    for _ in range(nsteps):
        if rng.random() < 0.12 and len(saved) > 1:
            st.restore_state(rng.choice(saved[:-1]))          # back to an earlier configuration exactly
            name = "revisit"
        else:
            name = st.step()
        steps.append((st.snapshot(), st.disk(), st.bad(), st.versions(), name))
        saved.append(st.clone_state())
    return st.args(), reload_questions(), steps


def stamps_of_rrs(rrs_tok):
    """the version stamps carried by the A / AAAA / SOA records of an rrs token"""
    out = set()
    for r in tok.parse_rrs(rrs_tok):
        d = r["data"]
        if r["type"] == A:
            out.add((int(d[1:]) >> 16) & 255)
        elif r["type"] == AAAA:
            out.add(int(d[1:], 16) >> 16 & 0xFFFF)
        elif r["type"] == SOA:
            out.add(int(d.split(",")[2]))
    return out
