"""Shared generator / parser for the "resolver" stream (C07, C08, C18; helpers for C01, C10, C06).

Case and result syntax: ocaml/drv_resolver.ml.  What a server says is computed once, by the
extracted Coq function Universe.serve (op SERVE of build/model_resolver), into the table of the
case line; the expected answers come from Universe.auth_answer (op AUTH) and are kept in the
`expect` field of the case line, which both drivers ignore:

    expect = <flags>#<servers>#<AUTH output>
      flags   = key=value;key=value...   kind, ff (fault-free 0/1), cons (consistentb), modeok (every zone
                has a nameserver with an address of a family the protocol mode can use), hosts
                (nameserver hosts: name:4|6|46,...)
      servers = <ip>=<apex>,<apex>+...   which zones each address serves ("_" = none)
      AUTH output = C<0|1>#<defined>/<rrs>/<soa>|...   one entry per question
"""
import subprocess

from . import core, tok

A, NS, CNAME, SOA, MX, TXT, AAAA, ANY = tok.A, tok.NS, tok.CNAME, tok.SOA, tok.MX, tok.TXT, tok.AAAA, tok.ANY


# ---------------------------------------------------------------------------------------------
# names (dotted, absolute, lower-case ASCII)
# ---------------------------------------------------------------------------------------------

def labels(n):
    return [] if n == "." else n[:-1].split(".")


def nlabels(n):
    """DomainName.labels.len(): the root label counts"""
    return len(labels(n)) + 1


def is_sub(n, apex):
    return apex == "." or n == apex or n.endswith("." + apex)


def tokname(tokn):
    """label token -> dotted name"""
    ls = tok.parse_labels(tokn)
    if ls == [b""]:
        return "."
    return ".".join(l.decode("latin-1") for l in ls[:-1]) + "."


def rrtok(r):
    n, t, ttl, d = r
    return tok.rr(tok.name(n), t, ttl, d)


def v4(u32):
    return tok.rd_a(u32)


def v6(n):
    return tok.rd_aaaa([0xfd, 0] + [0] * 10 + [(n >> 24) & 255, (n >> 16) & 255, (n >> 8) & 255, n & 255])


def ip_family(iptok):
    return 4 if iptok[0] == "a" else 6


# ---------------------------------------------------------------------------------------------
# universes
# ---------------------------------------------------------------------------------------------

class Zone:
    def __init__(self, apex, serial=1):
        self.apex = apex
        self.soa = (apex, SOA, 300, tok.rd_soa(tok.name("ns." + apex if apex != "." else "ns."), tok.name("admin." + apex if apex != "." else "admin."),
                                              serial, 7200, 3600, 86400, 300))
        self.rrs = []
        self.cuts = []
        self.glue = []
        self.ns = []          # nameserver host names

    def token(self):
        return "~".join([tok.name(self.apex), rrtok(self.soa), tok.rrs([rrtok(r) for r in self.rrs]),
                         tok.rrs([rrtok(r) for r in self.cuts]), tok.rrs([rrtok(r) for r in self.glue])])


class Universe:
    def __init__(self):
        self.zones = {}       # apex -> Zone (insertion order = creation order)
        self.hosts = {}       # host name -> list of ip tokens
        self.servers = {}     # ip token -> list of apexes
        self.next_ip = 1
        self.questions = []   # (name, qtype, what) pool
        self.extra_names = []

    # --- construction helpers ---
    def new_ips(self, fam):
        out = []
        for c in fam:           # "44" = two IPv4 addresses
            if c == "4":
                out.append(v4(0x0A000000 + self.next_ip))
            else:
                out.append(v6(self.next_ip))
            self.next_ip += 1
        return out

    def zone_of(self, name):
        best = None
        for a in self.zones:
            if is_sub(name, a) and (best is None or nlabels(a) > nlabels(best)):
                best = a
        return best

    def add_host(self, host, fam, ttl=3600):
        """a nameserver host: its address records become authoritative data of the zone owning the name"""
        if host in self.hosts:
            return
        ips = self.new_ips(fam)
        self.hosts[host] = ips
        z = self.zones[self.zone_of(host)]
        for ip in ips:
            z.rrs.append((host, A if ip[0] == "a" else AAAA, ttl, ip))

    def addr_rrs(self, host, ttl=3600):
        return [(host, A if ip[0] == "a" else AAAA, ttl, ip) for ip in self.hosts.get(host, [])]

    def serve(self, host, apex):
        for ip in self.hosts.get(host, []):
            l = self.servers.setdefault(ip, [])
            if apex not in l:
                l.append(apex)

    def add_zone(self, apex, ns_hosts, glue_for=(), ns_ttl=3600):
        """create the zone, its apex NS set, the cut in the parent and glue for `glue_for`"""
        parent = self.zone_of(apex) if apex != "." else None
        z = Zone(apex)
        self.zones[apex] = z
        z.ns = list(ns_hosts)
        for h in ns_hosts:
            z.rrs.append((apex, NS, ns_ttl, tok.rd_name(tok.name(h))))
        if parent is not None:
            p = self.zones[parent]
            for h in ns_hosts:
                p.cuts.append((apex, NS, ns_ttl, tok.rd_name(tok.name(h))))
        return z

    def finish_zone(self, apex, glue_hosts):
        """after the hosts exist: glue in the parent, server table"""
        z = self.zones[apex]
        parent = None
        for a in self.zones:
            if a != apex and is_sub(apex, a) and (parent is None or nlabels(a) > nlabels(parent)):
                parent = a
        for h in z.ns:
            self.serve(h, apex)
            if parent is not None and h in glue_hosts:
                # hosts that are authoritative data of the parent itself need no glue copy
                if self.zone_of_excluding(h, apex) == parent and not is_sub(h, apex):
                    continue
                for r in self.addr_rrs(h):
                    if r not in self.zones[parent].glue:
                        self.zones[parent].glue.append(r)

    def zone_of_excluding(self, name, excl):
        best = None
        for a in self.zones:
            if a != excl and is_sub(name, a) and (best is None or nlabels(a) > nlabels(best)):
                best = a
        return best

    # --- tokens ---
    def token(self, extra_servers=None):
        servers = dict(self.servers)
        if extra_servers:
            servers.update(extra_servers)
        st = "+".join("%s=%s" % (ip, ",".join(tok.name(a) for a in apexes)) for ip, apexes in servers.items() if apexes) or "_"
        return "|".join(z.token() for z in self.zones.values()) + "!" + st

    def servers_token(self, extra_servers=None):
        servers = dict(self.servers)
        if extra_servers:
            servers.update(extra_servers)
        return "+".join("%s=%s" % (ip, ",".join(tok.name(a) for a in apexes)) for ip, apexes in servers.items() if apexes) or "_"

    def all_rrs(self):
        out = []
        for z in self.zones.values():
            out.append(z.soa)
            out += z.rrs + z.cuts + z.glue
        return out

    def cname_map(self):
        m = {}
        for z in self.zones.values():
            for (n, t, ttl, d) in z.rrs:
                if t == CNAME and n not in m:
                    m[n] = tokname(d[1:])
        return m

    def root_hints_zone(self):
        """the configured root hints: a non-authoritative `.` zone with NS + addresses of the root servers"""
        root = self.zones["."]
        ops = ["I" + rrtok(r) for r in root.rrs if r[1] == NS and r[0] == "."]
        for h in root.ns:
            ops += ["I" + rrtok(r) for r in self.addr_rrs(h)]
        return "%s~N~%s" % (tok.name("."), "+".join(ops) if ops else "_")


FAMS = ("4", "6", "46")


def gen_universe(rng, depth=None, fams=FAMS, provider=None, content=True, big=False, max_ns=3):
    """A consistent universe: root, a main chain of `depth` nested zones, optionally a provider
    branch (net. / dns.net.) hosting out-of-bailiwick nameserver names, and a second branch
    (org. / other.org.) as the target of cross-zone aliases."""
    u = Universe()
    if depth is None:
        depth = rng.choice([1, 2, 2, 3, 3, 4, 5])
    if provider is None:
        provider = rng.random() < 0.6
    # root
    nroot = rng.randint(1, 2)
    root_hosts = ["%s.root-servers." % c for c in "ab"[:nroot]]
    u.add_zone(".", root_hosts)
    for i, h in enumerate(root_hosts):
        u.add_host(h, rng.choice(fams) if i else ("46" if len(fams) > 1 else fams[0]))
    u.finish_zone(".", [])

    def make(apex, style_pool):
        k = rng.randint(1, max_ns)
        lab = labels(apex)[0]
        parent = u.zone_of(apex)
        hosts = []
        styles = []
        for i in range(1, k + 1):
            st = rng.choice(style_pool)
            if st == "in":
                h = "ns%d.%s" % (i, apex)
            elif st == "out":
                h = "x%d-%s.dns.net." % (i, lab)
            else:  # sibling: a name that is authoritative data of the parent zone
                h = "ns%d-%s.%s" % (i, lab, parent if parent != "." else "")
            hosts.append(h)
            styles.append(st)
        u.add_zone(apex, hosts)
        glue = []
        for h, st in zip(hosts, styles):
            u.add_host(h, rng.choice(fams))
            if st == "in" or (st == "out" and rng.random() < 0.5):
                glue.append(h)
        u.finish_zone(apex, glue)
        return hosts

    if provider:
        # the provider branch uses in-bailiwick names only, so it is always resolvable by glue
        make("net.", ["in"])
        make("dns.net.", ["in"])
    pool = ["in", "in", "sib"] + (["out", "out"] if provider else [])
    chain = []
    name = ""
    for lab in ["com", "example", "sub", "deep", "x"][:depth]:
        name = lab + "." + name
        chain.append(name)
        make(name, pool)
    other = None
    if rng.random() < 0.7:
        make("org.", pool)
        make("other.org.", pool)
        other = "other.org."

    if content:
        for apex in chain + ([other] if other else []):
            z = u.zones[apex]
            add = z.rrs.append
            add(("www." + apex, A, 300, v4(0xC0000200 + rng.randint(1, 200))))
            if rng.random() < 0.5:
                add(("www." + apex, A, 300, v4(0xC0000300 + rng.randint(1, 200))))
            if rng.random() < 0.5:
                add(("www." + apex, AAAA, 300, v6(0x10000 + rng.randint(1, 200))))
            add(("mail." + apex, MX, 600, tok.rd_mx(10, tok.name("www." + apex))))
            add(("txt." + apex, TXT, 60, tok.rd_octets(b"\x05hello")))
            add(("alias." + apex, CNAME, 120, tok.rd_name(tok.name("www." + apex))))
            add(("chain." + apex, CNAME, 120, tok.rd_name(tok.name("alias." + apex))))
            add(("a.ent." + apex, A, 300, v4(0xC0000400 + rng.randint(1, 200))))
            qs = [("www." + apex, A, "pos"), ("www." + apex, AAAA, "pos?"), ("www." + apex, MX, "nodata"),
                  ("mail." + apex, MX, "pos"), ("txt." + apex, TXT, "pos"), ("alias." + apex, A, "cname"),
                  ("chain." + apex, A, "cname2"), ("nx." + apex, A, "nxdomain"), ("ent." + apex, A, "ent"),
                  (apex, NS, "apexns"), (apex, SOA, "soa"), ("alias." + apex, CNAME, "qcname"),
                  ("alias." + apex, TXT, "cname-nodata"), ("deeper.nx." + apex, AAAA, "nxdomain"),
                  ("www." + apex, ANY, "any")]
            if big or rng.random() < 0.15:
                for i in range(4):
                    add(("big." + apex, TXT, 60, tok.rd_octets(bytes([200]) + bytes([97 + i]) * 200)))
                qs.append(("big." + apex, TXT, "big"))
            if other and apex != other:
                add(("ext." + apex, CNAME, 120, tok.rd_name(tok.name("www." + other))))
                add(("ext2." + apex, CNAME, 120, tok.rd_name(tok.name("chain." + other))))
                add(("extnx." + apex, CNAME, 120, tok.rd_name(tok.name("nx." + other))))
                qs += [("ext." + apex, A, "xcname"), ("ext2." + apex, A, "xcname3"), ("extnx." + apex, A, "xcname-nx"),
                       ("ext." + apex, MX, "xcname-nodata")]
            for h in z.ns:
                qs.append((h, A, "host"))
                qs.append((h, AAAA, "host"))
            u.questions += qs
    u.chain = chain
    u.other = other
    return u


# ---------------------------------------------------------------------------------------------
# richer shapes (C07), opt-in: nothing above changes, so the streams of the other properties
# built on gen_universe keep their cases
# ---------------------------------------------------------------------------------------------

RETYPES = (A, TXT, AAAA, MX)


def add_alias(u, name, target, ttl=120):
    u.zones[u.zone_of(name)].rrs.append((name, CNAME, ttl, tok.rd_name(tok.name(target))))


def alias_links(u, name, limit=50):
    """number of CNAME links the authoritative data holds from `name` on"""
    cm = u.cname_map()
    k = 0
    while name in cm and k < limit:
        name = cm[name]
        k += 1
    return k


def records_at(u, name):
    z = u.zones.get(u.zone_of(name))
    return [r for r in ([z.soa] + z.rrs if z else []) if r[0] == name]


def add_hosted(rng, u, fams=FAMS, nshared=None, branch=None):
    """Zones whose ONLY nameservers are names of another zone (hoster.), delegated WITHOUT glue, so that the
    address of the nameserver is found by a nested resolution; several such zones share the nameserver
    name(s), and alias chains run from one of them through a zone served by somebody else (mid.) into
    another one (and back), so that one top-level resolution needs the same nameserver name twice.
    -> the alias questions (name, links, what)"""
    if nshared is None:
        nshared = rng.choice([1, 1, 1, 2])
    fam = rng.choice(fams)
    u.add_zone("hoster.", ["ns1.hoster."])
    u.add_host("ns1.hoster.", rng.choice(fams))
    u.finish_zone("hoster.", ["ns1.hoster."])
    shared = ["ns.hoster.", "nsb.hoster."][:nshared]
    for h in shared:
        u.add_host(h, fam)
    u.add_zone("mid.", ["ns1.mid."])
    u.add_host("ns1.mid.", rng.choice(fams))
    u.finish_zone("mid.", ["ns1.mid."])
    hosted = ["one.", "two."]
    if branch is None:
        branch = rng.random() < 0.5
    if branch and u.chain:
        # ... and one beside the deepest zone of the main chain: the shared name is needed at depth too
        parent = u.chain[-1]
        hosted.append("hosted." + parent)
    for apex in hosted:
        # (a second hosted zone may list only the first shared name)
        hs = shared if apex == "one." or rng.random() < 0.6 else shared[:1]
        u.add_zone(apex, hs)
        u.finish_zone(apex, [])          # no glue anywhere: out-of-bailiwick names
    one, two = "one.", "two."
    z1, zm, z2 = u.zones[one], u.zones["mid."], u.zones[two]
    z1.rrs += [("host.one.", A, 300, v4(0xC0000601)), ("txt.one.", TXT, 60, tok.rd_octets(b"\x03one"))]
    z2.rrs += [("www.two.", A, 300, v4(0xC0000602)), ("www.two.", AAAA, 300, v6(0x20602))]
    zm.rrs += [("host.mid.", A, 300, v4(0xC0000603))]
    add_alias(u, "www.one.", "www.mid.")          # one. -> mid. -> two.
    add_alias(u, "www.mid.", "www.two.")
    add_alias(u, "rt.two.", "back.mid.")          # two. -> mid. -> one.
    add_alias(u, "back.mid.", "host.one.")
    add_alias(u, "again.one.", "back.mid.")       # one. -> mid. -> one.
    add_alias(u, "far.one.", "far.mid.")          # one. -> mid. -> two. -> mid. -> one.
    add_alias(u, "far.mid.", "rt.two.")
    qs = [("www.one.", A, "hosted-chain"), ("rt.two.", A, "hosted-chain"), ("again.one.", A, "hosted-chain"),
          ("far.one.", A, "hosted-chain"), ("www.one.", AAAA, "hosted-chain"), ("www.one.", TXT, "hosted-chain-nodata"),
          ("www.mid.", A, "hosted-tail"), ("host.one.", A, "hosted-plain"), ("www.two.", A, "hosted-plain"),
          ("txt.one.", TXT, "hosted-plain"), ("nx.two.", A, "hosted-nx")]
    starts = [("www.one.", 2), ("rt.two.", 2), ("again.one.", 2), ("far.one.", 4)]
    for apex in hosted[2:]:
        u.zones[apex].rrs.append(("www." + apex, A, 300, v4(0xC0000604)))
        add_alias(u, "via." + apex, "www.mid.")   # <deep hosted zone> -> mid. -> two.
        add_alias(u, "in.mid.", "www." + apex)    # mid. -> <deep hosted zone>
        add_alias(u, "out.two.", "in.mid.")       # two. -> mid. -> <deep hosted zone>
        qs += [("via." + apex, A, "hosted-chain"), ("out.two.", A, "hosted-chain"), ("www." + apex, A, "hosted-plain")]
        starts += [("via." + apex, 2), ("out.two.", 2)]
    for apex in u.chain[-2:]:
        # from the ordinary zones into the hosted ones
        add_alias(u, "h." + apex, "www.one.")
        qs.append(("h." + apex, A, "hosted-chain"))
        starts.append(("h." + apex, 3))
    for apex in hosted + ["mid.", "hoster."]:
        for t in RETYPES:
            qs.append((apex, t, "apex-nodata"))
    for h in shared + ["ns1.hoster.", "ns1.mid."]:
        qs += [(h, A, "host"), (h, AAAA, "host")]
    u.questions += qs
    u.hosted = hosted
    u.hosted_starts = starts
    return starts


def enrich_universe(rng, u, fams=FAMS, hosted=None):
    """More of what C07's sentence lists, on top of gen_universe(content=True):
      aliases   chains of 2..4 CNAME links inside a zone, child -> parent zone, parent -> child zone, out to the
                second branch and back, ending at an existing name, a name with other types only, a missing name
                (u.aliases: (name, links) of every alias with >= 2 links)
      apexes    questions for types that exist / do not exist AT zone apexes at every depth, the root and the
                provider zones included (u.apex_questions)
      hosted    add_hosted (u.hosted_starts)"""
    zs = list(u.chain) + ([u.other] if u.other else [])
    aliases = []
    for i, apex in enumerate(zs):
        add_alias(u, "c3." + apex, "chain." + apex)                # c3 -> chain -> alias -> www
        add_alias(u, "ctxt." + apex, "atxt." + apex)               # ... -> txt.: TXT exists, A does not
        add_alias(u, "atxt." + apex, "txt." + apex)
        aliases += [("chain." + apex, 2), ("c3." + apex, 3), ("ctxt." + apex, 2)]
        u.questions += [("c3." + apex, A, "cname3"), ("ctxt." + apex, TXT, "cname2"), ("ctxt." + apex, A, "cname2-nodata"),
                        ("chain." + apex, TXT, "cname2-nodata"), ("c3." + apex, MX, "cname3-nodata")]
        if 0 < i < len(u.chain):
            parent = u.chain[i - 1]
            add_alias(u, "up." + apex, "alias." + parent)          # child zone -> parent zone, 2 links
            add_alias(u, "down-%d.%s" % (i, parent), "chain." + apex)   # parent zone -> child zone, 3 links
            aliases += [("up." + apex, 2), ("down-%d.%s" % (i, parent), 3)]
            u.questions += [("up." + apex, A, "xcname2"), ("down-%d.%s" % (i, parent), A, "xcname3"),
                            ("up." + apex, TXT, "xcname2-nodata")]
        if u.other and apex != u.other:
            add_alias(u, "bounce." + apex, "b%d.%s" % (i, u.other))      # leaves the zone and comes back
            add_alias(u, "b%d.%s" % (i, u.other), "www." + apex)
            add_alias(u, "c2nx." + apex, "extnx." + apex)          # two links, then a missing name elsewhere
            aliases += [("bounce." + apex, 2), ("ext2." + apex, 3), ("c2nx." + apex, 2)]
            u.questions += [("bounce." + apex, A, "xcname2"), ("c2nx." + apex, A, "xcname2-nx"), ("bounce." + apex, MX, "xcname2-nodata")]
    # apexes: a few get records of other types than SOA / NS
    apexq = []
    for apex in list(u.zones):
        z = u.zones[apex]
        if apex in zs and rng.random() < 0.3:
            t = rng.choice([A, MX, TXT])
            d = {A: v4(0xC0000700 + rng.randint(1, 200)), MX: tok.rd_mx(5, tok.name("mail." + apex)), TXT: tok.rd_octets(b"\x04apex")}[t]
            z.rrs.append((apex, t, 300, d))
        have = {r[1] for r in z.rrs if r[0] == apex}
        for t in RETYPES:
            apexq.append((apex, t, "apex-pos" if t in have else "apex-nodata"))
    u.questions += apexq
    u.apex_questions = apexq
    u.aliases = aliases
    u.hosted, u.hosted_starts = [], []
    if hosted is None:
        hosted = rng.random() < 0.3
    if hosted:
        add_hosted(rng, u, fams)
        for (apex, t, what) in u.questions:
            if what.startswith("apex") and apex in u.hosted + ["mid.", "hoster."] and (apex, t, what) not in u.apex_questions:
                u.apex_questions.append((apex, t, what))
        u.aliases += [(n, k) for n, k in u.hosted_starts]
    return u


def retype_sequence(rng, u, k=None):
    """questions sharing one cache: an alias with >= 2 links asked for one type, then THE SAME alias for other types
    (the links are cached by then, the record set at the end of the chain is not), in both orders of
    existing / missing type; now and then an unrelated question in between"""
    name, links = rng.choice(u.aliases)
    types = list(RETYPES)
    rng.shuffle(types)
    if rng.random() < 0.6:
        types.remove(A)
        types.insert(rng.choice([0, 0, 1]), A)
    qs = [(name, t) for t in types[:k or rng.choice([2, 2, 3, 4])]]
    if rng.random() < 0.3:
        a, b, _ = rng.choice(u.questions)
        qs.insert(rng.randint(1, len(qs) - 1), (a, b))
    if rng.random() < 0.3:
        # a longer alias passing through the same links afterwards
        longer = [n for n, l in u.aliases if l > links and n.split(".", 1)[1] == name.split(".", 1)[1]]
        if longer:
            qs.append((rng.choice(longer), rng.choice(RETYPES)))
    return qs, links


def apex_sequence(rng, u):
    """missing (and a few existing) types asked AT zone apexes: cold, and after a question that left the zone's
    nameservers in the cache"""
    nod = [q for q in u.apex_questions if q[2] == "apex-nodata"]
    qs = []
    for _ in range(rng.choice([1, 2, 3])):
        apex, t, _w = rng.choice(nod)
        if rng.random() < 0.4 and apex in u.chain:
            qs.append(("www." + apex, A))              # warm: the delegation in use comes from the cache
        qs.append((apex, t))
    if rng.random() < 0.4:
        apex, t, _w = rng.choice(u.apex_questions)
        qs.append((apex, t))
    return qs


def hosted_sequence(rng, u):
    """the alias through the hosted zones first (cold cache: the shared nameserver name is resolved by a nested
    resolution), then more of them"""
    starts = list(u.hosted_starts)
    rng.shuffle(starts)
    qs = [(starts[0][0], rng.choice([A, A, A, AAAA, TXT]))]
    for n, _k in starts[1:rng.choice([1, 1, 2, 3])]:
        qs.append((n, rng.choice(RETYPES)))
    if rng.random() < 0.3:
        a, b, _ = rng.choice(u.questions)
        qs.append((a, b))
    return qs


# ---------------------------------------------------------------------------------------------
# inconsistent universes (C08): the faults that live in the universe itself
# ---------------------------------------------------------------------------------------------

def mutate_universe(rng, u, what):
    """returns extra server entries (ip -> apexes) if any"""
    extra = {}
    target = u.chain[-1]
    z = u.zones[target]
    parent = u.zones[u.zone_of_excluding(target, target)]
    if what == "lame":
        # the parent's delegation (with glue) points at a server that is not authoritative for the zone
        ip = v4(0x0A00FF00 + rng.randint(1, 50))
        parent.cuts = [r for r in parent.cuts if r[0] != target] + [(target, NS, 3600, tok.rd_name(tok.name("lame." + target)))]
        parent.glue.append(("lame." + target, A, 3600, ip))
        extra[ip] = ["lame-elsewhere."]
        u.zones["lame-elsewhere."] = Zone("lame-elsewhere.")
    elif what == "dead":
        # ... or at an address where nobody listens
        parent.cuts = [r for r in parent.cuts if r[0] != target] + [(target, NS, 3600, tok.rd_name(tok.name("dead." + target)))]
        parent.glue.append(("dead." + target, A, 3600, v4(0x0A00FE00 + rng.randint(1, 50))))
    elif what == "circular":
        # two zones whose only nameservers are named inside each other, no glue
        a, b = "circa.com.", "circb.com."
        com = u.zones["com."]
        com.cuts.append((a, NS, 3600, tok.rd_name(tok.name("ns." + b))))
        com.cuts.append((b, NS, 3600, tok.rd_name(tok.name("ns." + a))))
        u.questions.append(("www." + a, A, "circular"))
    elif what == "aliasloop":
        z.rrs.append(("loop1." + target, CNAME, 60, tok.rd_name(tok.name("loop2." + target))))
        z.rrs.append(("loop2." + target, CNAME, 60, tok.rd_name(tok.name("loop1." + target))))
        u.questions.append(("loop1." + target, A, "aliasloop"))
        # cycles that do NOT pass through the question name, and a self-loop reached through an alias
        z.rrs.append(("intoloop." + target, CNAME, 60, tok.rd_name(tok.name("loop1." + target))))
        z.rrs.append(("selfloop." + target, CNAME, 60, tok.rd_name(tok.name("selfloop." + target))))
        z.rrs.append(("intoself." + target, CNAME, 60, tok.rd_name(tok.name("selfloop." + target))))
        u.questions.append(("intoloop." + target, A, "aliasloop"))
        u.questions.append(("intoself." + target, A, "aliasloop"))
        u.questions.append(("selfloop." + target, A, "aliasloop"))
        if u.other:
            z.rrs.append(("xloop." + target, CNAME, 60, tok.rd_name(tok.name("xloop." + u.other))))
            u.zones[u.other].rrs.append(("xloop." + u.other, CNAME, 60, tok.rd_name(tok.name("xloop." + target))))
            u.questions.append(("xloop." + target, A, "aliasloop"))
    elif what == "longchain":
        for i in range(40):
            z.rrs.append(("c%d.%s" % (i, target), CNAME, 60, tok.rd_name(tok.name("c%d.%s" % (i + 1, target)))))
        z.rrs.append(("c40." + target, A, 60, v4(0xC0000501)))
        u.questions.append(("c0." + target, A, "longchain"))
        u.questions.append(("c20." + target, A, "longchain"))
    elif what == "nohost":
        # a nameserver name nobody can resolve
        parent.cuts = [r for r in parent.cuts if r[0] != target] + [(target, NS, 3600, tok.rd_name(tok.name("ghost.nowhere.")))]
    elif what == "upward":
        # the child's servers refer back up: the zone's server claims only the parent's data
        for h in z.ns:
            for ip in u.hosts.get(h, []):
                u.servers[ip] = [a for a in u.servers.get(ip, []) if a != target] or [parent.apex]
    return extra


UNIVERSE_FAULTS = ["lame", "dead", "circular", "aliasloop", "longchain", "nohost", "upward"]


# ---------------------------------------------------------------------------------------------
# the table (SERVE) and the expected answers (AUTH), through build/model_resolver
# ---------------------------------------------------------------------------------------------

def upstream_questions(u, client_questions):
    """every (name, qtype) the resolver can send upstream for these client questions"""
    cm = u.cname_map()
    out = []
    seen = set()

    def add(n, t):
        hops = 0
        while (n, t) not in seen and hops < 50:
            seen.add((n, t))
            out.append((n, t))
            if n not in cm:      # the resolver follows aliases whatever the question type
                break
            n = cm[n]
            hops += 1
    for (n, t) in client_questions:
        add(n, t)
    hosts = set(u.hosts)
    for z in u.zones.values():
        for (n, t, ttl, d) in z.rrs + z.cuts:
            if t == NS:
                hosts.add(tokname(d[1:]))
    for h in sorted(hosts):
        add(h, A)
        add(h, AAAA)
    return out


def claimed_apexes(u, extra_servers=None):
    """ip -> apexes it serves or is named for (a lame server is asked about the zone it is named for)"""
    claims = {}
    servers = dict(u.servers)
    if extra_servers:
        servers.update(extra_servers)
    for ip, apexes in servers.items():
        claims.setdefault(ip, set()).update(apexes)
    addr = {}
    for (n, t, ttl, d) in u.all_rrs():
        if t in (A, AAAA):
            addr.setdefault(n, set()).add(d)
    for z in u.zones.values():
        for (n, t, ttl, d) in z.rrs + z.cuts:
            if t == NS:
                for ip in addr.get(tokname(d[1:]), ()):
                    claims.setdefault(ip, set()).add(n)
    return claims


class Batch:
    """collects SERVE / AUTH requests and runs the model driver once"""

    def __init__(self):
        self.lines = []

    def add(self, line):
        self.lines.append(line)
        return len(self.lines) - 1

    def run(self):
        if not self.lines:
            return []
        exe = core.model_driver_path("resolver")
        n = len(self.lines)
        nsh = max(1, min(16, n // 20))
        procs = []
        for i in range(nsh):
            chunk = self.lines[(i * n) // nsh:((i + 1) * n) // nsh]
            p = subprocess.Popen([exe], stdin=subprocess.PIPE, stdout=subprocess.PIPE, text=True)
            procs.append((p, chunk))
        # feed and collect (the chunks are small enough for communicate)
        outs = []
        import threading
        results = [None] * nsh

        def work(i, p, chunk):
            o, _ = p.communicate("\n".join(chunk) + "\n")
            results[i] = o.split("\n")[:len(chunk)]
        ths = [threading.Thread(target=work, args=(i, p, c)) for i, (p, c) in enumerate(procs)]
        for t in ths:
            t.start()
        for t in ths:
            t.join()
        for r in results:
            outs.extend(r)
        if len(outs) != n or any(o.startswith("MODEL-EXN") for o in outs):
            bad = [o for o in outs if o.startswith("MODEL-EXN")][:1]
            raise RuntimeError("model_resolver SERVE/AUTH failed: %s" % bad)
        return outs


class CaseBuilder:
    """one case under construction: universe -> table + expectations -> case line"""

    table_prefix = ()      # (class default: subclasses with their own __init__ need not know about it)

    def __init__(self, batch, u, mode, port, questions, faults="_", zones=None, cache="_", flags=None,
                 extra_servers=None, forwarder_ip=None):
        self.u, self.mode, self.port, self.questions, self.faults = u, mode, port, questions, faults
        self.zones = zones if zones is not None else u.root_hints_zone()
        self.cache = cache
        self.flags = dict(flags or {})
        self.extra = dict(extra_servers or {})
        if forwarder_ip is not None:
            # a forwarder answers like a server that holds every zone of the universe
            self.extra[forwarder_ip] = list(u.zones)
        self.utok = u.token(self.extra)
        # table entries put BEFORE the ones computed by SERVE (the first entry for an (address, question) wins on
        # both sides): any reply bytes for any server, e.g. a doctored referral -- "<ip>,<ip>=<question>=<hex>"
        self.table_prefix = []
        ups = upstream_questions(u, questions)
        claims = claimed_apexes(u, self.extra)
        # group addresses that serve the same zones: they give the same replies
        groups = {}
        servers = dict(u.servers)
        servers.update(self.extra)
        for ip in claims:
            key = tuple(sorted(servers.get(ip, [])))
            groups.setdefault(key, []).append(ip)
        self.entries = []   # (ips, qtok)
        queries = []
        for key, ips in groups.items():
            cl = set()
            for ip in ips:
                cl |= claims[ip]
            for (n, t) in ups:
                if any(is_sub(n, a) for a in cl):
                    qt = tok.question(tok.name(n), t)
                    self.entries.append((ips, qt))
                    queries.append("%s,%s" % (ips[0], qt))
        self.serve_idx = batch.add("resolver SERVE %s %s" % (self.utok, "+".join(queries))) if queries else None
        self.auth_idx = batch.add("resolver AUTH %s %s" % (self.utok, "|".join(tok.question(tok.name(n), t) for n, t in questions)))

    def line(self, outs):
        table = "_"
        if self.serve_idx is not None:
            hexes = outs[self.serve_idx].split(";")
            assert len(hexes) == len(self.entries)
            ents = ["%s=%s=%s" % (",".join(ips), qt, h) for (ips, qt), h in zip(self.entries, hexes) if h not in ("-", "!")]
            ents = list(self.table_prefix) + ents
            table = "+".join(ents) if ents else "_"
        elif self.table_prefix:
            table = "+".join(self.table_prefix)
        auth = outs[self.auth_idx]
        flags = dict(self.flags)
        flags["cons"] = auth[1]
        flags["hosts"] = ",".join("%s:%s" % (tok.name(h), "".join(sorted({str(ip_family(i)) for i in ips})))
                                  for h, ips in self.u.hosts.items())
        ftok = ";".join("%s=%s" % kv for kv in flags.items())
        expect = "%s#%s#%s" % (ftok, self.u.servers_token(self.extra), auth)
        qtok = "|".join(tok.question(tok.name(n), t) for n, t in self.questions)
        return "resolver R %s %d %s %s %s %s %s %s" % (self.mode, self.port, self.zones, self.cache, qtok, table, self.faults, expect)


def mode_ok(u, mode):
    """every zone of the universe has a nameserver host with an address of a usable family"""
    want = {"r4": {4}, "r6": {6}}.get(mode, {4, 6})
    for z in u.zones.values():
        if not any(ip_family(ip) in want for h in z.ns for ip in u.hosts.get(h, [])):
            return False
    return True


# ---------------------------------------------------------------------------------------------
# parsing cases and results (for the oracles)
# ---------------------------------------------------------------------------------------------

class Case:
    def __init__(self, line):
        t = line.split(" ")
        assert t[0] == "resolver" and t[1] == "R" and len(t) == 10, "not a resolver R case"
        self.mode, self.port, self.zones_tok, self.cache_tok, qs, self.table_tok, self.faults_tok, expect = t[2:]
        self.port = int(self.port)
        self.questions = [self._q(x) for x in qs.split("|")]
        parts = expect.split("#", 2)
        self.flags = dict(kv.split("=", 1) for kv in parts[0].split(";") if "=" in kv)
        self.servers = {}
        if len(parts) > 1 and parts[1] != "_":
            for e in parts[1].split("+"):
                ip, apexes = e.split("=")
                self.servers[ip] = [tokname(a) for a in apexes.split(",")]
        self.auth = []
        self.consistent = False
        if len(parts) > 2:
            c, body = parts[2].split("#", 1)
            self.consistent = c == "C1"
            for e in body.split("|"):
                d, rrs, soa = e.split("/")
                self.auth.append((d == "1", [] if rrs == "_" else rrs.split(";"), None if soa == "None" else soa))
        self.fault_free = self.faults_tok == "_"

    @staticmethod
    def _q(x):
        n, t, c = x.split(":")
        return (n, int(t), int(c))

    def forwarder(self):
        return self.mode[1:] if self.mode.startswith("f") else None

    def local_zones(self):
        """[(apex name, authoritative?, [(wild, rr dict)])]"""
        out = []
        if self.zones_tok == "_":
            return out
        for z in self.zones_tok.split("|"):
            apex, soa, ops = z.split("~")
            recs = []
            if ops != "_":
                for op in ops.split("+"):
                    recs.append((op[0] == "W", tok.parse_rr(op[1:])))
            out.append((tokname(apex), soa != "N", recs))
        return out

    def table_rr_pool(self):
        """not decoded here: provenance uses the universe data kept by the generator"""
        return None


class Event:
    __slots__ = ("ms", "n", "kind", "ip", "port", "qname", "qtype", "qclass", "rd", "reply")

    def __init__(self, s):
        p = s.split(",")
        self.ms, self.n, self.kind = int(p[0]), int(p[1]), p[2]
        self.ip, port = p[3].split("@")
        self.port = int(port)
        if self.kind == "C":
            self.qname = self.qtype = self.qclass = self.rd = None
            self.reply = p[4]
        else:
            q = p[4].split(":")
            self.qname, self.qtype, self.qclass = (q[0], int(q[1]), int(q[2])) if len(q) == 3 else (None, None, None)
            self.rd = p[5]
            self.reply = p[6]


class QResult:
    def __init__(self, s):
        res, log, el = s.split("!")
        self.raw = res
        self.elapsed = int(el)
        self.log = [] if log == "_" else [Event(e) for e in log.split(";")]
        self.kind = res[0] if res not in ("Panic", "OutOfFuel") else res
        self.rrs, self.soa, self.error = [], None, None
        if self.kind in "AN":
            rrs, soa = res[1:].split("/")
            self.rrs = [] if rrs == "_" else rrs.split(";")
            self.soa = None if soa == "None" else soa
        elif self.kind == "X":
            self.soa = res[1:]
        elif self.kind == "E":
            self.error = res[1:]


def parse_result(out):
    """-> (list of QResult, cache dump token) or None when the output is not a result line"""
    if "#" not in out or "!" not in out:
        return None
    body, cache = out.rsplit("#", 1)
    return [QResult(x) for x in body.split("|")], cache


# ---------------------------------------------------------------------------------------------
# helpers other property modules can import (C01, C10)
# ---------------------------------------------------------------------------------------------

def owned_auth(local_zones, name):
    """the longest configured apex enclosing `name` is authoritative and `name` is not beneath (or at) one of
    its delegation points (an NS set strictly below the apex)"""
    best = None
    for apex, auth, recs in local_zones:
        if is_sub(name, apex) and (best is None or nlabels(apex) > nlabels(best[0])):
            best = (apex, auth, recs)
    if best is None or not best[1]:
        return False
    apex, _, recs = best
    for wild, r in recs:
        if not wild and r["type"] == NS:
            owner = tokname(r["name"])
            if owner != apex and is_sub(name, owner):
                return False
    return True


def c01_log_check(case, results):
    """C01, network clauses: no exchange asks about a name an authoritative local zone owns; a result local
    data gives on its own (authoritative) comes with an empty log.  -> None | text"""
    lz = case.local_zones()
    for (qn, qt, qc), r in zip(case.questions, results):
        for e in r.log:
            if e.qname is not None and owned_auth(lz, tokname(e.qname)):
                return "upstream was asked about %s, a name an authoritative local zone owns" % tokname(e.qname)
        if r.kind in ("A", "X") and r.log and owned_auth(lz, tokname(qn)):
            return "an authoritative local answer for %s came with upstream exchanges" % tokname(qn)
    return None


def chain_ok(qname_tok, qtype, rrs):
    """C10's sentence on a list of rr tokens: CNAMEs first, each owner the previous target, starting at the
    question name, no owner twice, then only RRs of qtype owned by the last target.  -> None | text"""
    if qtype in (CNAME, ANY):
        return None
    cur = qname_tok
    seen = set()
    i = 0
    rs = [tok.parse_rr(r) for r in rrs]
    while i < len(rs) and rs[i]["type"] == CNAME:
        r = rs[i]
        if r["name"] != cur:
            return "CNAME #%d is owned by %s, expected %s" % (i, tokname(r["name"]), tokname(cur))
        if r["name"] in seen:
            return "owner %s twice in the chain" % tokname(r["name"])
        seen.add(r["name"])
        cur = r["data"][1:]
        i += 1
    for r in rs[i:]:
        if r["type"] != qtype or r["name"] != cur:
            return "record %s type %d after the chain is not a type-%d record of %s" % (tokname(r["name"]), r["type"], qtype, tokname(cur))
    return None


# ---------------------------------------------------------------------------------------------
# faults
# ---------------------------------------------------------------------------------------------

GARBAGE = "ffff" + "00" * 3 + "ff" * 9       # QR clear, counts absurd: never a usable reply, whatever the id
FAULT_ALPHABET = ["drop", "delay1500", "delay7000", "garbage" + GARBAGE, "trunc25", "wrongid", "tc", "rcode2", "refuse",
                  "truncopen14"]
FAULT_EXTRA = ["delay4999", "delay5001", "delay20000", "delay61000", "delay70000", "noqr", "rcode3", "rcode5", "rcode0",
               "prefix5", "prefix600", "prefix0", "trunc0", "trunc1", "trunc12", "trunc40", "truncopen0", "truncopen1",
               "garbage-", "garbage00", "garbage0001"]


def fault_plan(assign):
    """{n: fault} -> token"""
    return "+".join("%d:%s" % (n, f) for n, f in sorted(assign.items())) or "_"
