"""Generators shared by the wire properties (C03, C04): a python encoder of messages with several
compression disciplines, a structured message generator over small name pools, byte mutators
and the adversarial byte-string families.  Messages are as in msgtok.py."""
import struct

from . import tok
from .msgtok import ROOT, name, name_len, rdata_letter, lower_name

# --------------------------------------------------------------------------
# encoder
# --------------------------------------------------------------------------

MODES = ("none", "whole", "suffix")


def header_bytes(h, qd, an, ns, ar):
    ident, qr, opcode, aa, tc, rd, ra, rcode = h
    b2 = (qr << 7) | ((opcode & 15) << 3) | (aa << 2) | (tc << 1) | rd
    b3 = (ra << 7) | (rcode & 15)
    return struct.pack(">HBBHHHH", ident, b2, b3, qd & 0xFFFF, an & 0xFFFF, ns & 0xFFFF, ar & 0xFFFF)


def _mix(label, rng):
    return bytes([c ^ 32 if (97 <= c <= 122 or 65 <= c <= 90) and rng.random() < 0.5 else c for c in label])


def encode(msg, mode="none", rng=None, mixcase=False, z=0):
    """message -> bytes.
      mode "none":   every name written in full
      mode "whole":  the discipline of the encoder under test: question/owner names are replaced
                     by a pointer when the identical whole name was written before at an offset
                     < 16384; names inside RDATA are written in full (and remembered)
      mode "suffix": RFC 1035 4.1.4 to the full: any suffix written before (offset < 16384) is
                     pointed at, inside RDATA too
      mixcase: labels written in place get random ASCII case (rng needed); z: the reserved Z bits"""
    h, qs, an, ns, ar = msg
    out = bytearray(header_bytes(h, len(qs), len(an), len(ns), len(ar)))
    if z:
        out[3] |= (z & 7) << 4
    table = {}

    def put_labels(ls):
        for l in ls:
            out.append(len(l))
            out.extend(_mix(l, rng) if mixcase else l)

    def put_name(nm, in_rdata):
        key = lower_name(nm)
        if mode == "none":
            put_labels(nm)
        elif mode == "whole":
            if not in_rdata and key in table:
                out.extend(struct.pack(">H", 0xC000 | table[key]))
                return
            if key != ROOT and key not in table and len(out) < 16384:
                table[key] = len(out)
            put_labels(nm)
        else:
            for i in range(len(nm) - 1):
                suf = key[i:]
                if suf in table:
                    out.extend(struct.pack(">H", 0xC000 | table[suf]))
                    return
                if len(out) < 16384:
                    table[suf] = len(out)
                out.append(len(nm[i]))
                out.extend(_mix(nm[i], rng) if mixcase else nm[i])
            out.append(0)

    def put_rdata(d):
        k = d[0]
        if k == "a":
            out.extend(struct.pack(">I", d[1]))
        elif k == "o" or k == "q":
            out.extend(d[1])
        elif k == "n":
            put_name(d[1], True)
        elif k == "s":
            put_name(d[1], True)
            put_name(d[2], True)
            out.extend(struct.pack(">IIIII", *d[3:8]))
        elif k == "i":
            put_name(d[1], True)
            put_name(d[2], True)
        elif k == "x":
            out.extend(struct.pack(">H", d[1]))
            put_name(d[2], True)
        elif k == "v":
            out.extend(struct.pack(">HHH", d[1], d[2], d[3]))
            put_name(d[4], True)
        else:
            raise ValueError(k)

    for q in qs:
        put_name(q[0], False)
        out.extend(struct.pack(">HH", q[1], q[2]))
    for sec in (an, ns, ar):
        for r in sec:
            put_name(r[0], False)
            out.extend(struct.pack(">HHIH", r[1], r[2], r[3], 0))
            at = len(out)
            put_rdata(r[4])
            struct.pack_into(">H", out, at - 2, (len(out) - at) & 0xFFFF)
    return bytes(out)


# --------------------------------------------------------------------------
# structured messages
# --------------------------------------------------------------------------

L63 = b"x" * 63
NAME255 = (b"a" * 63, b"b" * 63, b"c" * 63, b"d" * 61, b"")                   # 4 + 250 + 1
NAME255_ONES = tuple(bytes([97 + i % 26]) for i in range(127)) + (b"",)        # 127 * 2 + 1
NAME255_SUB = (b"q",) + (b"b" * 63, b"c" * 63, b"d" * 61, b"e" * 61, b"")      # 2 + 64 + 64 + 62 + 62 + 1
NAME254 = (b"a" * 63, b"b" * 63, b"c" * 63, b"d" * 60, b"")
assert name_len(NAME255) == 255 and name_len(NAME255_ONES) == 255 and name_len(NAME255_SUB) == 255

COMMON_NAMES = [
    ROOT, name("a."), name("b.a."), name("example."), name("www.example."), name("mail.example."),
    name("ns1.example."), name("ns2.example."), name("x.y.z.example."), name("com."), name("example.com."),
    name("www.example.com."), name("*.example."), name("_sip._tcp.example."),
]
ODD_NAMES = [
    (b"\x00", b""), (b"a.b", b"c", b""), (b"\xff\xfe", b"\x80", b""), (b"A", b""), (b"WWW", b"Example", b""),
    (b" ", b""), (b"\\", b"-", b""), (b"\xc0\x0c", b""), (b"@", b"[", b"`", b"{", b""),
    (L63, b""), (L63, b"example", b""), (b"a", L63, b"b", b""),
    NAME255, NAME255_ONES, NAME255_SUB, NAME254, NAME255[1:], NAME255_SUB[1:],
]

UNKNOWN_TYPES = [0, 17, 18, 27, 29, 32, 34, 41, 99, 251, 252, 253, 254, 255, 256, 257, 32768, 65280, 65534, 65535]
QTYPES = list(tok.KNOWN_TYPES) + [252, 253, 254, 255] + [0, 17, 99, 251, 256, 65535]
CLASSES = [1, 1, 1, 1, 255, 0, 2, 3, 4, 254, 256, 65535]
TTLS = [0, 1, 5, 300, 3600, 86400, 2 ** 31 - 1, 2 ** 31, 2 ** 32 - 2, 2 ** 32 - 1]
SMALL_SIZES = [0, 1, 2, 3, 5, 20, 63, 64]
MID_SIZES = [255, 256, 511, 512]
BIG_SIZES = [16383, 16384, 65535]
IDS = [0, 1, 0x00FF, 0x0100, 0x1234, 0x7FFF, 0x8000, 0xC00C, 0xFFFE, 0xFFFF]


def rand_label(rng):
    n = rng.choice([1, 1, 1, 2, 3, 3, 5, 8, 62, 63])
    if rng.random() < 0.8:
        return bytes([rng.choice(b"abcxyzABZ019-_") for _ in range(n)])
    return bytes([rng.choice([0, 1, 32, 46, 64, 65, 90, 91, 96, 97, 122, 123, 127, 128, 192, 193, 255]) for _ in range(n)])


def rand_name(rng):
    k = rng.choice([0, 1, 1, 2, 2, 3, 4, 6])
    ls = []
    total = 1
    for _ in range(k):
        l = rand_label(rng)
        if total + 1 + len(l) > 255:
            break
        ls.append(l)
        total += 1 + len(l)
    return tuple(ls) + (b"",)


def name_pool(rng):
    """a handful of names for one message: names repeat inside a message, so pointers occur"""
    k = rng.choice([1, 2, 2, 3, 3, 4, 5])
    pool = []
    for _ in range(k):
        r = rng.random()
        if r < 0.55:
            pool.append(rng.choice(COMMON_NAMES))
        elif r < 0.75:
            pool.append(rng.choice(ODD_NAMES))
        elif r < 0.9 and pool:
            # a child or the parent of a name already in the pool
            p = rng.choice(pool)
            if rng.random() < 0.6:
                l = rand_label(rng)
                pool.append((l,) + p if name_len(p) + 1 + len(l) <= 255 else p)
            else:
                pool.append(p[1:] if len(p) > 1 else p)
        else:
            pool.append(rand_name(rng))
    return pool


def rand_octets(rng, big):
    r = rng.random()
    if big is not None:
        n = big
    elif r < 0.85:
        n = rng.choice(SMALL_SIZES)
    elif r < 0.97:
        n = rng.choice(MID_SIZES)
    else:
        n = rng.randint(0, 700)
    if n > 600:
        # cheap but not constant: a short random block repeated
        blk = rng.randbytes(61)
        return (blk * (n // 61 + 1))[:n]
    return rng.randbytes(n)


def rand_u32(rng):
    return rng.choice([0, 1, 0x7F000001, 0x01020304, 0xFFFFFFFF, 0x80000000, rng.getrandbits(32)])


def rand_u16(rng):
    return rng.choice([0, 1, 10, 53, 255, 256, 443, 32768, 65535, rng.getrandbits(16)])


def rand_rdata(rng, typ, pool, big=None):
    k = rdata_letter(typ)
    if k == "a":
        return ("a", rand_u32(rng))
    if k == "n":
        return ("n", rng.choice(pool))
    if k == "s":
        return ("s", rng.choice(pool), rng.choice(pool), rand_u32(rng), rand_u32(rng), rand_u32(rng), rand_u32(rng), rand_u32(rng))
    if k == "i":
        return ("i", rng.choice(pool), rng.choice(pool))
    if k == "x":
        return ("x", rand_u16(rng), rng.choice(pool))
    if k == "q":
        return ("q", bytes([rng.choice([0, 0, 1, 255, rng.randint(0, 255)]) for _ in range(16)]))
    if k == "v":
        return ("v", rand_u16(rng), rand_u16(rng), rand_u16(rng), rng.choice(pool))
    return ("o", rand_octets(rng, big))


def rand_type(rng):
    r = rng.random()
    if r < 0.8:
        return rng.choice(tok.KNOWN_TYPES)
    if r < 0.97:
        return rng.choice(UNKNOWN_TYPES)
    t = rng.getrandbits(16)
    return t


def rand_ttl(rng):
    return rng.choice(TTLS) if rng.random() < 0.8 else rng.getrandbits(32)


def rand_class(rng):
    return rng.choice(CLASSES) if rng.random() < 0.9 else rng.getrandbits(16)


def rand_rr(rng, pool, big=None, typ=None):
    if typ is None:
        typ = rand_type(rng)
    if big is not None and rdata_letter(typ) != "o":
        typ = rng.choice([tok.TXT, tok.NULL, tok.WKS, tok.HINFO, 99, 65535])
    return (rng.choice(pool), typ, rand_class(rng), rand_ttl(rng), rand_rdata(rng, typ, pool, big))


def rand_header(rng):
    ident = rng.choice(IDS) if rng.random() < 0.5 else rng.getrandbits(16)
    return (ident, rng.getrandbits(1), rng.randint(0, 15) if rng.random() < 0.5 else 0, rng.getrandbits(1),
            rng.getrandbits(1), rng.getrandbits(1), rng.getrandbits(1), rng.randint(0, 15) if rng.random() < 0.5 else 0)


def rand_question(rng, pool):
    qt = rng.choice(QTYPES) if rng.random() < 0.95 else rng.getrandbits(16)
    return (rng.choice(pool), qt, rand_class(rng))


def gen_message(rng, p_big=0.0, big_sizes=BIG_SIZES):
    """one structured message.  p_big: probability that one octet-type record carries a large
    RDATA (of a size from big_sizes: 16383, 16384 or 65535 octets)."""
    pool = name_pool(rng)
    qd = rng.choice([0, 1, 1, 1, 1, 1, 2, 3])
    shape = rng.random()
    if shape < 0.1:
        counts = (0, 0, 0)
    elif shape < 0.85:
        counts = (rng.randint(0, 3), rng.randint(0, 2), rng.randint(0, 2))
    else:
        counts = (rng.randint(0, 8), rng.randint(0, 5), rng.randint(0, 5))
    total = sum(counts)
    big_at = rng.randrange(total) if total and rng.random() < p_big else -1
    secs = []
    i = 0
    for c in counts:
        sec = []
        for _ in range(c):
            sec.append(rand_rr(rng, pool, big=rng.choice(big_sizes) if i == big_at else None))
            i += 1
        secs.append(tuple(sec))
    return (rand_header(rng), tuple(rand_question(rng, pool) for _ in range(qd)), secs[0], secs[1], secs[2])


def every_type_message(rng):
    """one record of each of the 18 known types and of a few unknown ones, over one pool"""
    pool = name_pool(rng) + [name("www.example."), name("example.")]
    types = list(tok.KNOWN_TYPES) + [0, 17, 99, 251, 252, 255, 256, 65535]
    rrs = [rand_rr(rng, pool, typ=t) for t in types]
    rng.shuffle(rrs)
    a, b = len(rrs) // 3, 2 * len(rrs) // 3
    qs = tuple((rng.choice(pool), t, c) for t, c in [(252, 1), (253, 255), (254, 3), (255, 1)])
    return (rand_header(rng), qs, tuple(rrs[:a]), tuple(rrs[a:b]), tuple(rrs[b:]))


# pairs of DIFFERENT names that a careless key would identify: the same dotted text (a '.' octet inside a
# label; an escape-looking label), the same concatenated octets, the same labels in another order, octets
# that a lossy text rendering merges (>= 0x80, NUL, trailing space), case-folded neighbours, a name and its
# wildcard / parent / one-octet-shorter sibling.  An encoder that memoises names under such a key emits a
# pointer to a name that is NOT the one being written (C04: "every pointer addresses an identical name").
CONFUSABLE = [
    ((b"a.b", b"c", b""), (b"a", b"b", b"c", b"")),
    ((b"a", b"b.c", b""), (b"a", b"b", b"c", b"")),
    ((b"a.b.c", b""), (b"a", b"b", b"c", b"")),
    ((b"a\\", b"b", b""), (b"a\\.b", b"")),
    ((b"a\\.b", b""), (b"a.b", b"")),
    ((b"\\046", b""), (b".", b"")),
    ((b"\\.", b""), (b".", b"")),
    ((b"ab", b"c", b""), (b"a", b"bc", b"")),
    ((b"a", b"b", b""), (b"b", b"a", b"")),
    ((b"\xff", b"x", b""), (b"\xfe", b"x", b"")),
    ((b"\xc3\xa9", b""), (b"\xe9", b"")),
    ((b"\xef\xbf\xbd", b""), (b"\x80", b"")),
    ((b"a\x00", b""), (b"a", b"")),
    ((b"a ", b""), (b"a", b"")),
    ((b"1", b""), (b"\x01", b"")),
    ((b"[", b""), (b"{", b"")),
    ((b"@", b""), (b"`", b"")),
    ((b"*", b"a", b""), (b"a", b"")),
    ((b"x" * 63, b"y", b""), (b"x" * 62, b"y", b"")),
    ((b"www", b"example", b"com", b""), (b"www.example", b"com", b"")),
]


def confusable_messages(rng):
    """for each confusable pair, in both orders: the first name is written (and memoised) first, the second
    then appears as owner and inside RDATA, where a pointer to the first would be wrong"""
    out = []
    for n1, n2 in CONFUSABLE:
        for x, y in ((n1, n2), (n2, n1)):
            h = (0x1234, 1, 0, 0, 0, 1, 1, 0)
            out.append((h, ((x, tok.A, 1),),
                        ((x, tok.A, 1, 60, ("a", 1)), (y, tok.A, 1, 60, ("a", 2))),
                        ((x, tok.CNAME, 1, 60, ("n", y)), (y, tok.NS, 1, 60, ("n", x))),
                        ((y, tok.MX, 1, 60, ("x", 10, x)), (x, tok.MX, 1, 60, ("x", 20, y)))))
            pool = [x, y, rng.choice(COMMON_NAMES)]
            out.append((rand_header(rng), (rand_question(rng, pool),),
                        tuple(rand_rr(rng, pool) for _ in range(3)), tuple(rand_rr(rng, pool) for _ in range(2)), ()))
    return out


SMALL_BODY_Q = ((name("www.example."), tok.A, 1),)
SMALL_BODY_AN = ((name("www.example."), tok.A, 1, 300, ("a", 0x01020304)),)


def header_sweep(tier):
    """headers: thorough = all 32 flag combinations x 16 opcodes x 16 rcodes (8192); quick = a
    covering sample: every (opcode, rcode) pair with the flag combination cycling, and every flag
    combination with opcode 0 / rcode 0 and with 15/15 (320)"""
    hs = []
    if tier == "thorough":
        for f in range(32):
            for op in range(16):
                for rc in range(16):
                    hs.append((op * 4096 + rc * 256 + f, (f >> 4) & 1, op, (f >> 3) & 1, (f >> 2) & 1, (f >> 1) & 1, f & 1, rc))
    else:
        i = 0
        for op in range(16):
            for rc in range(16):
                f = (i * 7 + op) % 32
                i += 1
                hs.append((op * 4096 + rc * 256 + f, (f >> 4) & 1, op, (f >> 3) & 1, (f >> 2) & 1, (f >> 1) & 1, f & 1, rc))
        for f in range(32):
            hs.append((f, (f >> 4) & 1, 0, (f >> 3) & 1, (f >> 2) & 1, (f >> 1) & 1, f & 1, 0))
            hs.append((0xFF00 + f, (f >> 4) & 1, 15, (f >> 3) & 1, (f >> 2) & 1, (f >> 1) & 1, f & 1, 15))
    return hs


def header_sweep_messages(tier):
    return [(h, SMALL_BODY_Q, SMALL_BODY_AN, (), ()) for h in header_sweep(tier)]


# --------------------------------------------------------------------------
# mutators
# --------------------------------------------------------------------------

BOUNDARY_BYTES = [0, 1, 2, 12, 63, 64, 65, 127, 128, 191, 192, 193, 254, 255]


def truncations(b):
    return [b[:i] for i in range(len(b))]


def mutate(rng, b):
    """one single-octet change (mostly a replacement; sometimes an insertion or a deletion)"""
    if not b:
        return bytes([rng.randrange(256)])
    i = rng.randrange(len(b))
    r = rng.random()
    if r < 0.35:
        v = rng.choice(BOUNDARY_BYTES)
    elif r < 0.55:
        v = rng.randrange(256)
    elif r < 0.7:
        v = b[i] ^ (1 << rng.randrange(8))
    elif r < 0.8:
        v = (b[i] + rng.choice([1, 255])) & 255
    elif r < 0.9:
        return b[:i] + b[i + 1:]
    else:
        return b[:i] + bytes([rng.choice(BOUNDARY_BYTES)]) + b[i:]
    return b[:i] + bytes([v]) + b[i + 1:]


def random_bytes(rng):
    """random octets; half of the time behind a plausible header with small counts"""
    n = rng.choice([0, 1, 2, 3, 11, 12, 13, 17, 20, 30, 40, 64, 100, 300]) if rng.random() < 0.7 else rng.randint(0, 600)
    body = rng.randbytes(n)
    if rng.random() < 0.5:
        return body
    hdr = struct.pack(">HBBHHHH", rng.getrandbits(16), rng.getrandbits(8), rng.getrandbits(8),
                      rng.choice([0, 1, 1, 2]), rng.choice([0, 0, 1, 2]), rng.choice([0, 0, 1]), rng.choice([0, 0, 1]))
    if rng.random() < 0.5:
        # name-shaped noise: short labels, pointers and zeros are likelier than in uniform noise
        body = bytes([rng.choice([0, 0, 1, 1, 2, 3, 0xC0, 0xC0, 12, 13, 97, 98, 64, 255, rng.randrange(256)]) for _ in range(n)])
    return hdr + body


# --------------------------------------------------------------------------
# adversarial families (byte strings)
# --------------------------------------------------------------------------

def H(ident=0x1234, b2=0, b3=0, qd=0, an=0, ns=0, ar=0):
    return struct.pack(">HBBHHHH", ident, b2, b3, qd, an, ns, ar)


def wname(labels):
    """labels (root included explicitly, or not, for unterminated names) -> wire octets"""
    out = bytearray()
    for l in labels:
        out.append(len(l))
        out.extend(l)
    return bytes(out)


def ptr(off):
    return struct.pack(">H", 0xC000 | off)


def fixed(typ, cls=1, ttl=0, rdlen=0):
    return struct.pack(">HHIH", typ, cls, ttl, rdlen)


QT = b"\x00\x01\x00\x01"
A_REC_TAIL = fixed(tok.A, 1, 1, 4) + b"\x01\x02\x03\x04"

CHAIN_BASE = 23          # header 12 + root owner 1 + fixed part 10: first RDATA octet of the first record
MAX_CHAIN_PTRS = (16383 - CHAIN_BASE) // 2 + 1      # last pointer at offset 16383, still addressable


def chain_message(nptrs, bottom="root", pad=0):
    """A NULL record (owner: root, at offset 12) whose RDATA holds a stride-2 chain of `nptrs`
    pointers: the one at offset 23 points at the bottom, the one at o points at o-2; then an A
    record whose owner is a pointer to the top of the chain.  Reading that owner follows
    nptrs + 1 pointers.  bottom: "root" (the first record's owner, offset 12) | "self" (the lowest
    pointer points at itself: invalid) | "header" (offset 0; the id is 0 so a root label is there)."""
    rd = bytearray()
    for i in range(nptrs):
        o = CHAIN_BASE + 2 * i
        if i == 0:
            tgt = {"root": 12, "self": o, "header": 0}[bottom]
        else:
            tgt = o - 2
        rd += ptr(tgt)
    rd += b"\x00" * pad
    top = CHAIN_BASE + 2 * (nptrs - 1)
    assert top < 16384
    ident = 0 if bottom == "header" else 0xBEEF
    return (H(ident, 0x84, 0, an=2) + b"\x00" + fixed(tok.NULL, 1, 0, len(rd)) + bytes(rd)
            + ptr(top) + A_REC_TAIL)


def max_chain_message():
    return chain_message(MAX_CHAIN_PTRS)


def fam_short():
    out = [b""]
    full = H(0xABCD, 0x01, 0x80)
    for i in range(1, 13):
        out.append(full[:i])
    out.append(H(qd=1))
    out.append(H(an=1))
    out.append(b"\xff" * 2)
    out.append(b"\xff" * 11)
    return out


def fam_counts():
    out = [H(qd=0xFFFF, an=0xFFFF, ns=0xFFFF, ar=0xFFFF)]
    for i in range(4):
        c = [0, 0, 0, 0]
        c[i] = 0xFFFF
        out.append(H(qd=c[0], an=c[1], ns=c[2], ar=c[3]))
    out.append(H(qd=0xFFFF, an=0xFFFF, ns=0xFFFF, ar=0xFFFF) + b"\x00" * 12)
    out.append(H(qd=0xFFFF, an=0xFFFF, ns=0xFFFF, ar=0xFFFF) + (b"\x00" + QT) * 2 + b"\x00\x00")
    out.append(H(qd=2, an=0xFFFF) + (b"\x00" + QT) * 2 + b"\x00" + A_REC_TAIL)
    # counts one more / one less than what is there
    body = b"\x01a\x00" + QT
    rec = ptr(12) + A_REC_TAIL
    out.append(H(qd=1, an=2) + body + rec)
    out.append(H(qd=1, an=1) + body + rec + rec)        # trailing octets
    out.append(H(qd=2, an=1) + body + rec)
    out.append(H(qd=1, an=0, ns=0, ar=1) + body + rec)
    return out


def fam_ptr_self():
    return [
        H(qd=1) + ptr(12) + QT,
        H(qd=1) + b"\x01a" + ptr(12) + QT,
        H(qd=1) + b"\x01a" + ptr(14) + QT,
        H(qd=1) + b"\x01a" + ptr(13) + QT,
        H(qd=1, an=1) + b"\x01a\x00" + QT + ptr(19) + A_REC_TAIL,
        H(qd=1, an=1) + b"\x01a\x00" + QT + b"\x01b" + ptr(19) + A_REC_TAIL,
        # two names pointing at each other
        H(qd=2) + ptr(18) + QT + ptr(12) + QT,
        # a valid pointer to a name that then points at itself
        H(qd=2) + b"\x01a" + ptr(12) + QT + ptr(12) + QT,
    ]


def fam_ptr_forward():
    out = []
    for d in (0, 1, 2, 6, 100, 16383 - 12):
        out.append(H(qd=2) + ptr(12 + d) + QT + b"\x01a\x00" + QT)
    out.append(H(qd=2) + ptr(18) + QT + b"\x01a\x00" + QT)
    # pointer to just before the name is fine, to its first octet is not
    out.append(H(qd=2) + b"\x01a\x00" + QT + ptr(18) + QT)
    out.append(H(qd=2) + b"\x01a\x00" + QT + ptr(19) + QT)
    out.append(H(qd=2) + b"\x01a\x00" + QT + ptr(17) + QT)       # into QCLASS: octet 01 then past the end
    out.append(H(qd=2) + b"\x01a\x00" + QT + ptr(14) + QT)       # the root octet of the first name
    out.append(H(qd=2) + b"\x01a\x00" + QT + ptr(13) + QT)       # middle of a label: 'a' = 97 = reserved type
    # inside RDATA: pointer to the record's own owner (fine) and to the RDATA itself (not)
    out.append(H(an=1) + b"\x01a\x00" + fixed(tok.NS, 1, 0, 2) + ptr(12))
    out.append(H(an=1) + b"\x01a\x00" + fixed(tok.NS, 1, 0, 2) + ptr(25))
    out.append(H(an=1) + b"\x01a\x00" + fixed(tok.NS, 1, 0, 2) + ptr(26))
    out.append(H(an=1) + b"\x01a\x00" + fixed(tok.MX, 1, 0, 4) + b"\x00\x0a" + ptr(25))   # at the preference octets
    return out


def fam_ptr_header():
    out = []
    for hd in (H(0, 0, 0, qd=1), H(0x0161, 0, 0, qd=1), H(0x3F00, 0x81, 0x83, qd=1), H(0x0100, 0, 0, qd=1),
               H(0x0200, 0x01, 0x00, qd=1, an=0, ns=0, ar=0), H(0xC000, 0, 0, qd=1)):
        for off in range(12):
            out.append(hd + ptr(off) + QT)
    out.append(H(0, 0, 0, qd=1) + b"\x03www" + ptr(0) + QT)
    out.append(H(0, 0, 0, an=1) + ptr(0) + fixed(tok.CNAME, 1, 0, 2) + ptr(2))
    return out


def fam_ptr_chain():
    out = []
    for k in list(range(1, 41)) + [100, 127, 128, 1000]:
        out.append(chain_message(k))
    for k in (1, 2, 3, 50):
        out.append(chain_message(k, "self"))
        out.append(chain_message(k, "header"))
    # a chain in which every hop adds a label: accepted up to 255 octets, then too long
    for hops in (1, 2, 10, 126, 127, 128, 200):
        rd = bytearray(b"\x00")          # offset 23: a root label
        prev = CHAIN_BASE
        for _ in range(hops):
            here = CHAIN_BASE + len(rd)
            rd += b"\x01z" + ptr(prev)
            prev = here
        out.append(H(0x7777, an=2) + b"\x00" + fixed(tok.NULL, 1, 0, len(rd)) + bytes(rd) + ptr(prev) + A_REC_TAIL)
    return out


def fam_max_chain():
    return [max_chain_message(), chain_message(MAX_CHAIN_PTRS, "self"), chain_message(MAX_CHAIN_PTRS, "header"),
            chain_message(MAX_CHAIN_PTRS - 1), chain_message(MAX_CHAIN_PTRS - 1, pad=1)]


def fam_label_reserved():
    out = []
    for v in range(64, 192):
        out.append(H(qd=1) + bytes([v]) + b"abc\x00" + QT)
    for v in (64, 65, 127, 128, 129, 190, 191):
        out.append(H(qd=1) + b"\x01a" + bytes([v]) + b"\x00" + QT)
        out.append(H(qd=2) + bytes([1, v, 0]) + QT + ptr(13) + QT)            # reached through a pointer
        out.append(H(an=1) + b"\x00" + fixed(tok.CNAME, 1, 0, 3) + bytes([v, 97, 0]))
    return out


def fam_label_63_64():
    out = []
    out.append(H(qd=1) + wname([b"a" * 63, b""]) + QT)
    out.append(H(qd=1) + bytes([64]) + b"a" * 64 + b"\x00" + QT)
    out.append(H(qd=1) + wname([b"a" * 62, b""]) + QT)
    out.append(H(qd=1) + wname([b"A" * 63, b"B" * 63, b""]) + QT)
    out.append(H(an=1) + wname([b"a" * 63, b""]) + fixed(tok.NS, 1, 0, 65) + wname([b"b" * 63, b""]))
    out.append(H(an=1) + wname([b"a" * 63, b""]) + fixed(tok.NS, 1, 0, 66) + bytes([64]) + b"b" * 64 + b"\x00")
    out.append(H(qd=1) + bytes([63]) + b"a" * 62)                             # label runs off the end
    return out


def fam_name_255_256():
    out = []
    for last in (60, 61, 62, 63):
        out.append(H(qd=1) + wname([b"a" * 63, b"b" * 63, b"c" * 63, b"d" * last, b""]) + QT)
    for k in (126, 127, 128, 129):
        out.append(H(qd=1) + wname([b"a"] * k + [b""]) + QT)
    x = wname([b"a" * 63, b"b" * 63, b"c" * 63, b""])         # 193 octets at offset 12
    for k in (60, 61, 62, 63):
        out.append(H(qd=2) + x + QT + wname([b"d" * k]) + ptr(12) + QT)
    # suffix of the first name (offset 12 + 64: 129 octets) + 63 + k
    for k in (60, 61, 62, 63):
        out.append(H(qd=2) + x + QT + wname([b"e" * 63, b"f" * k]) + ptr(12 + 64) + QT)
    # the pointed-at name is itself 255 long: a bare pointer is fine, one more label is not
    y = wname(NAME255)
    out.append(H(qd=2) + y + QT + ptr(12) + QT)
    out.append(H(qd=2) + y + QT + b"\x01a" + ptr(12) + QT)
    out.append(H(qd=2) + y + QT + b"\x01a" + ptr(12 + 64) + QT)
    # in RDATA
    out.append(H(an=1) + b"\x00" + fixed(tok.CNAME, 1, 0, 255) + y)
    out.append(H(an=1) + b"\x00" + fixed(tok.CNAME, 1, 0, 256) + wname([b"a" * 63, b"b" * 63, b"c" * 63, b"d" * 62, b""]))
    out.append(H(an=1) + y + fixed(tok.SOA, 1, 0, 24) + ptr(12) + ptr(12) + b"\x00" * 20)
    out.append(H(an=1) + y + fixed(tok.SOA, 1, 0, 26) + b"\x01a" + ptr(12) + ptr(12) + b"\x00" * 20)
    # too long and then truncated / followed by junk
    out.append(H(qd=1) + wname([b"a" * 63] * 4))
    out.append(H(qd=1) + wname([b"a" * 63] * 4) + bytes([200]))
    out.append(H(qd=1) + wname([b"a" * 63] * 5 + [b""]) + QT)
    return out


def fam_rdata_65535(rng):
    out = []
    blk = rng.randbytes(251)
    big = (blk * 262)[:65535]
    for typ in (tok.TXT, tok.NULL, 99):
        out.append(H(an=1) + b"\x00" + fixed(typ, 1, 0, 65535) + big)
    out.append(H(an=1) + b"\x00" + fixed(tok.TXT, 1, 0, 65535) + big[:65534])          # one octet short
    out.append(H(an=1) + b"\x00" + fixed(tok.TXT, 1, 0, 65512) + big[:65512])          # message of exactly 65535
    out.append(H(an=1) + b"\x00" + fixed(tok.HINFO, 1, 0, 65513) + big[:65513])        # 65536
    out.append(H(an=2) + b"\x00" + fixed(tok.WKS, 1, 0, 65535) + big + b"\x01a\x00" + fixed(tok.NS, 1, 0, 3) + b"\x01b\x00")
    out.append(H(an=1) + b"\x00" + fixed(tok.A, 1, 0, 65535) + big)                    # typed: wrong length
    out.append(H(an=1) + b"\x00" + fixed(tok.NS, 1, 0, 65535) + b"\x01a\x00" + big[3:])
    return out


def typed_rdatas():
    """(type, a valid RDATA for it) for every known type, with and without a pointer to offset 12"""
    n = b"\x02ns\xc0\x0c"
    m = b"\x04mail\x00"
    return [
        (tok.A, b"\x7f\x00\x00\x01"), (tok.NS, n), (tok.MD, m), (tok.MF, n), (tok.CNAME, ptr(12)), (tok.SOA, n + m + b"\x00\x00\x00\x01" * 5),
        (tok.MB, n), (tok.MG, m), (tok.MR, b"\x00"), (tok.NULL, b"abc"), (tok.WKS, b"\x01\x02\x03\x04\x06\xff"), (tok.PTR, n),
        (tok.HINFO, b"\x03cpu\x02os"), (tok.MINFO, n + m), (tok.MX, b"\x00\x0a" + n), (tok.TXT, b"\x05hello"),
        (tok.AAAA, bytes(range(16))), (tok.SRV, b"\x00\x01\x00\x02\x01\xbb" + n), (99, b"xyz"), (65535, b""),
    ]


def fam_rdlength():
    out = []
    owner = b"\x07example\x00"             # offset 12
    for typ, rd in typed_rdatas():
        for d in (-1, 0, 1, 2):
            L = len(rd) + d
            if L < 0:
                continue
            base = H(an=2) + owner + fixed(typ, 1, 60, L)
            nxt = ptr(12) + A_REC_TAIL
            out.append(base + rd + nxt)                          # RDLENGTH off, the data unchanged
            if d > 0:
                out.append(base + rd + b"\x00" * d + nxt)        # RDLENGTH and data both longer
            if d < 0:
                out.append(base + rd[:L] + nxt)                  # both shorter
        out.append(H(an=1) + owner + fixed(typ, 1, 60, len(rd)) + rd[:-1] if rd else H(an=1) + owner + fixed(typ, 1, 60, 1))
        out.append(H(an=1) + owner + fixed(typ, 1, 60, 0))
        out.append(H(an=1) + owner + fixed(typ, 1, 60, 0xFFFF) + rd)
    return out


def families(rng):
    """[(family tag, bytes)] -- every adversarial family once"""
    fams = [("short", fam_short()), ("counts", fam_counts()), ("ptr-self", fam_ptr_self()),
            ("ptr-forward", fam_ptr_forward()), ("ptr-header", fam_ptr_header()), ("ptr-chain", fam_ptr_chain()),
            ("max-chain", fam_max_chain()), ("label-reserved", fam_label_reserved()), ("label-63-64", fam_label_63_64()),
            ("name-255-256", fam_name_255_256()), ("rdata-65535", fam_rdata_65535(rng)), ("rdlength", fam_rdlength())]
    return [(t, b) for t, l in fams for b in l]
