"""C16 -- domain names are well formed and compared case-insensitively."""
from . import core

ID = "C16"
DRIVER = "name"
COQ_TARGETS = ["Properties/C16.vo"]
THEOREMS = ["C16_from_labels_wf", "C16_from_labels_complete", "C16_dotted_complete", "C16_dotted_wf",
            "C16_wire_wf", "C16_join", "C16_make_subdomain", "C16_case_insensitive",
            "C16_label_case_insensitive", "C16_dotted_roundtrip", "C16_subdomain_is_suffix",
            "C16_zones_get_longest_suffix", "C16_wire_case_insensitive"]
RULE = ("cases: label sequences with lengths from {0,1,2,62,63,64} and totals sweeping 250..260, dotted strings over an "
        "alphabet with '.', both cases, empty labels and non-ASCII, wire names with/without pointers, origin joins, "
        "zone selection; non-trivial = distinct case line whose model result is not the trivial rejection of an empty input")
ASSUMPTIONS = ["Label values are built through Label::try_from/Label::new (the field is private): every label in a "
               "from_labels argument is <= 63 octets and lower-case",
               "C16_wire_wf: the cursor's remaining octets are octets (< 256) -- in Rust the cursor is a position in the same &[u8]",
               "C16_join: the 'origin is a suffix of the joined name' clause is stated for origins with ASCII dot-free labels: "
               "from_relative_dotted_string re-reads the origin through its dotted text (Latin-1 -> UTF-8, split on '.'), so an "
               "origin label holding a dot or a non-ASCII octet is re-split/re-encoded (well-formedness of the result holds unconditionally)"]


def hexb(b):
    return bytes(b).hex() if b else "-"


def labtok(ls):
    return ".".join(hexb(l) for l in ls) if ls else "_"


def nums(s):
    return ",".join(str(c) for c in s) if s else "_"


ALPHA = [ord(c) for c in "abAB.z9-_*@\\ "] + [0xE9, 0x4E2D, 0x1F600, 0, 46, 46, 46]


def rand_label(rng, maxlen=63):
    n = rng.choice([1, 1, 2, 3, 5, 62, 63]) if maxlen >= 63 else rng.randint(1, maxlen)
    return [rng.choice([97, 98, 65, 90, 122, 48, 45, 0, 255, 42, 64, 46 if rng.random() < 0.1 else 99]) for _ in range(n)]


def rand_name_labels(rng, maxl=5):
    k = rng.randint(0, maxl)
    return [rand_label(rng, 8) for _ in range(k)] + [[]]


def wire_name(rng, depth=0):
    """bytes of a (possibly malformed) name placed at offset 12."""
    out = []
    for _ in range(rng.randint(0, 4)):
        l = rand_label(rng, rng.choice([3, 8, 63]))
        out += [len(l)] + l
    r = rng.random()
    if r < 0.5:
        out += [0]
    elif r < 0.8:
        # pointer: into the header (0..11), to self, forward, random
        tgt = rng.choice([0, 1, 5, 11, 12, 13, 12 + len(out), rng.randint(0, 40)])
        out += [0xC0 | (tgt >> 8), tgt & 0xFF]
    elif r < 0.9:
        out += [rng.choice([64, 100, 128, 191])]
    return out


def plain_name(total):
    """bytes of an uncompressed name of exactly `total` octets (total >= 3), labels 'a'*k"""
    out = []
    rem = total - 1
    while rem > 0:
        s = min(63, rem - 1)
        if rem - 1 - s == 1:      # would leave a 1-octet hole: shorten
            s -= 1
        out += [s] + [97 + (len(out) % 3)] * s
        rem -= s + 1
    return out + [0]


def wns_chain(total1, extra, hops, upper=False):
    """part1 = plain name of total1 octets at offset 12; each further part = a label of `extra`/hops.. octets plus a
    pointer to the start of the previous part, so the expanded length is total1 + sum(labels+1)"""
    parts = [plain_name(total1)]
    off = 12
    for h in range(hops):
        lab = extra if h == 0 else 1
        body = ([lab] + [66 if upper else 98] * lab) if lab > 0 else []
        body += [0xC0 | (off >> 8), off & 0xFF]
        off = off + len(parts[-1]) + 4
        parts.append(body)
    return ",".join(hexb(p) for p in parts)


def generate(rng, tier):
    n = 4000 if tier == "quick" else 120000
    cases = []
    add = cases.append
    # corpus / boundaries, exhaustive
    for ln in [0, 1, 62, 63, 64, 65, 200]:
        add("name LT " + hexb([65 + (i % 26) for i in range(ln)]))
    # label-length sweeps around 255: names of k labels of given sizes with totals 250..260
    for total in range(248, 262):
        for first in [1, 2, 62, 63]:
            # fill: labels of 63 until remaining
            ls = []
            rem = total - 1  # root label
            sz = first
            while rem >= 2:
                s = min(sz, rem - 1, 63)
                ls.append([97] * s)
                rem -= s + 1
                sz = 63
            if rem == 1:
                # cannot fill exactly; add one-octet slack by extending the last label if possible
                if ls and len(ls[-1]) < 63:
                    ls[-1].append(97)
                    rem -= 1
            ls.append([])
            add("name FL " + labtok(ls))
            s = []
            for l in ls[:-1]:
                s += l + [46]
            add("name DS " + nums(s))
            add("name DS2 " + nums([c - 32 if i % 2 else c for i, c in enumerate(s)]))
    # wire names ending in pointers into earlier names, totals sweeping the 255 limit (exhaustive at the boundary)
    for total1 in [200, 250, 253, 254, 255]:
        for extra in range(0, 9):
            for hops in (1, 2):
                cases.append("name WNS " + wns_chain(total1, extra, hops))
    for ls in [[], [[]], [[], []], [[97], []], [[97]], [[], [97]], [[97], [], [98], []], [[97], [], []]]:
        add("name FL " + labtok(ls))
    for s in ["", ".", "..", "a", "a.", ".a", "a..b", "a.b.", "A.b", "a.b..", " ", "é.", "a" * 63 + ".", "a" * 64 + ".", "é" * 31 + "a.", "é" * 32 + ".", "*.a.", "@"]:
        add("name DS " + nums([ord(c) for c in s]))
        add("name DS2 " + nums([ord(c) for c in s]))
    while len(cases) < n:
        r = rng.random()
        if r < 0.12:
            k = rng.randint(0, 5)
            ls = [rand_label(rng) if rng.random() < 0.85 else [] for _ in range(k)]
            if rng.random() < 0.8:
                ls.append([])
            add("name FL " + labtok(ls))
        elif r < 0.30:
            s = [rng.choice(ALPHA) for _ in range(rng.choice([0, 1, 2, 3, 5, 8, 13, 40]))]
            if rng.random() < 0.5:
                s.append(46)
            add("name " + rng.choice(["DS", "DS2"]) + " " + nums(s))
        elif r < 0.40:
            add("name TD " + labtok(rand_name_labels(rng)))
        elif r < 0.55:
            o = rand_name_labels(rng, 3)
            s = [rng.choice(ALPHA) for _ in range(rng.choice([0, 1, 2, 3, 5, 8]))]
            if rng.random() < 0.3:
                s.append(46)
            if rng.random() < 0.1:
                o = [[97] * 63, [98] * 63, [99] * 63, [100] * rng.choice([50, 55, 58, 59, 60, 61]), []]
            add("name RD %s %s" % (labtok(o), nums(s)))
        elif r < 0.65:
            a = rand_name_labels(rng, 3)
            b = rand_name_labels(rng, 3)
            if rng.random() < 0.1:
                b = [[97] * 63, [98] * 63, [99] * 63, [100] * rng.choice([50, 55, 58, 59, 60, 61]), []]
            add("name MS %s %s" % (labtok(a), labtok(b)))
        elif r < 0.75:
            b = rand_name_labels(rng, 2)
            if rng.random() < 0.6:
                a = [rand_label(rng, 4) for _ in range(rng.randint(0, 2))] + b
            else:
                a = rand_name_labels(rng, 3)
            if rng.random() < 0.3:
                a = [[c - 32 if 97 <= c <= 122 else c for c in l] for l in a]
            add("name SUB %s %s" % (labtok(a), labtok(b)))
        elif r < 0.84:
            add("name WN " + hexb(wire_name(rng)))
        elif r < 0.92:
            if rng.random() < 0.7:
                add("name WNS " + wns_chain(rng.choice([3, 10, 100, 200, 240, 250, 254, 255]), rng.randint(0, 12), rng.randint(1, 3), rng.random() < 0.3))
            else:
                # pointer into the middle of an earlier name / forward / self
                p1 = plain_name(rng.choice([5, 20, 130]))
                tgt = 12 + rng.choice([0, 1, len(p1) - 1, len(p1), len(p1) + 4, len(p1) + 5, 300])
                add("name WNS %s,%s" % (hexb(p1), hexb([2, 120, 121, 0xC0 | (tgt >> 8), tgt & 0xFF])))
        else:
            pool = [[[]], [[97], []], [[98], [97], []], [[99], []], [[97], [99], []]]
            apexes = rng.sample(pool, rng.randint(1, 4))
            nm = [rand_label(rng, 2) for _ in range(rng.randint(0, 2))] + rng.choice(pool)
            if rng.random() < 0.3:
                nm = [[c - 32 if 97 <= c <= 122 else c for c in l] for l in nm]
            add("name ZG %s %s" % (";".join(labtok(a) for a in apexes), labtok(nm)))
    return cases


def parse_name(tok):
    """'<labels>/<len>' -> (labels as list of bytes, len)"""
    ls, ln = tok.rsplit("/", 1)
    labels = [] if ls == "_" else [bytes.fromhex(h) if h != "-" else b"" for h in ls.split(".")]
    return labels, int(ln)


def wf(labels, ln):
    if not labels or labels[-1] != b"":
        return "not absolute"
    if any(l == b"" for l in labels[:-1]):
        return "empty interior label"
    if any(len(l) > 63 for l in labels):
        return "label > 63"
    if any(65 <= c <= 90 for l in labels for c in l):
        return "upper-case octet stored"
    if ln != len(labels) + sum(len(l) for l in labels):
        return "recorded length != encoded length"
    if ln > 255:
        return "name > 255"
    return None


def oracle(case, impl, model):
    toks = case.split(" ")
    op = toks[1]
    try:
        if op in ("FL", "DS", "RD", "MS") and impl.startswith("Some:"):
            w = wf(*parse_name(impl[5:]))
            if w:
                return ("ill-formed-name", "constructor %s returned an ill-formed name: %s" % (op, w))
        if op == "WNS" and impl.startswith("Ok:"):
            for t in impl[3:].split(","):
                w = wf(*parse_name(t))
                if w:
                    return ("ill-formed-name", "wire decoder returned an ill-formed name: %s" % w)
        if op in ("DS", "DS2") and toks[2] != "":
            # reference reading of dotted text: "." or dot-terminated non-empty chunks within the limits
            cps = [] if toks[2] == "_" else [int(x) for x in toks[2].split(",")]
            txt = "".join(chr(c) for c in cps)
            if txt == ".":
                want = True
            else:
                chunks = txt.split(".")
                want = chunks[-1] == "" and all(c != "" for c in chunks[:-1])
                enc = [c.encode("utf-8", "surrogatepass") for c in chunks[:-1]]
                want = want and all(len(e) <= 63 for e in enc) and (1 + sum(len(e) + 1 for e in enc)) <= 255
            got = impl.split("|")[0].startswith("Some:")
            if got and not want:
                return ("accepts-invalid", "from_dotted_string accepted text violating the limits (empty label / too long)")
            if want and not got:
                return ("rejects-valid", "from_dotted_string rejected well-formed dotted text")
        if op == "WN" and impl.startswith("Ok:"):
            w = wf(*parse_name(impl[3:]))
            if w:
                return ("ill-formed-name", "wire decoder returned an ill-formed name: %s" % w)
        if op == "DS2" and "|" in impl:
            a, b = impl.split("|")
            if a != b:
                return ("case-sensitive", "names differing only in ASCII case are not equal")
            if a.startswith("Some:"):
                w = wf(*parse_name(a[5:]))
                if w:
                    return ("ill-formed-name", "from_dotted_string returned an ill-formed name: %s" % w)
        if op == "FL" and impl == "None":
            labels = [] if toks[2] == "_" else [bytes.fromhex(h) if h != "-" else b"" for h in toks[2].split(".")]
            labels = [bytes(c + 32 if 65 <= c <= 90 else c for c in l) for l in labels]
            if wf(labels, len(labels) + sum(len(l) for l in labels)) is None:
                return ("rejects-valid", "from_labels rejected a well-formed label sequence")
        if op == "SUB" and impl in ("true", "false"):
            low = lambda t: [h.lower() if h != "-" else "" for h in t.split(".")]
            def lowl(t):
                return [bytes(c + 32 if 65 <= c <= 90 else c for c in (bytes.fromhex(h) if h != "-" else b"")) for h in t.split(".")]
            a, b = lowl(toks[2]), lowl(toks[3])
            suffix = len(b) <= len(a) and a[len(a) - len(b):] == b
            if suffix != (impl == "true"):
                return ("subdomain-not-suffix", "is_subdomain_of differs from label-wise suffix")
        if impl == "Panic":
            return ("panic", "name operation panicked")
    except Exception as e:  # malformed output is a correspondence matter
        return None
    return None


def nontrivial(case, model):
    return not case.endswith(" _") and not case.endswith(" -")


def kind(case, model):
    op = case.split(" ")[1]
    if op in ("TD", "SUB"):
        return op
    return op + ":" + model.split(":")[0].split("|")[0]
