"""C01 -- local zone and hosts data always win over cache and upstream (local part).

At this stage the stream and the theorems cover *local resolution* (zones + cache, no
network): dns_resolver::resolve in authoritative-only mode and local::resolve_local.
The recursive and forwarding modes (done_means_no_upstream, log_names_not_owned) are
covered by the resolver subsystem's streams when they land.
"""
from . import localgen as g
from .tok import CNAME, ANY, AXFR, MAILB, MAILA, IN

ID = "C01"
DRIVER = "local"
COQ_TARGETS = ["Properties/C01.vo"]
THEOREMS = ["C01_auth_zone_alone_local", "C01_owned_never_referral", "C01_cache_noninterference_local",
            "C01_cache_noninterference_owned_local", "C01_longest_zone_only", "C01_override_exact",
            "C01_override_any", "C01_prioritising_merge_spec", "C01_nxdomain_only_from_auth_zone_local",
            "C01_nxdomain_resolved_local", "C01_no_panic_no_fuel", "C01_authoritative_only_total"]
RULE = ("case = a set of zones (nested apexes, authoritative and not, wildcards, CNAMEs, delegations, blocklist entries), "
        "cache contents and 3..96 questions; non-trivial = distinct case line in which at least one question is answered "
        "(not an error) from zone or cache data according to the model")
ASSUMPTIONS = [
    "local part only: resolve() in authoritative-only mode and resolve_local; recursive/forwarding modes are not exercised here",
    "the cache is read at a fixed virtual instant (clock hook set to 0 and never advanced): cget = SharedCache::get on the "
    "contents inserted by the case; that get() also refreshes the LRU stamp is not observable through resolve_local",
    "Context::at_recursion_limit compares len with Vec::capacity(); the model takes capacity = RECURSION_LIMIT exactly "
    "(Vec::with_capacity(32) allocates exactly 32 slots for this element type; exercised by the chains of 31..34 links)",
    "facts about single-zone lookup (what ZoneResult a zone gives for a name) are C02's; C01's theorems are stated in "
    "terms of the zone's own result",
]
TRUSTED = ["oracle restricted (soundness): 'owned' names exclude zones holding wildcard NS records; clause (i) on the reply "
           "variant excludes names that carry a CNAME (deviation D2: a chain leaving authority is non-authoritative) -- "
           "for those only the provenance of every RR at an owned name is checked; clause (ii) excludes names beneath an NS "
           "cut of the non-authoritative zone and names that also carry a CNAME"]


def generate(rng, tier):
    return g.generate(rng, tier, ID)


def rr_of(name, rec):
    t, ttl, d = rec
    return {"name": name, "type": t, "class": IN, "ttl": ttl, "data": d}


def covering_cname(zone, name):
    """the zone may answer a query for `name` with a CNAME: a CNAME record at the name or a wildcard CNAME above it"""
    for (w, o, t, _, _) in zone["recs"]:
        if t == CNAME and ((not w and o == name) or (w and g.is_suffix(o, name) and o != name)):
            return True
    return False


def clauses(zones, q, res, nlog=None, cache=(), stats=None):
    """C01's sentences on one question and its reply (parsed by localgen).  nlog = None: local stream; otherwise a
    network-mode reply, nlog = number of upstream exchanges logged for the question, cache = the initial cache
    contents (parsed), stats = counters of how often each clause applied.  -> None | (class, text)"""
    net = nlog is not None

    def count(k):
        if stats is not None:
            stats[k] = stats.get(k, 0) + 1
    n, qt = q["name"], q["qtype"]
    qs = "%s type %d" % (g.show_name(n), qt)
    if res["kind"] not in ("A", "X", "N", "E"):
        return None
    rrs = res.get("rrs", [])
    # provenance: every RR at a name an authoritative zone owns is a record of that zone
    for r in rrs:
        zo = g.owned_auth(zones, r["name"])
        if zo is not None:
            count("provenance: records at owned names")
        if zo is not None and not g.zone_may_produce(zo, r):
            klass = "foreign-record-for-owned-name"
            if net:
                # network modes: the record is one the case put into the cache, or one an upstream reply supplied.
                # The second happens although upstream is never ASKED about an owned name (that is checked on the
                # log before this): the reply to a question about another name carried its alias chain into the
                # owned name -- known finding of C01, see known_findings.json
                held = any(c["name"] == r["name"] and c["type"] == r["type"] and c["data"] == r["data"] for c in cache)
                klass = "cached-record-for-owned-name" if held else "upstream-chain-into-owned-name"
            return (klass,
                    "question %s: the reply holds %s type %d ttl %d %s, which is not a record of the authoritative zone %s that owns the name"
                    % (qs, g.show_name(r["name"]), r["type"], r["ttl"], r["data"], g.show_name(zo["apex"])))
    # (i) owned names are answered authoritatively, with the owning zone's SOA
    z = g.owned_auth(zones, n)
    if z is not None and (qt in (CNAME, ANY) or not covering_cname(z, n)):
        count("(i) owned, clear-cut: authoritative marking, zone's SOA" + (", empty log" if net else ""))
        if res["kind"] not in ("A", "X"):
            return ("owned-not-authoritative",
                    "question %s: the most specific zone %s is authoritative and owns the name, but the reply is %s"
                    % (qs, g.show_name(z["apex"]), res["kind"] if res["kind"] != "E" else res["err"]))
        if res["soa"] != z["soa_rr"]:
            return ("owned-wrong-soa", "question %s: reply carries an SOA that is not zone %s's" % (qs, g.show_name(z["apex"])))
        if any(r["name"] != n for r in rrs):
            return ("owned-foreign-owner", "question %s: authoritative reply holds a record of another owner" % qs)
        if net and nlog:
            return ("owned-with-upstream-contact", "question %s: zone %s owns the name, yet %d upstream exchange(s) were made"
                    % (qs, g.show_name(z["apex"]), nlog))
    # (ii) a non-authoritative zone holding records of the asked name (and type) overrides
    zn = g.zone_for(zones, n)
    if zn is not None and zn["soa_rr"] is None and not g.beneath_cut(zn, n) and not g.has_wild_ns(zn):
        if qt == ANY:
            here = g.recs_at(zn, n)
            if here and not (net and res["kind"] == "E"):
                # (network modes: an ANY question goes upstream for the other types; when upstream cannot be
                # reached the resolution fails as a whole -- not a substitution, not judged here)
                count("(ii) override, ANY")
                if res["kind"] != "N":
                    return ("override-lost", "question %s: the non-authoritative zone holds records of the name but the reply is %s" % (qs, res["kind"]))
                for t in sorted({r[0] for r in here}):
                    want = [rr_of(n, r) for r in here if r[0] == t]
                    got = [r for r in rrs if r["name"] == n and r["type"] == t]
                    if got != want:
                        return ("override-mixed",
                                "question %s: records of type %d at the name are %d in the reply but the zone holds %d -- cached or upstream records of a (name, type) the zone has were added or substituted"
                                % (qs, t, len(got), len(want)))
        elif qt not in (AXFR, MAILB, MAILA):
            here = g.recs_at(zn, n, qt)
            if here and (qt == CNAME or not g.recs_at(zn, n, CNAME)):
                want = [rr_of(n, r) for r in here]
                count("(ii) override, exact" + (", empty log" if net else ""))
                if res["kind"] != "N" or rrs != want or res["soa"] is not None:
                    return ("override-not-exact",
                            "question %s: the non-authoritative zone %s holds %d record(s) of that name and type; the reply is %s with %d record(s)"
                            % (qs, g.show_name(zn["apex"]), len(want), res["kind"], len(rrs)))
                if net and nlog:
                    return ("override-with-upstream-contact",
                            "question %s: the non-authoritative zone %s answers it, yet %d upstream exchange(s) were made"
                            % (qs, g.show_name(zn["apex"]), nlog))
    # (iii) a name error only on the word of an authoritative zone
    if res["kind"] == "X":
        count("(iii) name errors")
        if zn is None or zn["soa_rr"] is None:
            return ("nxdomain-without-authority", "question %s: name error although the most specific zone is not authoritative" % qs)
        if g.node_exists(zn, n):
            return ("nxdomain-for-existing-name", "question %s: name error although zone %s has records at or beneath the name" % (qs, g.show_name(zn["apex"])))
        if res["soa"] != zn["soa_rr"]:
            return ("nxdomain-wrong-soa", "question %s: name error carries another zone's SOA" % qs)
    return None


def oracle(case, impl, model):
    try:
        zones, cache, questions = g.parse_case(case)
        outs = g.parse_out(impl)
    except Exception:
        return None
    if outs is None or len(outs) != len(questions):
        return None
    for q, (res, loc) in zip(questions, outs):
        f = clauses(zones, q, res)
        if f is not None:
            return f
    return None


# ---------------------------------------------------------------------------------------------
# recursive and forwarding mode (resolver stream; cases from vlib/netgen.py)
# ---------------------------------------------------------------------------------------------

def net_oracle(case, impl, stats=None):
    """C01 on the implementation's output of one network-mode case: the clauses above on every reply, plus the
    exchange log: no exchange asks about a name an authoritative local zone owns, and a question local data answers
    has an empty log"""
    from . import netgen, resolvergen as rg
    if impl == "Panic":
        return ("panic", "the resolver panicked")
    try:
        c = rg.Case(case)
        parsed = rg.parse_result(impl)
        if parsed is None:
            return None
        results, _ = parsed
        zones, cache, questions = netgen.local_view(case)
        if len(results) != len(questions):
            return None
        if not any(g.has_wild_ns(z) for z in zones.values()):
            why = rg.c01_log_check(c, results)
            if stats is not None:
                stats["log: exchanges checked for owned names"] = stats.get("log: exchanges checked for owned names", 0) + sum(len(r.log) for r in results)
            if why:
                return ("upstream-asked-about-owned-name", why)
        for q, r in zip(questions, results):
            if r.kind in ("Panic", "OutOfFuel"):
                continue
            f = clauses(zones, q, g.parse_resolved(r.raw), nlog=len(r.log), cache=cache, stats=stats)
            if f is not None:
                return f
    except Exception:      # malformed output is a correspondence matter
        return None
    return None


def net_nontrivial(case, model):
    from . import resolvergen as rg
    p = rg.parse_result(model)
    return p is not None and any(r.kind in ("A", "X", "N") for r in p[0])


def extra(ctx):
    from . import netgen
    return netgen.run(ctx, ID, net_oracle, net_nontrivial)


def nontrivial(case, model):
    try:
        outs = g.parse_out(model)
    except Exception:
        return False
    return outs is not None and any(r["kind"] in ("A", "X", "N") for r, _ in outs)


def kind(case, model):
    t = case.split(" ")
    return t[5] if len(t) > 5 else "untagged"
