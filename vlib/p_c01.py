"""C01 -- local zone and hosts data always win over cache and upstream.

Two streams.  The `local` stream (DRIVER; cases from vlib/localgen.py) covers local resolution
(zones + cache, no network): dns_resolver::resolve in authoritative-only mode and
local::resolve_local, compared with the model result for result.  The network-mode stream
(hook `extra`; cases from vlib/netgen.py, run on the `resolver` drivers) covers the same
clauses in recursive and forwarding mode, plus the clauses that only exist there: no upstream
server is asked about a name an authoritative local zone owns, and a question local data
answers is answered without any upstream exchange.  THEOREMS lists the proved statements;
the theorems about the network modes are added to Properties/C01.v separately.
"""
from . import localgen as g
from .tok import CNAME, ANY, AXFR, MAILB, MAILA, IN

ID = "C01"
DRIVER = "local"
COQ_TARGETS = ["Properties/C01.vo"]
THEOREMS = ["C01_auth_zone_alone_local", "C01_owned_never_referral", "C01_cache_noninterference_local",
            "C01_cache_noninterference_owned_local", "C01_longest_zone_only", "C01_override_exact",
            "C01_override_any", "C01_prioritising_merge_spec", "C01_nxdomain_only_from_auth_zone_local",
            "C01_nxdomain_resolved_local", "C01_no_panic_no_fuel", "C01_authoritative_only_total",
            "C01_done_means_no_upstream_recursive", "C01_done_means_no_upstream_forwarding", "C01_log_names_not_owned_recursive", "C01_log_names_not_owned_forwarding", "C01_owned_local_cases", "C01_nxdomain_only_from_auth_zone_recursive", "C01_nxdomain_only_from_auth_zone_forwarding",
            "C01_cut_sound", "C01_upstream_chain_cut_recursive", "C01_upstream_cached_not_owned_recursive",
            "C01_upstream_chain_cut_forwarding", "C01_upstream_cached_not_owned_forwarding",
            "C01_upstream_chain_cut_witness_recursive", "C01_upstream_chain_cut_witness_forwarding"]
RULE = ("local stream (authoritative-only mode and resolve_local): case = a set of zones (nested apexes, authoritative and not, "
        "wildcards, CNAMEs, delegations, blocklist entries), cache contents and 3..96 questions; non-trivial = distinct case line in "
        "which at least one question is answered (not an error) from zone or cache data according to the model.  "
        "Network-mode stream (recursive in all four protocol modes, and forwarding; counted in `extra`): case = a generated universe "
        "of upstream servers x local zones that overlap it (root hints zone carrying hosts-style overrides and 0.0.0.0 / :: blocklist "
        "entries; non-authoritative zones; authoritative zones for an apex upstream also serves with DIFFERENT data, for an apex "
        "inside an upstream zone, for a private apex; CNAMEs inside and leaving the zone, wildcards, delegations to the universe's "
        "nameservers) x initial cache (CNAME chains of 1..3 links ending at a name only upstream knows, records for owned names, "
        "records of the same name and type as overrides, nameserver data) x 1..12 questions on one cache (every type incl. ANY; "
        "aliases local zone -> cache -> upstream; upstream aliases pointing into owned names; >= 1 referral before an answer); "
        "non-trivial = distinct case line in which at least one question is answered (not an error) according to the model")
ASSUMPTIONS = [
    "all three modes are exercised by streams; the theorems listed cover local resolution (the network-mode theorems "
    "done_means_no_upstream / log_names_not_owned are being added to Properties/C01.v separately and appear in THEOREMS when proved)",
    "network-mode stream: what an upstream server says is Universe.serve (the Coq definition, tabulated per case); the forwarder "
    "is modelled as one server holding every zone of the universe; no transport faults are injected (those are C08's); the "
    "candidate order is the sorted one of hook H5; the clock is fixed during a case",
    "network-mode oracle, on the implementation's output alone: (log) no logged exchange asks about a name an authoritative zone "
    "owns, and a question whose name is owned (clear-cut subclass) or that an override answers has an empty log; (i) authoritative "
    "marking for the clear-cut subclass: the name is owned and the zone does not answer it with a CNAME (a chain leaving authority "
    "is non-authoritative: D2); (ii) override exactness as in the local stream -- for ANY judged on successful replies only, since "
    "the other types are fetched upstream and an unreachable upstream fails the resolution as a whole; (iii) name errors; "
    "(provenance) every record at an owned name is the zone's",
    "the clause 'nothing from an upstream server is used for names the zone owns' is checked WITHOUT exception since fix b2bc3c2 "
    "(an upstream / forwarder alias chain that leads into a locally authoritative name is cut there and the rest resolved "
    "locally; formerly the recorded finding upstream-chain-into-owned-name, known_findings.json status fixed): every foreign "
    "record at an owned name is a violation.  The oracle still names where it came from -- class "
    "upstream-chain-into-owned-name if it stands in an upstream reply of the same resolution to a question about another name, "
    "cached-record-for-owned-name if it is initial-cache data, foreign-record-for-owned-name otherwise; the two former "
    "witnesses stay first in the network-mode stream (corpus-split-horizon, corpus-auth-vs-upstream) and now show the zone's data",
    "the cache is read at a fixed virtual instant (clock hook set to 0 and never advanced): cget = SharedCache::get on the "
    "contents inserted by the case; that get() also refreshes the LRU stamp is not observable through resolve_local",
    "Context::at_recursion_limit compares len with Vec::capacity(); the model takes capacity = RECURSION_LIMIT exactly "
    "(Vec::with_capacity(32) allocates exactly 32 slots for this element type; exercised by the chains of 31..34 links)",
    "facts about single-zone lookup (what ZoneResult a zone gives for a name) are C02's; C01's theorems are stated in "
    "terms of the zone's own result",
]
TRUSTED = ["oracle restricted (soundness): 'owned' names exclude zones holding wildcard NS records; clause (i) on the reply "
           "variant excludes names that carry a CNAME (deviation D2: a chain leaving authority is non-authoritative) -- "
           "for those only the provenance of every RR at an owned name is checked; clause (ii) excludes names beneath an NS "
           "cut of the non-authoritative zone and names that also carry a CNAME",
           "network-mode stream: hooks H3 (in-memory UdpSocket/TcpStream) and H5 (sorted candidate order) in /repo under "
           "cfg(resolved_verif); the mock handler of harness/src/resolver.rs; the reference decoder vlib/wireref.py (used to tell "
           "which upstream reply a record came from)"]


def generate(rng, tier):
    return g.generate(rng, tier, ID)


def rr_of(name, rec):
    t, ttl, d = rec
    return {"name": name, "type": t, "class": IN, "ttl": ttl, "data": d}


def covering_cname(zone, name):
    """the zone may answer a query for `name` with a CNAME: a CNAME record at the name or a wildcard CNAME above it"""
    for (w, o, t, _, _) in zone["recs"]:
        if t == CNAME and ((not w and o == name) or (w and g.is_suffix(o, name) and o != name)):
            return True
    return False


def clauses(zones, q, res, nlog=None, foreign=None, stats=None):
    """C01's sentences on one question and its reply (parsed by localgen).  nlog = None: local stream; otherwise a
    network-mode reply, nlog = number of upstream exchanges logged for the question; foreign(i, rr, text) names the
    failure class for a foreign record at an owned name (network modes tell where it came from); stats = counters of how often
    each clause applied.  -> None | (class, text)"""
    net = nlog is not None

    def count(k):
        if stats is not None:
            stats[k] = stats.get(k, 0) + 1
    n, qt = q["name"], q["qtype"]
    qs = "%s type %d" % (g.show_name(n), qt)
    if res["kind"] not in ("A", "X", "N", "E"):
        return None
    rrs = res.get("rrs", [])
    # provenance: every RR at a name an authoritative zone owns is a record of that zone
    for r in rrs:
        zo = g.owned_auth(zones, r["name"])
        if zo is not None:
            count("provenance: records at owned names")
        if zo is not None and not g.zone_may_produce(zo, r):
            text = ("question %s: the reply holds %s type %d ttl %d %s, which is not a record of the authoritative zone %s that owns the name"
                    % (qs, g.show_name(r["name"]), r["type"], r["ttl"], r["data"], g.show_name(zo["apex"])))
            klass = "foreign-record-for-owned-name" if foreign is None else foreign(rrs.index(r), r, text)
            if klass is not None:       # (None: the caller has taken note and wants the other clauses judged as well)
                return (klass, text)
    # (i) owned names are answered authoritatively, with the owning zone's SOA
    z = g.owned_auth(zones, n)
    if z is not None and (qt in (CNAME, ANY) or not covering_cname(z, n)):
        count("(i) owned, clear-cut: authoritative marking, zone's SOA" + (", empty log" if net else ""))
        if res["kind"] not in ("A", "X"):
            return ("owned-not-authoritative",
                    "question %s: the most specific zone %s is authoritative and owns the name, but the reply is %s"
                    % (qs, g.show_name(z["apex"]), res["kind"] if res["kind"] != "E" else res["err"]))
        if res["soa"] != z["soa_rr"]:
            return ("owned-wrong-soa", "question %s: reply carries an SOA that is not zone %s's" % (qs, g.show_name(z["apex"])))
        if any(r["name"] != n for r in rrs):
            return ("owned-foreign-owner", "question %s: authoritative reply holds a record of another owner" % qs)
        if net and nlog:
            return ("owned-with-upstream-contact", "question %s: zone %s owns the name, yet %d upstream exchange(s) were made"
                    % (qs, g.show_name(z["apex"]), nlog))
    # (ii) a non-authoritative zone holding records of the asked name (and type) overrides
    zn = g.zone_for(zones, n)
    if zn is not None and zn["soa_rr"] is None and not g.beneath_cut(zn, n) and not g.has_wild_ns(zn):
        if qt == ANY:
            here = g.recs_at(zn, n)
            if here and not (net and res["kind"] == "E"):
                # (network modes: an ANY question goes upstream for the other types; when upstream cannot be
                # reached the resolution fails as a whole -- not a substitution, not judged here)
                count("(ii) override, ANY")
                if res["kind"] != "N":
                    return ("override-lost", "question %s: the non-authoritative zone holds records of the name but the reply is %s" % (qs, res["kind"]))
                for t in sorted({r[0] for r in here}):
                    want = [rr_of(n, r) for r in here if r[0] == t]
                    got = [r for r in rrs if r["name"] == n and r["type"] == t]
                    if got != want:
                        return ("override-mixed",
                                "question %s: records of type %d at the name are %d in the reply but the zone holds %d -- cached or upstream records of a (name, type) the zone has were added or substituted"
                                % (qs, t, len(got), len(want)))
        elif qt not in (AXFR, MAILB, MAILA):
            here = g.recs_at(zn, n, qt)
            if here and (qt == CNAME or not g.recs_at(zn, n, CNAME)):
                want = [rr_of(n, r) for r in here]
                count("(ii) override, exact" + (", empty log" if net else ""))
                if res["kind"] != "N" or rrs != want or res["soa"] is not None:
                    return ("override-not-exact",
                            "question %s: the non-authoritative zone %s holds %d record(s) of that name and type; the reply is %s with %d record(s)"
                            % (qs, g.show_name(zn["apex"]), len(want), res["kind"], len(rrs)))
                if net and nlog:
                    return ("override-with-upstream-contact",
                            "question %s: the non-authoritative zone %s answers it, yet %d upstream exchange(s) were made"
                            % (qs, g.show_name(zn["apex"]), nlog))
    # (iii) a name error only on the word of an authoritative zone
    if res["kind"] == "X":
        count("(iii) name errors")
        if zn is None or zn["soa_rr"] is None:
            return ("nxdomain-without-authority", "question %s: name error although the most specific zone is not authoritative" % qs)
        if g.node_exists(zn, n):
            return ("nxdomain-for-existing-name", "question %s: name error although zone %s has records at or beneath the name" % (qs, g.show_name(zn["apex"])))
        if res["soa"] != zn["soa_rr"]:
            return ("nxdomain-wrong-soa", "question %s: name error carries another zone's SOA" % qs)
    return None


def oracle(case, impl, model):
    try:
        zones, cache, questions = g.parse_case(case)
        outs = g.parse_out(impl)
    except Exception:
        return None
    if outs is None or len(outs) != len(questions):
        return None
    for q, (res, loc) in zip(questions, outs):
        f = clauses(zones, q, res)
        if f is not None:
            return f
    return None


# ---------------------------------------------------------------------------------------------
# recursive and forwarding mode (resolver stream; cases from vlib/netgen.py)
# ---------------------------------------------------------------------------------------------

def net_oracle(case, impl, stats=None):
    """C01 on the implementation's output of one network-mode case: the clauses above on every reply, plus the
    exchange log: no exchange asks about a name an authoritative local zone owns, and a question local data answers
    has an empty log"""
    from . import netgen, resolvergen as rg
    if impl == "Panic":
        return ("panic", "the resolver panicked")
    try:
        c = rg.Case(case)
        parsed = rg.parse_result(impl)
        if parsed is None:
            return None
        results, _ = parsed
        zones, cache, questions = netgen.local_view(case)
        if len(results) != len(questions):
            return None
        if not any(g.has_wild_ns(z) for z in zones.values()):
            why = rg.c01_log_check(c, results)
            if stats is not None:
                stats["log: exchanges checked for owned names"] = stats.get("log: exchanges checked for owned names", 0) + sum(len(r.log) for r in results)
            if why:
                return ("upstream-asked-about-owned-name", why)
        for q, r in zip(questions, results):
            if r.kind in ("Panic", "OutOfFuel"):
                continue

            def foreign(i, rr, text, r=r):
                """where a record at an owned name that is not the zone's came from"""
                if any(x["name"] == rr["name"] and x["type"] == rr["type"] and x["data"] == rr["data"] for x in cache):
                    return "cached-record-for-owned-name"
                # the former known finding of C01 (fixed by b2bc3c2: cut_at_local_authority), an ordinary failure
                # class now: the record stands in the answer section of an upstream reply of THIS resolution to a
                # question about another name -- the reply carried its own alias chain into the owned name
                for e in r.log:
                    ans = netgen.reply_answers(c, e)
                    if ans and r.rrs[i] in ans and g.labels_of(e.qname) != rr["name"]:
                        return "upstream-chain-into-owned-name"
                return "foreign-record-for-owned-name"
            f = clauses(zones, q, g.parse_resolved(r.raw), nlog=len(r.log), foreign=foreign, stats=stats)
            if f is not None:
                return f
    except Exception:      # malformed output is a correspondence matter
        return None
    return None


def net_nontrivial(case, model):
    from . import resolvergen as rg
    p = rg.parse_result(model)
    return p is not None and any(r.kind in ("A", "X", "N") for r in p[0])


def extra(ctx):
    from . import netgen
    return netgen.run(ctx, ID, net_oracle, net_nontrivial)


def nontrivial(case, model):
    try:
        outs = g.parse_out(model)
    except Exception:
        return False
    return outs is not None and any(r["kind"] in ("A", "X", "N") for r, _ in outs)


def kind(case, model):
    t = case.split(" ")
    return t[5] if len(t) > 5 else "untagged"
