"""C08 -- every resolution terminates in bounded time whatever upstream servers do."""
import itertools

from . import resolvergen as rg
from . import tok

ID = "C08"
DRIVER = "resolver"
ML_EXTRA = ("vmsg.ml",)
COQ_TARGETS = ["Properties/C08.vo"]
THEOREMS = ["C08_udp_exchange_cost_bounded", "C08_tcp_exchange_cost_bounded", "C08_charge_within_budget",
            "C08_udp_exchange_time", "C08_tcp_exchange_time", "C08_query_nameserver_time",
            "C08_recursive_terminates", "C08_forwarding_terminates", "C08_recursive_no_panic", "C08_forwarding_no_panic", "C08_answer_provenance_recursive", "C08_answer_provenance_forwarding", "C08_simple_cache_laws", "C08_real_cache_laws", "C08_answer_provenance_recursive_real_cache"]
RULE = ("cases: every assignment of a fault from an alphabet of 10 (drop, delay 1.5 s, delay 7 s, garbage, truncation, wrong id, "
        "TC, SERVFAIL, refused, truncated-and-open TCP stream) to the first k <= 3 exchanges of a recursive resolution "
        "(1110 sequences, three base universes in rotation) and to the first k <= 2 of a forwarded one (110), plus random "
        "plans over a wider alphabet (delays up to 70 s, exact time-out ties, lying TCP length prefixes, QR clear, other rcodes) on "
        "random universes with lame, dead, circular, upward-referring delegations, alias loops, 40-link alias chains and "
        "unresolvable nameserver names, both modes; non-trivial = distinct case whose log has at least one exchange hit by a fault "
        "or a universe fault")
ASSUMPTIONS = [
    "runtime clauses outside the model: that tokio's timeout really fires, cancellation safety, real sockets (the stream runs "
    "the real code on tokio's paused clock over the in-memory sockets of hook H3)",
    "provenance oracle: 'supplied by an upstream reply' is checked against the records of the replies the universe table holds "
    "for the case (decoded by the independent reference decoder vlib/wireref.py) -- every reply the mock sends is one of them, "
    "cut or with header bits changed, or bytes that do not decode; the log carries length and hash of what was actually sent",
]
TRUSTED = ["hooks H3 (in-memory UdpSocket/TcpStream) and H5 (sorted candidate order) in /repo under cfg(resolved_verif); "
           "the mock handler of harness/src/resolver.rs (mirrors Universe.reply_of / table_oracle); tokio's paused clock"]


def base_universes():
    import random
    out = []
    for seed, depth, prov in ((101, 2, False), (102, 1, False), (103, 3, True)):
        r = random.Random(seed)
        u = rg.gen_universe(r, depth=depth, provider=prov, max_ns=2)
        out.append(u)
    return out


def generate(rng, tier):
    batch = rg.Batch()
    builders = []

    def add(u, mode, qs, faults, kind, extra=None, fwd=None, port=53):
        builders.append(rg.CaseBuilder(batch, u, mode, port, qs, faults=faults, flags={"kind": kind, "ff": "0"},
                                       extra_servers=extra, forwarder_ip=fwd))

    bases = base_universes()
    fwd_ip = rg.v4(0x0A0000FD)
    # corpus: exact ties with the 5 s and the 60 s time-outs; the F10 witness (reply cut after the question, ANCOUNT kept)
    u5 = rg.gen_universe(__import__("random").Random(7), depth=5, provider=False, fams=("4",), max_ns=1)
    q5 = [("www.x.deep.sub.example.com.", tok.A)]
    tie = {}
    for i in range(6):
        tie[2 * i] = "drop"
        tie[2 * i + 1] = "delay5000"
    add(u5, "r4", q5, rg.fault_plan(tie), "corpus-budget-tie")
    t2 = dict(tie)
    t2[11] = "delay5001"
    add(u5, "r4", q5, rg.fault_plan(t2), "corpus-budget-over")
    add(u5, "r4", q5, rg.fault_plan({0: "delay5000"}), "corpus-udp-tie")
    add(u5, "r4", q5, rg.fault_plan({0: "delay5001", 1: "delay5000"}), "corpus-tcp-tie")
    # a resolution that really runs out of its 60 s: every UDP datagram is lost, every TCP reply takes 4.9 s
    import random as _random
    for seed in range(20, 60):
        us = rg.gen_universe(_random.Random(seed), depth=5, provider=False, fams=("4",), max_ns=1)
        if us.other:
            break
    slow = {}
    for n in range(0, 40, 2):
        slow[n] = "drop"
        slow[n + 1] = "delay4900"
    add(us, "r4", [("ext.x.deep.sub.example.com.", tok.A), ("www.com.", tok.A)], rg.fault_plan(slow), "corpus-timeout")
    add(us, "f%s@53" % fwd_ip, [("www.com.", tok.A)], rg.fault_plan({0: "delay70000"}), "corpus-fwd-slow", fwd=fwd_ip)
    ub = bases[0]
    qb = [("www." + ub.chain[-1], tok.A)]
    for n in (12, 12 + 4 + len(ub.chain[-1]) + 4 + 1, 40, 60):
        add(ub, "f%s@53" % fwd_ip, qb, rg.fault_plan({0: "trunc%d" % n, 1: "refuse"}), "corpus-f10", fwd=fwd_ip)
    # exhaustive: recursive, k <= 3
    i = 0
    for k in (1, 2, 3):
        for seq in itertools.product(rg.FAULT_ALPHABET, repeat=k):
            u = bases[i % len(bases)]
            i += 1
            add(u, "rp4", [("www." + u.chain[-1], tok.A)], rg.fault_plan(dict(enumerate(seq))), "exh-rec-k%d" % k)
    # exhaustive: forwarding, k <= 2
    for k in (1, 2):
        for seq in itertools.product(rg.FAULT_ALPHABET, repeat=k):
            u = bases[i % len(bases)]
            i += 1
            add(u, "f%s@53" % fwd_ip, [("alias." + u.chain[-1], tok.A)], rg.fault_plan(dict(enumerate(seq))), "exh-fwd-k%d" % k,
                fwd=fwd_ip)
    if tier != "quick":
        for seq in itertools.product(rg.FAULT_ALPHABET, repeat=4):
            u = bases[i % len(bases)]
            i += 1
            add(u, "rp6", [("ext." + u.chain[-1] if u.other else "www." + u.chain[-1], tok.A)],
                rg.fault_plan(dict(enumerate(seq))), "exh-rec-k4")
    # random: universe faults + random plans
    nrand = 330 if tier == "quick" else 20000
    alphabet = rg.FAULT_ALPHABET + rg.FAULT_EXTRA
    for j in range(nrand):
        slow = rng.random() < 0.12
        if slow:
            u = rg.gen_universe(rng, depth=rng.choice([4, 5]), provider=True, max_ns=rng.choice([1, 2, 3]))
        else:
            u = rg.gen_universe(rng, depth=rng.choice([1, 2, 3, 4]), max_ns=rng.choice([1, 2, 3]))
        extra = {}
        uf = "none"
        if rng.random() < (0.3 if slow else 0.7):
            uf = rng.choice(rg.UNIVERSE_FAULTS)
            extra = rg.mutate_universe(rng, u, uf)
        nf = rng.choice([0, 1, 2, 3, 5, 8])
        plan = {}
        if slow:
            # a slow universe: every exchange takes seconds
            uf = uf + "-slow"
            nf = rng.choice([0, 0, 1])
            lossy = rng.random() < 0.6        # every UDP datagram lost, the TCP reply slow
            for n in range(60):
                plan[n] = "drop" if lossy and n % 2 == 0 else "delay%d" % rng.randint(3500, 4999)
        for _ in range(nf):
            plan[rng.randint(0, 14)] = rng.choice(alphabet)
        qs = [(a, b) for a, b, _ in (rng.choice(u.questions[-14:] if rng.random() < 0.6 and not slow else u.questions) for _ in range(rng.choice([1, 1, 2, 3])))]
        if rng.random() < 0.25:
            ip = rg.v6(0xFD) if rng.random() < 0.3 else fwd_ip
            add(u, "f%s@53" % ip, qs, rg.fault_plan(plan), "rnd-fwd-" + uf, extra=extra, fwd=ip)
        else:
            add(u, rng.choice(["r4", "rp4", "rp6", "r6"]), qs, rg.fault_plan(plan), "rnd-rec-" + uf, extra=extra)
    # aliases in circles and over-long chains held LOCALLY (zones, cache) and upstream, entered from any side,
    # in recursive and forwarding mode: every resolution must end (error or partial chain), never crash or hang
    from . import netgen
    k = 70 if tier == "quick" else 3000
    while k > 0:
        un = netgen.base_universe(rng, depth=rng.choice([1, 2, 3]), max_ns=rng.choice([1, 2]))
        parts = rng.choice([netgen.sc_loops, netgen.sc_loops, netgen.sc_long, netgen.sc_cachechain, netgen.sc_cross])(rng, un)
        mode, fwd = netgen.pick_mode(rng, forwarding=(rng.random() < 0.5))
        builders.append(netgen.build(batch, un, parts, mode, fwd, rng, hints=True))
        k -= 1
    outs = batch.run()
    return [b.line(outs) for b in builders]


_POOLS = {}


def reply_pool(case):
    """rr tokens of every reply the table holds (reference decoder), of the local zones and of the initial cache"""
    from . import msgtok, wireref
    key = hash((case.table_tok, case.zones_tok, case.cache_tok))
    p = _POOLS.get(key)
    if p is not None:
        return p
    pool = set()
    wild = set()
    if case.table_tok != "_":
        for e in case.table_tok.split("+"):
            hx = e.rsplit("=", 1)[1]
            st, m = wireref.decode(bytes.fromhex(hx))
            if st == "ok":
                for sec in m[2:5]:
                    for r in sec:
                        pool.add(msgtok.rrtok(r))
    for apex, auth, recs in case.local_zones():
        pass
    if case.zones_tok != "_":
        for z in case.zones_tok.split("|"):
            apex, soa, ops = z.split("~")
            minimum = 0
            if soa != "N":
                minimum = int(soa.split(",")[-1])
                pool.add("%s:6:1:%d:%s" % (apex, minimum, soa))
            if ops != "_":
                for op in ops.split("+"):
                    r = tok.parse_rr(op[1:])
                    ttl = max(r["ttl"], minimum) if soa != "N" else r["ttl"]
                    if op[0] == "W":
                        wild.add((r["type"], ttl, r["data"]))
                    else:
                        pool.add("%s:%d:1:%d:%s" % (r["name"], r["type"], ttl, r["data"]))
    if case.cache_tok != "_":
        for x in case.cache_tok.split(";"):
            r = tok.parse_rr(x)
            pool.add("%s:%d:1:%d:%s" % (r["name"], r["type"], r["ttl"], r["data"]))
    if len(_POOLS) > 64:
        _POOLS.clear()
    _POOLS[key] = (pool, wild)
    return pool, wild


def oracle(case, impl, model):
    try:
        c = rg.Case(case)
    except Exception:
        return None
    if impl == "Panic":
        return ("panic", "the resolver panicked")
    if impl.startswith("DRIVER-DIED"):
        return ("no-completion", "the resolution did not complete (driver died or hung)")
    try:
        parsed = rg.parse_result(impl)
        if parsed is None:
            return None
        results, _cache = parsed
        pool = None
        for (qn, qt, qc), r in zip(c.questions, results):
            what = "%s type %d" % (rg.tokname(qn), qt)
            if r.kind == "Panic":
                return ("panic", "%s: the resolver panicked" % what)
            if r.elapsed > 60001:
                return ("over-budget", "%s: took %d ms of virtual time" % (what, r.elapsed))
            starts = [e.ms for e in r.log if e.kind in "UC"] + [r.elapsed]
            for a, b in zip(starts, starts[1:]):
                if b - a > 5000:
                    return ("exchange-over-5s", "%s: an upstream exchange took %d ms" % (what, b - a))
            if r.rrs or r.soa:
                if pool is None:
                    pool = reply_pool(c)
                for x in r.rrs + ([r.soa] if r.soa else []):
                    if x not in pool[0]:
                        rr = tok.parse_rr(x)
                        if (rr["type"], rr["ttl"], rr["data"]) in pool[1]:
                            continue
                        return ("fabricated-record", "%s: returned %s, which neither an upstream reply nor local data supplied" % (what, x))
    except Exception:  # malformed output is a correspondence matter
        return None
    return None


def nontrivial(case, model):
    c = rg.Case(case)
    p = rg.parse_result(model)
    if p is None:
        return False
    if "-none" not in c.flags.get("kind", "") and c.flags.get("kind", "").startswith("rnd"):
        return any(r.log for r in p[0])
    planned = {int(x.split(":")[0]) for x in c.faults_tok.split("+")} if c.faults_tok != "_" else set()
    return any(e.n in planned for r in p[0] for e in r.log)


def kind(case, model):
    c = rg.Case(case)
    p = rg.parse_result(model)
    tag = "?"
    if p:
        tag = "".join(sorted({(r.error.split(":")[0] if r.kind == "E" else r.kind) for r in p[0]}))
    k = c.flags.get("kind", "?")
    return "%s:%s" % (k, tag)
