"""C15 -- cache pruning is exact, bounded and least-recently-used; the record count is the number of
distinct entries (also at quiescence after concurrent use)."""
import os
import re
import subprocess

from . import cachegen as cg
from . import core

ID = "C15"
DRIVER = "cache"
COQ_TARGETS = ["Properties/C15.vo"]
THEOREMS = ["C15_inv_init", "C15_inv_preserved", "C15_inv_after_history", "C15_history_never_panics", "C15_prune_terminates", "C15_prune_no_expired_left", "C15_prune_at_most_desired", "C15_prune_refines", "C15_prune_in_history", "C15_count_is_distinct_entries", "C15_count_after_history", "C15_step_refines", "C15_expired_count_tie_independent", "C15_tb_first_ok",
            "C15_concurrent_invariant", "C15_concurrent_is_history", "C15_concurrent_mutual_exclusion"]
RULE = (cg.RULE_GEN + "; non-trivial = distinct history with at least 3 operations other than clock steps; the concurrency "
        "supplement counts one evaluation per run of 2..8 threads on one SharedCache whose quiescent dump was checked")
ASSUMPTIONS = [
    "thread schedules and std::sync::Mutex are not modelled: every SharedCache method is one critical section (the thorough "
    "tier hammers one cache from 2..8 threads and checks the structural invariant at quiescence)",
    "PriorityQueue tie-breaking among equal instants is not modelled (a parameter of the model): the generator avoids "
    "last_read ties; expiry ties do not affect the sorted dump",
    "'last inserted' means the last insertion with TTL > 0 through SharedCache: a TTL-0 insert is a no-op and does not "
    "shorten the life of a record already cached",
]
TRUSTED = ["hooks H1/H2 in /repo under cfg(resolved_verif): the virtual clock (verif::clock) and the read-only state dump "
           "(verif_dump) of the cache"]


def generate(rng, tier):
    return cg.generate(rng, tier, "C15")


def invariant(d, desired=None):
    """structural invariant (a) of one dump -> None | (class, text, internal?)"""
    ents = d.entries()
    keys = set((n, t, r) for n, t, r, e in ents)
    if len(keys) != len(ents):
        return ("count-mismatch", "an entry (name, type, data) is held twice", False)
    if d.current != len(ents):
        return ("count-mismatch", "current_size %d but %d distinct entries are held" % (d.current, len(ents)), False)
    if desired is not None and d.desired != desired:
        return ("desired-size-changed", "desired size %d became %d" % (desired, d.desired), True)
    for n, (lr, ne, sz, recs) in d.parts.items():
        exps = [e for t, ts in recs for r, e in ts]
        if sz != len(exps):
            return ("partition-size-mismatch", "partition %s: size %d but %d entries" % (n, sz, len(exps)), True)
        if sz < 1:
            return ("empty-partition", "partition %s holds no record" % n, True)
        if len(set(t for t, ts in recs)) != len(recs):
            return ("partition-size-mismatch", "partition %s lists a type twice" % n, True)
        if ne != min(exps):
            return ("next-expiry-not-min", "partition %s: next_expiry %d, earliest expiry %d" % (n, ne, min(exps)), True)
    acc = dict(d.access)
    exq = dict(d.expiry)
    if len(acc) != len(d.access) or acc != {n: p[0] for n, p in d.parts.items()}:
        return ("access-queue-mismatch", "the access queue is not {name: last_read} of the partitions", True)
    if len(exq) != len(d.expiry) or exq != {n: p[1] for n, p in d.parts.items()}:
        return ("expiry-queue-mismatch", "the expiry queue is not {name: next_expiry} of the partitions", True)
    return None


def check_prune(now, before, out, after):
    """(b): what the property text says about one prune -> None | (class, text)"""
    _, ov, cur, nexp, npruned = out
    desired = before.desired
    left = [x for x in after.entries() if x[3] <= now]
    if left:
        n, t, r, e = left[0]
        return ("prune-leaves-expired", "after prune at %d the record %s %d %s (expired at %d) is still held" % (now, n, t, r, e))
    if after.current > desired or len(after.entries()) > desired:
        return ("prune-over-size", "after prune %d records are held, desired size %d" % (len(after.entries()), desired))
    if bool(ov) != (before.current > desired):
        return ("prune-misreports", "has_overflowed=%d with %d records before and desired size %d" % (ov, before.current, desired))
    if cur != after.current:
        return ("prune-misreports", "prune reports current size %d, the cache holds %d" % (cur, after.current))
    bents = before.entries()
    expired = [x for x in bents if x[3] <= now]
    if nexp != len(expired):
        return ("prune-misreports", "prune at %d reports %d expired, %d held records had expired" % (now, nexp, len(expired)))
    if npruned != before.current - len(expired) - after.current:
        return ("prune-misreports", "prune reports %d evicted; before %d, expired %d, after %d"
                % (npruned, before.current, len(expired), after.current))
    bmap = {(n, t, r): e for n, t, r, e in bents}
    for n, t, r, e in after.entries():
        if bmap.get((n, t, r)) != e:
            return ("prune-changes-records", "prune added or changed the record %s %d %s" % (n, t, r))
    akeys = set((n, t, r) for n, t, r, e in after.entries())
    live = {}      # name -> live entries before
    for n, t, r, e in bents:
        if e > now:
            live.setdefault(n, []).append((n, t, r))
    evicted = []
    for n, ks in live.items():
        gone = [k for k in ks if k not in akeys]
        if not gone:
            continue
        if len(gone) != len(ks) or n in after.parts:
            return ("prune-partial-name", "prune evicted %s but kept other live records of %s" % (gone[0], n))
        evicted.append(n)
    nlive = sum(len(ks) for ks in live.values())
    if evicted:
        if nlive <= desired:
            return ("prune-evicts-under-size", "prune evicted %s although only %d live records were held (desired size %d)"
                    % (evicted[0], nlive, desired))
        lr = {n: before.parts[n][0] for n in live}
        worst = max(lr[n] for n in evicted)
        for n in after.parts:
            if n in before.parts and before.parts[n][0] < worst:
                return ("prune-not-lru", "prune kept %s (last read %d) and evicted a name last read at %d"
                        % (n, before.parts[n][0], worst))
        total = sum(len(live[n]) for n in evicted)
        if not any(nlive - (total - len(live[n])) > desired for n in evicted if lr[n] == worst):
            return ("prune-evicts-under-size", "prune went on evicting after reaching the desired size %d (%d live, %d evicted)"
                    % (desired, nlive, total))
    return None


def _check(case, steps):
    desired = cg.parse_case(case)[0]
    internal = None
    for op, now, before, out, after in steps:
        if op[0] == "P":
            f = check_prune(now, before, out, after)
            if f:
                return f
        f = invariant(after, desired)
        if f:
            if not f[2]:
                return (f[0], "after %s at %d: %s" % (op[0], now, f[1]))
            if internal is None:
                internal = (f[0], "after %s at %d: %s" % (op[0], now, f[1]))
    # a failure of the property text (prune, record count) anywhere in the history is reported in
    # preference to an earlier violation of one of the code's internal invariants
    return internal


def oracle(case, impl, model):
    if impl == "Panic":
        return ("panic", "a cache operation panicked")
    if impl == "OutOfFuel":
        return ("no-termination", "a cache operation did not terminate")
    try:
        steps = cg.replay(case, impl)
        if steps is None:
            return None
        return _check(case, steps)
    except Exception:  # malformed output is a correspondence matter
        return None


def nontrivial(case, model):
    return cg.n_real_ops(case) >= 3


_PR = re.compile(r"(?:^|\|)P[01],\d+,(\d+),(\d+)!")


def kind(case, model):
    if "!" not in model:
        return "whole-line:" + model.split(" ")[0][:12]
    ev = ex = anyp = False
    for m in _PR.finditer(model):
        anyp = True
        if m.group(1) != "0":
            ex = True
        if m.group(2) != "0":
            ev = True
    what = ("evict+expire" if ev and ex else "evict" if ev else "expire" if ex else "prune-noop" if anyp else "no-prune")
    return cg.size_class(case) + ":" + what


def extra(ctx):
    """Concurrency supplement: 2..8 threads use one SharedCache (and move the clock); the invariant
    is checked on the quiescent state.  Thorough: 196 runs of 2000 operations per thread; quick: 8
    short runs so that the path is exercised."""
    lines = cg.concurrent_lines(ctx["rng"], ctx["tier"])
    outs = core.run_sharded(core.impl_driver_path(DRIVER), lines, ctx["run_dir"], "conc",
                            nshards=(4 if len(lines) >= 16 else 1), timeout=1500)
    fails = []
    checked = 0
    records = 0
    for c, o in zip(lines, outs):
        if o == "Panic":
            fails.append(core.Failure("panic", "a cache operation panicked under concurrent use", c, o))
            continue
        try:
            now, bang, d = o.partition("!")
            int(now)
            dump = cg.parse_dump(d)
        except Exception:
            fails.append(core.Failure("concurrent-invariant", "no dump of the quiescent state: " + core.trunc(o, 200), c, o,
                                      found_input=False))
            continue
        checked += 1
        records += len(dump.entries())
        f = invariant(dump, int(c.split(" ")[2]))
        if f:
            fails.append(core.Failure("concurrent-invariant", "quiescent state after concurrent use: %s: %s" % (f[0], f[1]), c, o))
    return fails, {"evaluations": len(lines), "distinct_nontrivial": checked, "concurrent_runs": len(lines),
                   "quiescent_dumps_checked": checked, "records_in_quiescent_dumps": records}


# --------------------------------------------------------------------------------------------------
# "prune ... reports the true numbers of records expired, evicted and remaining": the server reports them
# through its metrics (main.rs prune_cache_and_update_metrics is one of the property's anchors).  A real
# release `resolved` in forwarding mode in front of a fake UDP upstream; a fixed history whose expected
# numbers follow from the cache model's theorems (prune_reports_truth) -- here computed by hand:
#   cache size 2; q1,q2,q3 (TTL 300, three names)  -> after q3: 3 records, evict the LRU name: pruned 1, size 2
#   q4 (TTL 1)                                     -> 3 records, evict LRU: pruned 2, size 2
#   wait 1.3 s; q5 (TTL 300)                       -> insert (3), prune: expired 1 (q4's), size 2, nothing evicted
# expected: cache_expired_total 1, cache_pruned_total 2, cache_size 2.
# --------------------------------------------------------------------------------------------------

def _metrics_probe(ctx):
    import socket
    import threading
    import time
    import urllib.request
    from . import core, p_c09, tok
    ok, out = p_c09.build_release_binaries()
    if not ok:
        return [core.Failure("metrics-probe-build-failed", "release build of resolved failed: " + core.trunc(out[-600:], 600), found_input=False)], {}
    ttls = {b"n4": 1}
    up = socket.socket(socket.AF_INET, socket.SOCK_DGRAM)
    up.bind(("127.0.0.1", 0))
    up.settimeout(0.2)
    up_port = up.getsockname()[1]
    stop = []

    def serve():
        while not stop:
            try:
                data, peer = up.recvfrom(2048)
            except OSError:
                continue
            if len(data) < 17:
                continue
            # question name's first label decides the TTL; answer: <qname> A 10.0.0.1
            first = data[13:13 + data[12]]
            qend = 12
            while data[qend] != 0:
                qend += 1 + data[qend]
            qend += 5
            ttl = ttls.get(first, 300)
            reply = data[:2] + b"\x81\x80" + b"\x00\x01\x00\x01\x00\x00\x00\x00" + data[12:qend] \
                + b"\xc0\x0c\x00\x01\x00\x01" + ttl.to_bytes(4, "big") + b"\x00\x04\x0a\x00\x00\x01"
            up.sendto(reply, peer)
    th = threading.Thread(target=serve, daemon=True)
    th.start()
    port = p_c09.free_port_pair()
    mport = p_c09.free_port_pair()
    workdir = os.path.join(ctx["run_dir"], "c15-metrics")
    os.makedirs(workdir, exist_ok=True)
    log = open(os.path.join(workdir, "server.log"), "w")
    env = {k: v for k, v in os.environ.items() if not k.startswith("RESOLVED_") and k != "RUST_LOG"}
    env["RUST_LOG"] = "warn"
    proc = subprocess.Popen([p_c09.server_binary_path(), "-i", "127.0.0.1:%d" % port, "--metrics-address", "127.0.0.1:%d" % mport,
                             "-s", "2", "-f", "127.0.0.1:%d" % up_port], stdout=log, stderr=subprocess.STDOUT, env=env)
    fails = []
    info = {}
    try:
        def ask(label):
            q = p_c09.simple_query("%s.metrics.test." % label, tok.A, ident=0x5151, rd=1)
            for _ in range(40):
                s = socket.socket(socket.AF_INET, socket.SOCK_DGRAM)
                try:
                    s.settimeout(0.5)
                    s.sendto(q, ("127.0.0.1", port))
                    r = s.recv(2048)
                    if r[:2] == q[:2]:
                        return r
                except OSError:
                    pass
                finally:
                    s.close()
                if proc.poll() is not None:
                    return None
                time.sleep(0.05)
            return None
        for label in ("n1", "n2", "n3", "n4"):
            if ask(label) is None:
                return [core.Failure("metrics-probe-broken", "resolved (forwarding mode) did not answer %s" % label, found_input=False)], info
            time.sleep(0.02)
        time.sleep(1.3)
        if ask("n5") is None:
            return [core.Failure("metrics-probe-broken", "resolved (forwarding mode) did not answer n5", found_input=False)], info
        text = urllib.request.urlopen("http://127.0.0.1:%d/metrics" % mport, timeout=5).read().decode()
        vals = {}
        for line in text.splitlines():
            if line.startswith("#") or " " not in line:
                continue
            k, v = line.rsplit(" ", 1)
            if k in ("cache_expired_total", "cache_pruned_total", "cache_size", "cache_overflow_count"):
                vals[k] = float(v)
        info = {"metrics_probe": vals}
        want = {"cache_expired_total": 1.0, "cache_pruned_total": 2.0, "cache_size": 2.0}
        for k, v in want.items():
            if vals.get(k) != v:
                fails.append(core.Failure("metrics-misreport-prune",
                                          "after the history q1 q2 q3 q4(ttl 1) wait q5 with cache size 2 the server reports %s (expected "
                                          "expired 1, pruned 2, size 2)" % vals,
                                          case="C15-metrics-probe size=2 history=n1,n2,n3,n4(ttl1),sleep1.3,n5", impl=str(vals)))
                break
        info["evaluations"] = 5
        info["distinct_nontrivial"] = 5
    finally:
        stop.append(1)
        try:
            proc.kill()
            proc.wait(timeout=5)
            log.close()
            up.close()
        except Exception:
            pass
    return fails, info


_prev_extra = globals().get("extra")


def extra(ctx):
    fails, info = ([], {})
    if _prev_extra is not None:
        fails, info = _prev_extra(ctx)
    f2, i2 = _metrics_probe(ctx)
    info = dict(info)
    info["metrics"] = i2.get("metrics_probe")
    info["evaluations"] = info.get("evaluations", 0) + i2.get("evaluations", 0)
    info["distinct_nontrivial"] = info.get("distinct_nontrivial", 0) + i2.get("distinct_nontrivial", 0)
    return fails + f2, info
