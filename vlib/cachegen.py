"""Shared helper of the "cache" stream (C05, C15): case generator, result parser, replay.

Stream syntax: see /verif/ocaml/drv_cache.ml.  Every history starts with the
virtual clock at 0.

Generator rules (relied upon by the model/impl comparison, NOT by the oracles,
which are sound for any history):
  * every non-T op is preceded by a T op with dt >= 1, so two different ops never
    give two names the same last_read;
  * insert_all gives all the names it touches the same last_read, and which of two
    names with equal last_read an over-size prune evicts first depends on the
    PriorityQueue's heap layout.  `ia[name]` remembers the last A op that touched the
    name (ttl > 0) and has not been superseded by a later I (ttl > 0) or ANY lookup of
    that name; before every P all names but one of each group sharing an A op are
    read with an ANY lookup at distinct instants;
  * the hook's clock is a u64 of nanoseconds: the clock stays at or below MAXNOW = 2^63 and
    no expiry exceeds LIMIT = 2^64 - 1 (ocaml/drv_cache.ml prints instants with arbitrary
    precision, so several TTL 2^32-1 lifetimes (4.29e18 ns each) fit in one history).
"""
from . import tok

A, NS, MX, TXT, AAAA = tok.A, tok.NS, tok.MX, tok.TXT, tok.AAAA
ANY = tok.ANY
U32MAX = 2 ** 32 - 1
S = 10 ** 9
LIMIT = 2 ** 64 - 1            # no expiry instant above this (the hook's clock is a u64 of ns)
MAXNOW = 2 ** 63               # the clock stays below this; MAXNOW + 2^32 s < LIMIT, so any TTL can always be inserted

NAMES = [tok.name("a."), tok.name("b."), tok.name("c.a."), tok.name("d.")]
MISS_NAME = tok.name("e.")
_M = tok.name("m.")
TYPES = [A, NS, MX, TXT]
VALUES = {
    A: [tok.rd_a(16909060), tok.rd_a(1), tok.rd_a(U32MAX)],
    NS: [tok.rd_name(tok.name("n.")), tok.rd_name(tok.name("o.")), tok.rd_name(NAMES[0])],
    MX: [tok.rd_mx(10, _M), tok.rd_mx(0, _M), tok.rd_mx(65535, NAMES[2])],
    TXT: [tok.rd_octets(b""), tok.rd_octets([1]), tok.rd_octets([255, 0])],
}
TTLS = [0, 1, 2, 5, 300, U32MAX]
SIZES = [0, 1, 1, 2, 2, 2, 5, 5, 5, 512, 512]
DTS = [1, 1, 1, 2, 2, 1000, 1000, 499999999, 500000000, 999999998, 999999999, 1000000000, 1000000001,
       2000000000, 5000000000, 10000000000]

WITNESS = ("cache H 10 T~1|I~61.-:1:1:1:a16909060|T~1|I~61.-:15:1:2:x10,6d.-|T~1|I~61.-:1:1:100:a16909060|"
           "T~2500000000|P")

# histories per tier.  core.py keeps every model and impl output line in memory (about 6.5 KB per
# history each) and python parses every impl line once in the oracle.  Measured on the 16-core
# sandbox while other builds were running (load average ~10): ./check C05 --tier thorough with
# 100000 histories: 85 s wall, 1.5 GB peak RSS; ./check C15 --tier thorough with 300000: 9 min 23 s,
# 4.1 GB (the concurrency supplement is 2 s of that).  200000 keeps the thorough check around
# 3-6 minutes and 3 GB, well inside the 15 min / 8 GB budget.
COUNTS = {"quick": 2000, "thorough": 200000}


# --------------------------------------------------------------------------
# history builder
# --------------------------------------------------------------------------

class Hist:
    """Builds one history.  Every op method first emits `T~dt` (dt >= 1)."""

    def __init__(self, desired, rng=None):
        self.desired = desired
        self.rng = rng
        self.ops = []
        self.now = 0
        self.exps = []     # expiry instants of records inserted so far (ttl > 0)
        self.keys = []     # (name, type, rdata) inserted so far
        self.ia = {}
        self.aidx = 0

    def T(self, dt):
        assert dt >= 1 and self.now + dt <= MAXNOW + 10 ** 12, (dt, self.now)
        self.ops.append("T~%d" % dt)
        self.now += dt

    def to(self, instant):
        """advance the clock to an absolute instant"""
        self.T(instant - self.now)

    def clamp(self, ttl, dt):
        """the TTL to use for an insert made dt after now (see LIMIT)"""
        return ttl if self.now + dt + ttl * S <= LIMIT else 300

    def _noted(self, nm, typ, ttl, rd):
        if ttl > 0:
            self.exps.append(self.now + ttl * S)
            if len(self.exps) > 16:
                del self.exps[0]
        self.keys.append((nm, typ, rd))

    def I(self, nm, typ, ttl, rd, dt=1):
        ttl = self.clamp(ttl, dt)
        self.T(dt)
        self.ops.append("I~" + tok.rr(nm, typ, ttl, rd))
        self._noted(nm, typ, ttl, rd)
        if ttl > 0:
            self.ia.pop(nm, None)

    def A(self, recs, dt=1):
        """recs: list of (name, type, ttl, rdata)"""
        recs = [(n, t, self.clamp(ttl, dt), d) for n, t, ttl, d in recs]
        self.T(dt)
        self.aidx += 1
        self.ops.append("A~" + tok.rrs([tok.rr(n, t, ttl, d) for n, t, ttl, d in recs]))
        for n, t, ttl, d in recs:
            self._noted(n, t, ttl, d)
            if ttl > 0:
                self.ia[n] = self.aidx

    def G(self, nm, qt, dt=1):
        self.T(dt)
        self.ops.append("G~%s~%d" % (nm, qt))
        if qt == ANY:
            self.ia.pop(nm, None)

    def R(self, nm, qt, dt=1):
        self.T(dt)
        self.ops.append("R~%s~%d" % (nm, qt))
        if qt == ANY:
            self.ia.pop(nm, None)

    def P(self, dt=1):
        # tie rule: separate the last_read of names last touched by the same insert_all
        groups = {}
        for n, i in self.ia.items():
            groups.setdefault(i, []).append(n)
        for i in sorted(groups):
            g = sorted(groups[i])
            if len(g) >= 2:
                keep = self.rng.randrange(len(g)) if self.rng else len(g) - 1
                for j, n in enumerate(g):
                    if j != keep:
                        self.G(n, ANY, self.rng.choice([1, 1, 2, 1000]) if self.rng else 1)
        self.T(dt)
        self.ops.append("P")

    def line(self):
        return "cache H %d %s" % (self.desired, "|".join(self.ops))


def corpus():
    a, b, c, d = NAMES
    va, va2, va3 = VALUES[A]
    vn, vn2, _ = VALUES[NS]
    vx, vx2, vx3 = VALUES[MX]
    vt, vt2, vt3 = VALUES[TXT]
    out = []

    # 1. the regression witness of the fixed finding "prune-leaves-expired"
    h = Hist(10)
    h.I(a, A, 1, va)
    h.I(a, MX, 2, vx)
    h.I(a, A, 100, va)
    h.P(dt=2500000000)
    assert h.line() == WITNESS
    out.append(h.line())
    # the same, observed by lookups before and after the prune
    h = Hist(10)
    h.I(a, A, 1, va)
    h.I(a, MX, 2, vx)
    h.I(a, A, 100, va)
    h.G(a, ANY, dt=2500000000)
    h.R(a, MX)
    h.P()
    h.G(a, ANY)
    h.R(a, MX)
    h.P()
    out.append(h.line())

    # 2. TTL 0 is never stored, and does not shorten an existing record's life
    h = Hist(5)
    h.I(a, A, 0, va)
    h.G(a, ANY)
    h.R(a, A)
    h.A([(a, A, 0, va), (a, MX, 0, vx)])
    h.R(a, ANY)
    h.P()
    h.I(a, A, 5, va)
    h.I(a, A, 0, va, dt=S)
    h.R(a, A)
    h.G(a, A, dt=S)
    h.A([(a, A, 0, va), (a, A, 0, va2), (b, A, 0, va)])
    h.G(a, ANY)
    h.P(dt=3 * S)
    out.append(h.line())

    # 3. re-insert with a new TTL (longer, shorter), no duplicate
    h = Hist(5)
    h.I(a, A, 2, va)
    h.I(a, A, 300, va, dt=1500000000)
    h.G(a, A, dt=S)
    h.P()
    h.G(a, A, dt=S)
    h.I(a, A, 1, va)
    h.R(a, A)
    h.G(a, A, dt=S - 1)
    h.P()
    h.R(a, ANY)
    out.append(h.line())
    h = Hist(5)
    h.I(a, A, 5, va)
    h.I(a, A, 5, va2)
    h.I(a, A, 5, va3)
    h.I(a, A, 300, va)          # swap_remove moves the last tuple to the front
    h.G(a, A)
    h.I(a, A, 1, va2)
    h.I(a, NS, 2, vn)
    h.I(a, A, 300, va2)         # the earliest expiry is now in another type's list
    h.R(a, ANY)
    h.P(dt=2 * S)
    h.G(a, ANY)
    h.P(dt=3 * S)
    h.G(a, ANY)
    out.append(h.line())

    # 4. over-size prune evicts whole names in LRU order
    h = Hist(2)
    for n in (a, b, c, d):
        h.I(n, A, 300, va)
    h.G(a, ANY)
    h.P()
    h.G(a, A)
    h.G(b, A)
    h.G(d, A)
    out.append(h.line())
    h = Hist(2)
    h.I(a, A, 300, va)
    h.I(a, NS, 300, vn)
    h.I(a, MX, 300, vx)
    h.I(b, A, 300, va)
    h.I(c, A, 300, va)
    h.P()                       # evicting a (3 records) is enough
    h.I(d, A, 300, va)
    h.R(b, A)                   # typed hit refreshes b
    h.P()                       # evicts c
    h.G(c, ANY)
    out.append(h.line())
    h = Hist(5)
    h.I(a, A, 300, va)
    h.I(a, A, 300, va2)
    h.I(a, A, 300, va3)
    h.I(b, A, 1, va)
    h.I(b, NS, 300, vn)
    h.I(c, TXT, 300, vt)
    h.I(c, TXT, 2, vt2)
    h.I(d, MX, 300, vx)
    h.G(a, MX)                  # typed miss: does not refresh a
    h.P(dt=1500000000)          # b/A expires; 7 left > 5: evicts a (3)
    h.P()
    h.P(dt=S)                   # c/TXT vt2 expires
    out.append(h.line())

    # 5. the expiry boundary: remaining 1.000000001 s, 1 s, 0.999999999 s, 1 ns, 0, past
    for off in (S + 1, S, S - 1, 1, 0, -1):
        for ttl in (1, 2):
            h = Hist(5)
            h.I(a, A, ttl, va, dt=7)
            e = 7 + ttl * S
            if e - off <= h.now:
                continue
            h.G(a, A, dt=e - off - h.now)   # now == e - off
            h.R(a, A)
            h.R(b, A)           # miss on another name
            h.G(a, ANY)
            h.P()
            h.R(a, A)
            out.append(h.line())
    h = Hist(5)
    h.I(a, A, 2, va)
    h.I(a, MX, 2, vx)
    e = h.now + 2 * S
    h.to(e - S - 2)
    for _ in range(4):
        h.G(a, ANY)             # e-S-1, e-S, e-S+1, e-S+2
    h.to(e - 3)
    h.R(a, ANY)                 # e-2
    h.R(a, MX)                  # e-1
    h.P()                       # prune exactly at e: expiry <= now is expired
    h.R(a, ANY)
    out.append(h.line())
    h = Hist(5)
    h.I(a, A, 1, va)
    h.to(S)
    h.P()                       # now == expiry - 1 ns: stays
    h.P()                       # now == expiry: goes
    out.append(h.line())

    # 6. ANY over several types and values; typed lookups; misses
    h = Hist(512)
    for t in TYPES:
        h.I(a, t, 300, VALUES[t][0])
        h.I(a, t, 5, VALUES[t][1])
    h.G(a, ANY)
    h.R(a, ANY)
    for t in TYPES:
        h.G(a, t)
    h.G(b, ANY)
    h.G(MISS_NAME, A)
    h.G(a, AAAA)
    h.G(a, ANY, dt=4 * S)
    h.G(a, ANY, dt=S)
    h.R(a, ANY)
    h.P()
    h.G(a, ANY)
    out.append(h.line())

    # 7. AXFR / MAILB / MAILA / unknown type codes never match anything
    h = Hist(5)
    h.I(a, A, 300, va)
    h.I(a, TXT, 300, vt3)
    for qt in (252, 253, 254, 99, 0, 65535, AAAA):
        h.G(a, qt)
        h.R(a, qt)
    h.P()
    out.append(h.line())

    # 8. the largest TTL
    h = Hist(5)
    h.I(a, A, U32MAX, va)
    e = h.now + U32MAX * S
    h.G(a, A)
    h.G(a, A, dt=S - 2)
    h.G(a, A)
    h.I(b, NS, U32MAX, vn)
    h.to(e - S - 1)
    h.G(a, A)                   # remaining 1 s
    h.G(a, A)                   # remaining 0.999999999 s
    h.R(a, A)
    h.P()
    h.to(e - 1)
    h.P()                       # a expires exactly now
    h.I(a, A, 300, va2)         # (a second 2^32-1 lifetime would not fit 62 bits)
    h.G(a, ANY)
    h.G(b, ANY)
    h.P(dt=2)
    out.append(h.line())

    # 9. desired sizes 0 and 1
    h = Hist(0)
    h.P()
    h.I(a, A, 300, va)
    h.G(a, A)
    h.P()
    h.G(a, A)
    h.A([(a, A, 300, va), (a, A, 300, va2)])
    h.I(b, A, 1, va)
    h.P(dt=S)
    out.append(h.line())
    h = Hist(1)
    h.A([(a, A, 300, va), (a, NS, 300, vn)])
    h.P()                       # 2 > 1: the only name goes
    h.I(b, A, 300, va)
    h.P()                       # 1 <= 1: stays
    h.I(c, A, 300, va)
    h.G(b, ANY)
    h.P()                       # c is least recently used
    h.G(b, A)
    out.append(h.line())

    # 10. a type whose Vec was emptied by prune keeps its key: typed lookups of it are
    #     hits on an empty list and refresh last_read
    h = Hist(2)
    h.I(a, A, 1, va)
    h.I(a, MX, 300, vx)
    h.I(b, A, 300, va)
    h.P(dt=2 * S)               # a: `1=` emptied
    h.R(a, A)                   # refreshes a although nothing is returned
    h.I(c, A, 300, va)
    h.P()                       # 3 > 2: evicts b, not a
    h.G(a, A)
    h.G(a, NS)                  # no such key: no refresh
    h.I(a, A, 5, va2)           # pushes onto the emptied Vec
    h.G(a, A)
    h.I(d, A, 300, va)
    h.P()
    out.append(h.line())
    h = Hist(10)
    h.A([(a, A, 1, va), (a, NS, 1, vn), (a, MX, 2, vx), (a, TXT, 300, vt)])
    h.P(dt=S)
    h.G(a, ANY)
    h.P(dt=S)
    h.R(a, MX)
    h.R(a, ANY)
    h.I(a, NS, 1, vn2)
    h.P(dt=S)
    h.P(dt=300 * S)             # the last record goes, and the partition with it
    h.R(a, A)
    out.append(h.line())

    # 11. insert_all: empty, duplicates within one call, several names (tie rule), then prune
    h = Hist(1)
    h.A([])
    h.P()
    h.A([(a, A, 5, va), (a, A, 300, va), (a, A, 0, va), (b, A, 2, va), (c, MX, 2, vx3), (b, A, 1, va)])
    h.R(a, A)
    h.P()
    h.A([(a, A, 300, va), (b, A, 300, va), (c, A, 300, va), (d, A, 300, va)])
    h.P()
    out.append(h.line())
    h = Hist(2)
    h.A([(a, A, 300, va), (b, A, 300, va)])
    h.A([(c, A, 300, va), (d, A, 300, va), (a, TXT, 300, vt)])
    h.I(d, A, 300, va2)
    h.P()
    h.A([(b, A, 2, va), (b, A, 300, va2), (c, NS, 1, vn)])
    h.P(dt=S)
    out.append(h.line())
    return out


# --------------------------------------------------------------------------
# random histories
# --------------------------------------------------------------------------

_OFFS = (-1, 0, 1, -S - 1, -S, -S + 1)


def pick_dt(h, rng):
    if h.exps and rng.random() < 0.35:
        cands = sorted({e + o for e in h.exps for o in _OFFS if h.now < e + o <= MAXNOW})
        if cands:
            t = rng.choice(cands[:6]) if rng.random() < 0.85 else rng.choice(cands)
            return t - h.now
    return rng.choice(DTS)


def random_history(rng, which):
    desired = rng.choice(SIZES)
    h = Hist(desired, rng)
    r = rng.random()
    if r < 0.65:
        n = rng.randint(1, 20)
    elif r < 0.95:
        n = rng.randint(20, 80)
    else:
        n = rng.randint(80, 200)
    names = rng.sample(NAMES, rng.choice([1, 2, 2, 3, 3, 4]))
    types = rng.sample(TYPES, rng.choice([1, 2, 2, 3, 4]))
    nv = rng.choice([1, 2, 3, 3])
    ttls = TTLS if rng.random() < 0.7 else rng.sample(TTLS, 3)
    if which == "C15":
        w_i, w_a, w_g, w_r = 0.36, 0.48, 0.70, 0.80
    else:
        w_i, w_a, w_g, w_r = 0.34, 0.44, 0.76, 0.90

    def rec():
        if h.keys and rng.random() < 0.3:
            nm, t, d = rng.choice(h.keys)
        else:
            nm = rng.choice(names)
            t = rng.choice(types)
            d = VALUES[t][rng.randrange(nv)]
        return nm, t, rng.choice(ttls), d

    def lookup():
        q = rng.random()
        nm = rng.choice(names) if q < 0.9 else rng.choice([MISS_NAME] + NAMES)
        q = rng.random()
        if q < 0.33:
            qt = ANY
        elif q < 0.75:
            qt = rng.choice(types)
        elif q < 0.86:
            qt = rng.choice(TYPES)
        elif q < 0.89:
            qt = AAAA
        elif q < 0.96:
            qt = rng.choice([252, 253, 254])
        else:
            qt = 99
        return nm, qt

    for _ in range(n):
        if len(h.ops) >= 2 * n:   # the tie rule may add lookups; keep the length bounded
            break
        dt = pick_dt(h, rng)
        r = rng.random()
        if r < w_i:
            nm, t, ttl, d = rec()
            h.I(nm, t, ttl, d, dt)
        elif r < w_a:
            k = rng.choice([0, 1, 2, 2, 3, 3, 4, 5])
            if rng.random() < 0.7:
                nm = rng.choice(names)
                recs = [(nm,) + rec()[1:] for _ in range(k)]
            else:
                recs = [rec() for _ in range(k)]
            h.A(recs, dt)
        elif r < w_g:
            nm, qt = lookup()
            h.G(nm, qt, dt)
        elif r < w_r:
            nm, qt = lookup()
            h.R(nm, qt, dt)
        else:
            h.P(dt)
    if rng.random() < 0.5 and h.ops[-1] != "P":
        h.P(pick_dt(h, rng))
    return h.line()


def generate(rng, tier, which):
    n = COUNTS.get(tier, COUNTS["quick"])
    if isinstance(n, dict):
        n = n[which]
    cases = corpus()
    while len(cases) < n:
        cases.append(random_history(rng, which))
    return cases


def concurrent_lines(rng, tier):
    """case lines of the concurrency supplement (impl driver only)"""
    lines = []
    if tier != "thorough":
        for th, desired in ((2, 0), (2, 5), (3, 1), (4, 512), (5, 5), (6, 1), (8, 0), (8, 512)):
            lines.append("cache C %d %d %d %d" % (desired, th, 300, rng.getrandbits(48)))
        return lines
    for th in range(2, 9):
        for desired in (0, 1, 5, 512):
            for _ in range(7):
                lines.append("cache C %d %d %d %d" % (desired, th, 2000, rng.getrandbits(48)))
    return lines  # 196


# --------------------------------------------------------------------------
# parsing
# --------------------------------------------------------------------------

class Dump:
    __slots__ = ("current", "desired", "parts", "access", "expiry", "_entries")

    def __init__(self, current, desired, parts, access, expiry):
        self.current = current
        self.desired = desired
        self.parts = parts      # name -> (last_read, next_expiry, size, [(type, [(rdata, expiry), ...]), ...])
        self.access = access    # [(name, instant), ...]
        self.expiry = expiry
        self._entries = None

    def entries(self):
        """[(name, type, rdata, expiry), ...] in dump order"""
        if self._entries is None:
            self._entries = [(n, t, d, e) for n, p in self.parts.items() for t, ts in p[3] for d, e in ts]
        return self._entries


def empty_dump(desired):
    return Dump(0, desired, {}, [], [])


def _queue(s):
    q = []
    if s:
        for x in s.split("&"):
            k, v = x.split("=")
            q.append((k, int(v)))
    return q


def parse_dump(s):
    segs = s.split("#")
    if len(segs) < 3 or segs[0][0] != "S" or segs[-2][:1] != "A" or segs[-1][:1] != "E":
        raise ValueError("dump")
    cur, des = segs[0][1:].split("/")
    parts = {}
    for seg in segs[1:-2]:
        if seg[0] != "N":
            raise ValueError("partition")
        nm, lr, ne, sz, recs = seg[1:].split("/")
        rl = []
        if recs:
            for r in recs.split("+"):
                t, eq, tl = r.partition("=")
                if not eq:
                    raise ValueError("records")
                ts = []
                if tl:
                    for x in tl.split("&"):
                        d, at, e = x.rpartition("@")
                        if not at:
                            raise ValueError("tuple")
                        ts.append((d, int(e)))
                rl.append((int(t), ts))
        if nm in parts:
            raise ValueError("partition twice")
        parts[nm] = (int(lr), int(ne), int(sz), rl)
    return Dump(int(cur), int(des), parts, _queue(segs[-2][1:]), _queue(segs[-1][1:]))


def parse_out(s):
    """'U' -> ('U',); 'L..' -> ('L', [(name, type, class, ttl, rdata), ...]); 'P..' -> ('P', ov, cur, exp, pruned)"""
    c = s[0]
    if c == "U" and len(s) == 1:
        return ("U",)
    if c == "L":
        rrs = []
        if s != "L_":
            for x in s[1:].split(";"):
                n, t, cl, ttl, d = x.split(":")
                rrs.append((n, int(t), int(cl), int(ttl), d))
        return ("L", rrs)
    if c == "P":
        ov, cur, ex, pr = s[1:].split(",")
        if ov not in ("0", "1"):
            raise ValueError("overflowed")
        return ("P", int(ov), int(cur), int(ex), int(pr))
    raise ValueError("out")


def parse_case(case):
    toks = case.split(" ")
    if len(toks) != 4 or toks[0] != "cache" or toks[1] != "H":
        raise ValueError("case")
    return int(toks[2]), [o.split("~") for o in toks[3].split("|")]


def case_rrs(op):
    """records of an I or A op of the case line: [(name, type, ttl, rdata), ...]"""
    if op[0] == "I":
        l = [op[1]]
    else:
        l = [] if op[1] == "_" else op[1].split(";")
    res = []
    for r in l:
        n, t, _c, ttl, d = r.split(":")
        res.append((n, int(t), int(ttl), d))
    return res


def replay(case, out):
    """-> list of (op_fields, now, dump_before, out, dump_after) for the non-T ops, or None when the
    output does not have the shape of a result of this case (whole-line outcomes, wrong number of
    entries, a clock that differs from the case's)."""
    desired, ops = parse_case(case)
    ents = out.split("|")
    if len(ents) != len(ops):
        return None
    now = 0
    cur = empty_dump(desired)
    steps = []
    for op, e in zip(ops, ents):
        if op[0] == "T":
            now += int(op[1])
            if e != "T%d" % now:
                return None
            continue
        o, bang, d = e.partition("!")
        if not bang:
            return None
        after = parse_dump(d)
        po = parse_out(o)
        want = "P" if op[0] == "P" else ("L" if op[0] in "GR" else "U")
        if po[0] != want:
            return None
        steps.append((op, now, cur, po, after))
        cur = after
    return steps


def qtype_matches(qt, t):
    if qt == ANY:
        return True
    if qt in (252, 253, 254):
        return False
    return qt == t


def n_real_ops(case):
    ops = case.split(" ", 3)[3].split("|")
    return sum(1 for o in ops if o[0] != "T")


def size_class(case):
    d = case.split(" ", 3)[2]
    return "d" + d if d in ("0", "1", "512") else "d2-10"


RULE_GEN = ("cases: histories of SharedCache operations under a virtual clock starting at 0 -- hand-written corpus first "
            "(the prune-leaves-expired witness, TTL 0, re-insert with longer/shorter TTL, LRU eviction, the expiry "
            "boundary at 1 s +/- 1 ns and 0 +/- 1 ns remaining, ANY, AXFR/MAILB/MAILA/unknown qtypes, TTL 2^32-1, sizes 0 and 1, "
            "types emptied by prune, insert_all with duplicates), then random histories of 1..200 operations (skewed short) over "
            "4 names x 4 types x 3 values, TTLs {0,1,2,5,300,2^32-1}, desired sizes {0,1,2,5,512}, clock steps from 1 ns to 10 s "
            "and steps landing on / 1 ns around an earlier record's expiry and its 1-second-left instant; every operation is "
            "preceded by a clock step >= 1 ns and names touched by one insert_all are read at distinct instants before a prune "
            "(no last_read ties)")
