"""C05 -- the cache never serves a record past its TTL (and the rest of the property text:
TTL 0 never stored, re-insert restarts the lifetime without duplicating, live records are
returned unchanged)."""
from . import cachegen as cg

ID = "C05"
DRIVER = "cache"
COQ_TARGETS = ["Properties/C05.vo"]
THEOREMS = ["C05_never_served_expired", "C05_ttl_not_exceeding_remaining", "C05_ttl0_not_stored_step", "C05_ttl0_not_stored", "C05_reinsert_restarts_no_duplicate", "C05_live_record_is_returned", "C05_last_second_withheld", "C05_step_refines"]
RULE = (cg.RULE_GEN + "; non-trivial = distinct history with at least 3 operations other than clock steps")
ASSUMPTIONS = [
    "thread schedules and std::sync::Mutex are not modelled: every SharedCache method is one critical section",
    "PriorityQueue tie-breaking among equal instants is not modelled (a parameter of the model): the generator avoids "
    "last_read ties; expiry ties do not affect the sorted dump",
    "'last inserted' means the last insertion with TTL > 0 through SharedCache: a TTL-0 insert is a no-op and does not "
    "shorten the life of a record already cached",
]
TRUSTED = ["hooks H1/H2 in /repo under cfg(resolved_verif): the virtual clock (verif::clock) and the read-only state dump "
           "(verif_dump) of the cache"]

S = cg.S
U32MAX = cg.U32MAX


def generate(rng, tier):
    return cg.generate(rng, tier, "C05")


def oracle(case, impl, model):
    if impl == "Panic":
        return ("panic", "a cache operation panicked")
    try:
        steps = cg.replay(case, impl)
        if steps is None:
            return None
        return _check(steps)
    except Exception:  # malformed output is a correspondence matter
        return None


def _check(steps):
    ins = {}    # (name, type, rdata) -> (t0, ttl) of the last insertion with ttl > 0
    zero = {}   # (name, type, rdata) -> instant of the last ttl-0 insertion
    for op, now, before, out, after in steps:
        k = op[0]
        if k in "IA":
            for n, t, ttl, d in cg.case_rrs(op):
                if ttl > 0:
                    ins[(n, t, d)] = (now, ttl)
                else:
                    zero[(n, t, d)] = now
        # (1) every stored entry is the last insertion (ttl > 0) of its key, once
        seen = set()
        for n, t, d, e in after.entries():
            key = (n, t, d)
            if key in seen:
                return ("duplicate-entry", "after %s at %d the cache holds %s twice" % (k, now, key))
            seen.add(key)
            rec = ins.get(key)
            if rec is None:
                if key in zero:
                    return ("ttl0-stored", "a record inserted only with TTL 0 is stored: %s expiry %d" % (key, e))
                return ("phantom-entry", "the cache holds a record that was never inserted: %s" % (key,))
            if e != rec[0] + rec[1] * S:
                if key in zero and e == zero[key]:
                    return ("ttl0-stored", "a TTL-0 insert at %d replaced the stored record %s" % (e, key))
                return ("lifetime-mismatch", "%s expires at %d, but its last insertion was at %d with TTL %d"
                        % (key, e, rec[0], rec[1]))
        if k not in "GR":
            continue
        qn, qt = op[1], int(op[2])
        rrs = out[1]
        if k == "G":
            # (2) nothing returned is expired, over-long, foreign or duplicated
            got = set()
            for n, t, cl, ttl, d in rrs:
                if cl != 1 or n != qn or not cg.qtype_matches(qt, t):
                    return ("wrong-record", "get(%s,%d) returned %s:%d:%d" % (qn, qt, n, t, cl))
                rec = ins.get((n, t, d))
                if rec is None:
                    return ("wrong-record", "get(%s,%d) returned a record never inserted: %d %s" % (qn, qt, t, d))
                exp = rec[0] + rec[1] * S
                if now >= exp:
                    return ("serves-expired", "get(%s,%d) at %d returned %d %s whose TTL %d elapsed at %d (last inserted %d)"
                            % (qn, qt, now, t, d, rec[1], exp, rec[0]))
                if ttl < 1:
                    return ("serves-expired", "get(%s,%d) returned %d %s with TTL 0" % (qn, qt, t, d))
                if ttl > (exp - now) // S:
                    return ("ttl-exceeds-remaining", "get(%s,%d) at %d reports TTL %d for %d %s, time left %d ns"
                            % (qn, qt, now, ttl, t, d, exp - now))
                if (t, d) in got:
                    return ("duplicate-entry", "get(%s,%d) returned %d %s twice" % (qn, qt, t, d))
                got.add((t, d))
        # (3) completeness and exact TTL, against the entries held before the lookup
        want = []
        for n, t, d, e in before.entries():
            if n == qn and cg.qtype_matches(qt, t):
                left = (e - now) // S if e > now else 0
                if k == "G" and left < 1:
                    continue
                want.append((t, d, min(left, U32MAX)))
        have = sorted((t, d, ttl) for n, t, cl, ttl, d in rrs)
        want.sort()
        if have != want:
            fn = "get" if k == "G" else "get_without_checking_expiration"
            if [x[:2] for x in have] == [x[:2] for x in want]:
                h, w = [(x, y) for x, y in zip(have, want) if x != y][0]
                return ("ttl-not-time-left", "%s(%s,%d) at %d reports TTL %d for %d %s; whole seconds left: %d"
                        % (fn, qn, qt, now, h[2], h[0], h[1], w[2]))
            missing = [w for w in want if w[:2] not in [x[:2] for x in have]] or [w for w in want if w not in have]
            if missing:
                return ("missing-record", "%s(%s,%d) at %d did not return (type, data, ttl) %s held by the cache"
                        % ("get" if k == "G" else "get_without_checking_expiration", qn, qt, now, missing[0]))
            extra = [x for x in have if x not in want]
            return ("wrong-record", "%s(%s,%d) at %d returned %s, the cache held %s" % (k, qn, qt, now, extra[:1] or have, want))
    return None


def nontrivial(case, model):
    return cg.n_real_ops(case) >= 3


PRIORITY = ("lookup-of-emptied-type", "any-several-types", "get-ttl1", "raw-get-ttl0",
            "axfr-mailb-maila-unknown-qtype", "hit")


def features(case, model):
    """lookup situations reached by the history (cheap scan of the model's result line)"""
    ops = case.split(" ", 3)[3].split("|")
    ents = model.split("|")
    if len(ents) != len(ops):
        return None
    fs = set()
    for o, e in zip(ops, ents):
        c = o[0]
        if c != "G" and c != "R":
            continue
        _, qn, qt = o.split("~")
        res, _, dump = e.partition("!")
        if res == "L_":
            fs.add("miss")
            if qt in ("252", "253", "254", "99"):
                fs.add("axfr-mailb-maila-unknown-qtype")
            elif qt != "255":
                i = dump.find("#N" + qn + "/")
                if i >= 0:
                    j = dump.find("#", i + 1)
                    if qt + "=" in dump[i:j].rsplit("/", 1)[1].split("+"):
                        fs.add("lookup-of-emptied-type")
            continue
        fs.add("hit")
        types = set()
        for x in res[1:].split(";"):
            f = x.split(":")
            types.add(f[1])
            if f[3] == "1" and c == "G":
                fs.add("get-ttl1")
            if f[3] == "0" and c == "R":
                fs.add("raw-get-ttl0")
        if len(types) >= 2:
            fs.add("any-several-types")
    return fs


def kind(case, model):
    """bucket: desired-size class and the rarest lookup situation the history reaches"""
    try:
        fs = features(case, model)
        if fs is None:
            return "whole-line:" + model.split(" ")[0][:12]
        sz = "small" if cg.size_class(case) in ("d0", "d1") else "large"
        for name in PRIORITY:
            if name in fs:
                return sz + ":" + name
        return sz + (":miss-only" if "miss" in fs else ":no-lookup")
    except Exception:
        return "unparsed"
