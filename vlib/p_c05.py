"""C05 -- the cache never serves a record past its TTL (and the rest of the property text:
TTL 0 never stored, re-insert restarts the lifetime without duplicating, live records are
returned unchanged)."""
from . import cachegen as cg

ID = "C05"
DRIVER = "cache"
COQ_TARGETS = ["Properties/C05.vo"]
THEOREMS = ["C05_never_served_expired", "C05_ttl_not_exceeding_remaining", "C05_ttl0_not_stored_step", "C05_ttl0_not_stored", "C05_reinsert_restarts_no_duplicate", "C05_live_record_is_returned", "C05_last_second_withheld", "C05_step_refines", "C05_concurrent_get_is_live"]
RULE = (cg.RULE_GEN + "; non-trivial = distinct history with at least 3 operations other than clock steps")
ASSUMPTIONS = [
    "thread schedules and std::sync::Mutex are not modelled: every SharedCache method is one critical section",
    "PriorityQueue tie-breaking among equal instants is not modelled (a parameter of the model): the generator avoids "
    "last_read ties; expiry ties do not affect the sorted dump",
    "'last inserted' means the last insertion with TTL > 0 through SharedCache: a TTL-0 insert is a no-op and does not "
    "shorten the life of a record already cached",
]
TRUSTED = ["hooks H1/H2 in /repo under cfg(resolved_verif): the virtual clock (verif::clock) and the read-only state dump "
           "(verif_dump) of the cache"]

S = cg.S
U32MAX = cg.U32MAX


def generate(rng, tier):
    return cg.generate(rng, tier, "C05")


def oracle(case, impl, model):
    if impl == "Panic":
        return ("panic", "a cache operation panicked")
    try:
        steps = cg.replay(case, impl)
        if steps is None:
            return None
        return _check(steps)
    except Exception:  # malformed output is a correspondence matter
        return None


def _check(steps):
    ins = {}    # (name, type, rdata) -> (t0, ttl) of the last insertion with ttl > 0
    zero = {}   # (name, type, rdata) -> instant of the last ttl-0 insertion
    for op, now, before, out, after in steps:
        k = op[0]
        if k in "IA":
            for n, t, ttl, d in cg.case_rrs(op):
                if ttl > 0:
                    ins[(n, t, d)] = (now, ttl)
                else:
                    zero[(n, t, d)] = now
        # (1) every stored entry is the last insertion (ttl > 0) of its key, once
        seen = set()
        for n, t, d, e in after.entries():
            key = (n, t, d)
            if key in seen:
                return ("duplicate-entry", "after %s at %d the cache holds %s twice" % (k, now, key))
            seen.add(key)
            rec = ins.get(key)
            if rec is None:
                if key in zero:
                    return ("ttl0-stored", "a record inserted only with TTL 0 is stored: %s expiry %d" % (key, e))
                return ("phantom-entry", "the cache holds a record that was never inserted: %s" % (key,))
            if e != rec[0] + rec[1] * S:
                if key in zero and e == zero[key]:
                    return ("ttl0-stored", "a TTL-0 insert at %d replaced the stored record %s" % (e, key))
                return ("lifetime-mismatch", "%s expires at %d, but its last insertion was at %d with TTL %d"
                        % (key, e, rec[0], rec[1]))
        if k not in "GR":
            continue
        qn, qt = op[1], int(op[2])
        rrs = out[1]
        if k == "G":
            # (2) nothing returned is expired, over-long, foreign or duplicated
            got = set()
            for n, t, cl, ttl, d in rrs:
                if cl != 1 or n != qn or not cg.qtype_matches(qt, t):
                    return ("wrong-record", "get(%s,%d) returned %s:%d:%d" % (qn, qt, n, t, cl))
                rec = ins.get((n, t, d))
                if rec is None:
                    return ("wrong-record", "get(%s,%d) returned a record never inserted: %d %s" % (qn, qt, t, d))
                exp = rec[0] + rec[1] * S
                if now >= exp:
                    return ("serves-expired", "get(%s,%d) at %d returned %d %s whose TTL %d elapsed at %d (last inserted %d)"
                            % (qn, qt, now, t, d, rec[1], exp, rec[0]))
                if ttl < 1:
                    return ("serves-expired", "get(%s,%d) returned %d %s with TTL 0" % (qn, qt, t, d))
                if ttl > (exp - now) // S:
                    return ("ttl-exceeds-remaining", "get(%s,%d) at %d reports TTL %d for %d %s, time left %d ns"
                            % (qn, qt, now, ttl, t, d, exp - now))
                if (t, d) in got:
                    return ("duplicate-entry", "get(%s,%d) returned %d %s twice" % (qn, qt, t, d))
                got.add((t, d))
        # (3) completeness and exact TTL, against the entries held before the lookup
        want = []
        for n, t, d, e in before.entries():
            if n == qn and cg.qtype_matches(qt, t):
                left = (e - now) // S if e > now else 0
                if k == "G" and left < 1:
                    continue
                want.append((t, d, min(left, U32MAX)))
        have = sorted((t, d, ttl) for n, t, cl, ttl, d in rrs)
        want.sort()
        if have != want:
            fn = "get" if k == "G" else "get_without_checking_expiration"
            if [x[:2] for x in have] == [x[:2] for x in want]:
                h, w = [(x, y) for x, y in zip(have, want) if x != y][0]
                return ("ttl-not-time-left", "%s(%s,%d) at %d reports TTL %d for %d %s; whole seconds left: %d"
                        % (fn, qn, qt, now, h[2], h[0], h[1], w[2]))
            missing = [w for w in want if w[:2] not in [x[:2] for x in have]] or [w for w in want if w not in have]
            if missing:
                return ("missing-record", "%s(%s,%d) at %d did not return (type, data, ttl) %s held by the cache"
                        % ("get" if k == "G" else "get_without_checking_expiration", qn, qt, now, missing[0]))
            extra = [x for x in have if x not in want]
            return ("wrong-record", "%s(%s,%d) at %d returned %s, the cache held %s" % (k, qn, qt, now, extra[:1] or have, want))
    return None


def nontrivial(case, model):
    return cg.n_real_ops(case) >= 3


PRIORITY = ("lookup-of-emptied-type", "any-several-types", "get-ttl1", "raw-get-ttl0",
            "axfr-mailb-maila-unknown-qtype", "hit")


def features(case, model):
    """lookup situations reached by the history (cheap scan of the model's result line)"""
    ops = case.split(" ", 3)[3].split("|")
    ents = model.split("|")
    if len(ents) != len(ops):
        return None
    fs = set()
    for o, e in zip(ops, ents):
        c = o[0]
        if c != "G" and c != "R":
            continue
        _, qn, qt = o.split("~")
        res, _, dump = e.partition("!")
        if res == "L_":
            fs.add("miss")
            if qt in ("252", "253", "254", "99"):
                fs.add("axfr-mailb-maila-unknown-qtype")
            elif qt != "255":
                i = dump.find("#N" + qn + "/")
                if i >= 0:
                    j = dump.find("#", i + 1)
                    if qt + "=" in dump[i:j].rsplit("/", 1)[1].split("+"):
                        fs.add("lookup-of-emptied-type")
            continue
        fs.add("hit")
        types = set()
        for x in res[1:].split(";"):
            f = x.split(":")
            types.add(f[1])
            if f[3] == "1" and c == "G":
                fs.add("get-ttl1")
            if f[3] == "0" and c == "R":
                fs.add("raw-get-ttl0")
        if len(types) >= 2:
            fs.add("any-several-types")
    return fs


def kind(case, model):
    """bucket: desired-size class and the rarest lookup situation the history reaches"""
    try:
        fs = features(case, model)
        if fs is None:
            return "whole-line:" + model.split(" ")[0][:12]
        sz = "small" if cg.size_class(case) in ("d0", "d1") else "large"
        for name in PRIORITY:
            if name in fs:
                return sz + ":" + name
        return sz + (":miss-only" if "miss" in fs else ":no-lookup")
    except Exception:
        return "unparsed"


# --------------------------------------------------------------------------------------------------
# C05 through local resolution (local.rs is one of the property's anchors): cached records reach an
# answer through resolve_local -- directly, through the cached-CNAME fallback, and merged behind zone
# data.  Stream "local", op T: the cache is filled at clock 0, the clock advanced, then questions asked.
# Oracle (implementation output only): no answer holds a record that came from the cache and whose TTL
# has elapsed, or whose reported TTL is 0 or exceeds the time it has left.
# --------------------------------------------------------------------------------------------------

def _local_cases(rng, n):
    from . import tok
    names = [tok.name(x) for x in ("a.test.", "b.test.", "c.test.", "d.test.", "www.example.com.")]
    cases = [
        # regression shape: an expired, not yet pruned CNAME must not be served by the CNAME fallback
        "local T 1200 _ %s %s corpus-expired-cname" % (
            tok.rrs([tok.rr(names[0], tok.CNAME, 1, tok.rd_name(names[1])), tok.rr(names[1], tok.A, 300, tok.rd_a(0x01020304))]),
            "|".join(tok.question(names[0], t) for t in (tok.A, tok.CNAME, tok.ANY, tok.TXT))),
        "local T 2500 _ %s %s corpus-expired-mid-chain" % (
            tok.rrs([tok.rr(names[0], tok.CNAME, 300, tok.rd_name(names[1])), tok.rr(names[1], tok.CNAME, 2, tok.rd_name(names[2])),
                     tok.rr(names[2], tok.A, 300, tok.rd_a(5))]),
            "|".join(tok.question(names[0], t) for t in (tok.A, tok.AAAA))),
    ]
    while len(cases) < n:
        rrs = []
        seen = set()
        for _ in range(rng.randint(1, 6)):
            owner = rng.choice(names)
            ttl = rng.choice([1, 1, 2, 2, 5, 300])
            if rng.random() < 0.5:
                r = tok.rr(owner, tok.CNAME, ttl, tok.rd_name(rng.choice(names)))
                key = (owner, tok.CNAME)
            else:
                t = rng.choice([tok.A, tok.A, tok.TXT])
                r = tok.rr(owner, t, ttl, tok.rd_a(rng.randint(1, 9)) if t == tok.A else tok.rd_octets([rng.randint(0, 255)]))
                key = (owner, t, r)
            if key in seen:
                continue
            seen.add(key)
            rrs.append(r)
        ms = rng.choice([0, 1, 500, 999, 1000, 1001, 1500, 1999, 2000, 2500, 4999, 5000, 6000])
        zones = "_"
        if rng.random() < 0.3:
            # a non-authoritative root zone with one record, so merged answers occur too
            zones = "-~N~I" + tok.rr(rng.choice(names), tok.A, 60, tok.rd_a(0x0A000001))
        qs = "|".join(tok.question(rng.choice(names), rng.choice([tok.A, tok.A, tok.CNAME, tok.ANY, tok.TXT])) for _ in range(rng.randint(1, 4)))
        cases.append("local T %d %s %s %s gen" % (ms, zones, tok.rrs(rrs), qs))
    return cases


def _local_oracle(case, impl):
    from . import tok
    toks = case.split(" ")
    ms = int(toks[2])
    zone_rrs = set()
    if toks[3] != "_":
        for z in toks[3].split("|"):
            ops = z.split("~")[2]
            for op in (ops.split("+") if ops != "_" else []):
                zone_rrs.add(op[1:].split(":")[0] + ":" + op[1:].split(":")[1] + ":" + op[1:].split(":")[4])
    cached = {}
    for r in tok.parse_rrs(toks[4]):
        cached[(r["name"], r["type"], r["data"])] = r["ttl"]     # the last insertion wins
    for part in impl.split("|"):
        for half in part.split("!"):
            m = half[1:] if half[:1] in "DAXNPCG" else ""
            m = m[1:] if half[:2] in ("DA", "DN", "DX") else m
            rrtok = m.split("/")[0] if m else ""
            if not rrtok or rrtok == "_" or ":" not in rrtok:
                continue
            for x in rrtok.split(";"):
                try:
                    r = tok.parse_rr(x)
                except Exception:
                    continue
                key = (r["name"], r["type"], r["data"])
                if "%s:%d:%s" % key in zone_rrs:
                    continue
                if key in cached:
                    left_ms = cached[key] * 1000 - ms
                    if left_ms <= 0:
                        return ("expired-record-served-by-local-resolution",
                                "a cached record whose TTL (%d s) elapsed %d ms ago is part of an answer" % (cached[key], -left_ms))
                    if r["ttl"] == 0 or r["ttl"] * 1000 > left_ms:
                        return ("ttl-exceeds-time-left", "reported TTL %d s, %d ms left" % (r["ttl"], left_ms))
    return None


def extra(ctx):
    from . import core
    n = 600 if ctx["tier"] == "quick" else 30000
    fails = []
    for what, f in (("model", core.build_model_driver), ("impl", core.build_impl_driver)):
        ok, out = f("local")
        if not ok:
            return ([core.Failure("local-driver-build", "%s driver of the local stream failed to build: %s" % (what, core.trunc(out[-600:], 600)),
                                  found_input=False)], {})
    cases = _local_cases(ctx["rng"], n)
    mo = core.run_sharded(core.model_driver_path("local"), cases, ctx["run_dir"], "c05local-model")
    io = core.run_sharded(core.impl_driver_path("local"), cases, ctx["run_dir"], "c05local-impl")
    dis = 0
    nontriv = 0
    for c, m, i in zip(cases, mo, io):
        f = _local_oracle(c, i)
        if f is not None:
            fails.append(core.Failure(f[0], f[1], c, i, m))
        elif m != i:
            dis += 1
            if dis <= 3:
                fails.append(core.Failure("local-correspondence", "model and implementation of resolve_local disagree on a clock-advanced case",
                                          c, i, m, found_input=False))
        if ":" in i:
            nontriv += 1
    return fails, {"local_clock_cases": len(cases), "local_disagreements": dis, "evaluations": len(cases), "distinct_nontrivial": nontriv}
