"""Generator and case parser shared by the `local` stream properties (C01, C10).

Case syntax: see /verif/ocaml/drv_local.ml.  Python-side representation:
  zone     = {"apex": dotted, "soa": None | (mname, rname, serial, refresh, retry, expire, minimum),
              "ops": [(wild, owner dotted, type, ttl, rdata token)]}
  cache    = [(owner dotted, type, ttl, rdata token)]
  question = (name dotted, qtype, qclass)
Dotted names are lower-case ASCII absolute names ("www.example.com.", "." = root).
"""
from . import tok
from .tok import A, NS, CNAME, SOA, MX, TXT, AAAA, PTR, SRV, AXFR, MAILB, ANY, IN

RECURSION_LIMIT = 32


# --------------------------------------------------------------------------
# encoding
# --------------------------------------------------------------------------

def enc_soa(s):
    if s is None:
        return "N"
    return tok.rd_soa(tok.name(s[0]), tok.name(s[1]), *s[2:])


def enc_zone(z):
    ops = "+".join(("W" if w else "I") + tok.rr(tok.name(n), t, ttl, d) for (w, n, t, ttl, d) in z["ops"]) or "_"
    return "%s~%s~%s" % (tok.name(z["apex"]), enc_soa(z["soa"]), ops)


def encode(zones, cache, questions, tag=None):
    zt = "|".join(enc_zone(z) for z in zones) or "_"
    ct = tok.rrs([tok.rr(tok.name(n), t, ttl, d) for (n, t, ttl, d) in cache])
    qt = "|".join(tok.question(tok.name(q[0]), q[1], q[2] if len(q) > 2 else IN) for q in questions)
    return "local R %s %s %s%s" % (zt, ct, qt, " " + tag if tag else "")


def cn(target):
    return tok.rd_name(tok.name(target))


def a(v):
    return tok.rd_a(v)


def soa(apex, minimum=300):
    return ("ns." + apex if apex != "." else "ns.", "admin." + apex if apex != "." else "admin.", 1, 3600, 600, 86400, minimum)


# --------------------------------------------------------------------------
# parsing (for the oracles): names are label tuples, lower-cased as Label::try_from does
# --------------------------------------------------------------------------

def labels_of(nametok):
    out = []
    for h in nametok.split("."):
        b = b"" if h == "-" else bytes.fromhex(h)
        out.append(bytes(c + 32 if 65 <= c <= 90 else c for c in b))
    return tuple(out)


def canon_rdata(d):
    """rdata token with every embedded name lower-cased (as both drivers print it)"""
    def cname(t):
        return ".".join((l.hex() if l else "-") for l in labels_of(t))
    k, body = d[0], d[1:]
    if k == "n":
        return "n" + cname(body)
    if k == "s":
        p = body.split(",")
        return "s" + ",".join([cname(p[0]), cname(p[1])] + p[2:])
    if k == "i":
        p = body.split(",")
        return "i" + ",".join(cname(x) for x in p)
    if k == "x":
        p = body.split(",")
        return "x" + p[0] + "," + cname(p[1])
    if k == "v":
        p = body.split(",")
        return "v" + ",".join(p[:3] + [cname(p[3])])
    if k in "oq":
        return k + body.lower()
    return d


def parse_rr(t):
    n, ty, c, ttl, d = t.split(":")
    return {"name": labels_of(n), "type": int(ty), "class": int(c), "ttl": int(ttl), "data": canon_rdata(d)}


def parse_rrs(t):
    return [] if t == "_" else [parse_rr(x) for x in t.split(";")]


def parse_question(t):
    n, qt, qc = t.split(":")
    return {"name": labels_of(n), "qtype": int(qt), "qclass": int(qc)}


def parse_case(case):
    """-> (zones, cache, questions).  zones: dict apex labels -> zone (later insert of the same
    apex replaces, as Zones::insert does); zone = {"apex", "soa_rr" (parsed rr or None),
    "minimum", "recs": [(wild, owner labels, type, actual ttl, data)] (records outside the
    apex dropped, as Zone::insert does)}"""
    toks = case.split(" ")
    zt, ct, qt = toks[2], toks[3], toks[4]
    zones = {}
    if zt != "_":
        for z in zt.split("|"):
            apex_t, soa_t, ops_t = z.split("~")
            apex = labels_of(apex_t)
            zone = {"apex": apex, "soa_rr": None, "minimum": None, "recs": []}
            if soa_t != "N":
                d = canon_rdata(soa_t)
                minimum = int(d.split(",")[-1])
                zone["minimum"] = minimum
                zone["soa_rr"] = {"name": apex, "type": SOA, "class": IN, "ttl": minimum, "data": d}
                zone["recs"].append((False, apex, SOA, minimum, d))
            if ops_t != "_":
                for op in ops_t.split("+"):
                    r = parse_rr(op[1:])
                    if not is_suffix(apex, r["name"]):
                        continue
                    ttl = r["ttl"] if zone["minimum"] is None else max(zone["minimum"], r["ttl"])
                    zone["recs"].append((op[0] == "W", r["name"], r["type"], ttl, r["data"]))
            zones[apex] = zone
    cache = parse_rrs(ct)
    questions = [parse_question(q) for q in qt.split("|")]
    return zones, cache, questions


def is_suffix(p, q):
    return len(p) <= len(q) and q[len(q) - len(p):] == p


def zone_for(zones, name):
    """Zones::get: the longest configured apex that is a suffix of the name"""
    for i in range(len(name)):
        z = zones.get(name[i:])
        if z is not None:
            return z
    return None


def cut_points(zone):
    """owner names of non-wildcard NS records strictly below the apex"""
    return {o for (w, o, t, _, _) in zone["recs"] if t == NS and not w and o != zone["apex"]}


def has_wild_ns(zone):
    return any(w and t == NS for (w, o, t, _, _) in zone["recs"])


def beneath_cut(zone, name):
    """name is at or beneath a non-apex delegation point of the zone"""
    return any(is_suffix(c, name) for c in cut_points(zone))


def node_exists(zone, name):
    """the record tree has a node for `name`: some record's owner, or wildcard base, is at or beneath it"""
    return name == zone["apex"] or any(is_suffix(name, o) for (_, o, _, _, _) in zone["recs"])


def owned_auth(zones, name):
    """the zone (or None): the most specific zone enclosing `name` is authoritative, `name` is not at or
    beneath one of its delegation points (and the zone has no wildcard NS records, whose effect on
    names they cover is a referral as well -- restricted away)"""
    z = zone_for(zones, name)
    if z is None or z["soa_rr"] is None or beneath_cut(z, name) or has_wild_ns(z):
        return None
    return z


def dedup(seq):
    out = []
    for x in seq:
        if x not in out:
            out.append(x)
    return out


def recs_at(zone, name, rtype=None):
    """non-wildcard records of the zone at `name` (of one type), as (type, ttl, data) in Vec order
    (first insertion order, duplicates dropped)"""
    return dedup([(t, ttl, d) for (w, o, t, ttl, d) in zone["recs"]
                  if not w and o == name and (rtype is None or t == rtype)])


def zone_may_produce(zone, r):
    """the zone holds a record that can yield RR r: a record at exactly r's owner, or a wildcard record at
    an ancestor of the owner, with the same type, ttl and data"""
    for (w, o, t, ttl, d) in zone["recs"]:
        if t == r["type"] and ttl == r["ttl"] and d == r["data"] and r["class"] == IN:
            if (not w and o == r["name"]) or (w and is_suffix(o, r["name"]) and o != r["name"]):
                return True
    return False


# --------------------------------------------------------------------------
# result parsing
# --------------------------------------------------------------------------

def parse_resolved(s):
    """'A<rrs>/<soa>' | 'X<soa>' | 'N<rrs>/<soa|None>' | 'E...' | 'Panic' | 'OutOfFuel'"""
    if s in ("Panic", "OutOfFuel") or s.startswith("E") or s.startswith("DRIVER") or s.startswith("MODEL") or s.startswith("IMPL"):
        return {"kind": s if not s.startswith("E") else "E", "err": s}
    k = s[0]
    if k == "X":
        return {"kind": "X", "rrs": [], "soa": parse_rr(s[1:])}
    rrs_t, soa_t = s[1:].split("/")
    return {"kind": k, "rrs": parse_rrs(rrs_t), "soa": None if soa_t == "None" else parse_rr(soa_t)}


def parse_local(s):
    if s in ("Panic", "OutOfFuel") or s.startswith("E"):
        return {"kind": s if not s.startswith("E") else "E", "err": s}
    k = s[0]
    if k == "D":
        r = parse_resolved(s[1:])
        r["kind"] = "D" + r["kind"]
        return r
    if k == "P":
        return {"kind": "P", "rrs": parse_rrs(s[1:])}
    if k == "G":
        rrs_t, soa_t, nm, hosts = s[1:].split("/")
        return {"kind": "G", "rrs": parse_rrs(rrs_t), "soa": None if soa_t == "None" else parse_rr(soa_t),
                "name": labels_of(nm), "hostnames": [] if hosts == "_" else [labels_of(h) for h in hosts.split(";")]}
    if k == "C":
        rrs_t, q = s[1:].split("/")
        return {"kind": "C", "rrs": parse_rrs(rrs_t), "question": parse_question(q)}
    return {"kind": "?", "err": s}


def parse_out(out):
    """-> list of (resolved, local) per question, or None if the output is not a per-question list"""
    if out in ("Panic", "OutOfFuel", "Err") or out.startswith("DRIVER") or out.startswith("MODEL-EXN") or out.startswith("IMPL-EXN"):
        return None
    res = []
    for part in out.split("|"):
        a_, b_ = part.split("!")
        res.append((parse_resolved(a_), parse_local(b_)))
    return res


# --------------------------------------------------------------------------
# chain_ok (DESIGN Appendix A), on parsed RRs
# --------------------------------------------------------------------------

def cname_target(r):
    return labels_of(r["data"][1:])


def chain_ok(qname, qtype, rrs):
    """None if ok, else a description"""
    cur = qname
    seen = set()
    i = 0
    while i < len(rrs) and rrs[i]["type"] == CNAME and rrs[i]["name"] == cur and qtype != CNAME:
        if cur in seen:
            return "alias owner %s appears twice" % (show_name(cur),)
        seen.add(cur)
        cur = cname_target(rrs[i])
        i += 1
    for r in rrs[i:]:
        if r["name"] != cur:
            return "record %d owned by %s, expected the end of the chain %s" % (rrs.index(r), show_name(r["name"]), show_name(cur))
        if r["type"] != qtype:
            return "record %d of type %d after the chain, asked type %d" % (rrs.index(r), r["type"], qtype)
    return None


def show_name(ls):
    return ".".join(l.decode("latin-1") for l in ls[:-1]) + "." if ls else "<empty>"


# --------------------------------------------------------------------------
# corpus
# --------------------------------------------------------------------------

def corpus():
    cs = []
    ex = "example.com."
    auth = lambda ops, apex=ex, m=300: {"apex": apex, "soa": soa(apex, m), "ops": ops}
    nonauth = lambda ops, apex=".": {"apex": apex, "soa": None, "ops": ops}
    I = lambda n, t, d, ttl=300: (False, n, t, ttl, d)
    W = lambda n, t, d, ttl=300: (True, n, t, ttl, d)
    allq = lambda n: [(n, A), (n, AAAA), (n, CNAME), (n, NS), (n, ANY), (n, SOA), (n, MX), (n, AXFR)]

    # the pinned fixture's shape: authoritative + non-authoritative zone + cache
    cs.append(encode(
        [auth([I("www.authoritative.example.com.", A, a(0x01010101)),
               I("cname-a.authoritative.example.com.", CNAME, cn("www.authoritative.example.com.")),
               I("cname-na.authoritative.example.com.", CNAME, cn("a.example.com.")),
               I("delegated.authoritative.example.com.", NS, cn("ns.delegated.authoritative.example.com.")),
               I("trailing-cname.authoritative.example.com.", CNAME, cn("www.example.com."))],
              "authoritative.example.com."),
         nonauth([I("a.example.com.", A, a(0x01010101)), I("blocked.example.com.", A, a(0)),
                  I("cname-a.example.com.", CNAME, cn("www.authoritative.example.com.")),
                  I("cname-na.example.com.", CNAME, cn("a.example.com.")),
                  I("delegated.example.com.", NS, cn("ns.delegated.example.com."))], "example.com.")],
        [("cached.example.com.", A, 300, a(0x02020202)), ("a.example.com.", A, 300, a(0x03030303)),
         ("a.example.com.", MX, 300, tok.rd_mx(10, tok.name("mail.example.com."))),
         ("www.example.com.", A, 300, a(0x04040404))],
        allq("www.authoritative.example.com.") + allq("a.example.com.") + allq("cname-na.authoritative.example.com.")
        + allq("cname-a.example.com.") + allq("trailing-cname.authoritative.example.com.")
        + allq("www.delegated.authoritative.example.com.") + allq("www.delegated.example.com.")
        + allq("missing.authoritative.example.com.") + allq("missing.example.com.") + allq("cached.example.com.")
        + allq("blocked.example.com.") + allq("other.net.")))
    # F2 witness (fixed 76c7ba4): NS at the apex must not turn the apex and missing names into referrals
    cs.append(encode([auth([I(ex, NS, cn("ns1.example.com.")), I("www.example.com.", A, a(1))])],
                     [("example.com.", A, 300, a(9)), ("missing.example.com.", A, 300, a(9))],
                     [(ex, A), (ex, SOA), (ex, NS), ("missing.example.com.", A), ("www.example.com.", A), (ex, ANY)]))
    # F12 shape (known finding of C09): referral from an authoritative zone
    cs.append(encode([auth([I("sub.example.com.", NS, cn("ns1.sub.example.com.")), I("sub.example.com.", NS, cn("ns2.elsewhere.net.")),
                            I("alias.example.com.", CNAME, cn("www.sub.example.com."))])],
                     [("www.sub.example.com.", A, 300, a(7))],
                     [("www.sub.example.com.", A), ("sub.example.com.", A), ("sub.example.com.", NS), ("alias.example.com.", A),
                      ("www.sub.example.com.", ANY)]))
    # a CNAME whose target is a name error: Authoritative [cname], not a name error
    cs.append(encode([auth([I("alias.example.com.", CNAME, cn("missing.example.com."))])], [],
                     [("alias.example.com.", A), ("missing.example.com.", A), ("alias.example.com.", CNAME), ("alias.example.com.", ANY)]))
    # aliases held by the cache that run into local data: a delegation, a name error, an authoritative answer
    cs.append(encode([auth([I("sub.example.com.", NS, cn("ns1.sub.example.com.")), I("www.example.com.", A, a(1))])],
                     [("x.cached.org.", CNAME, 300, cn("www.sub.example.com.")), ("y.cached.org.", CNAME, 300, cn("missing.example.com.")),
                      ("z.cached.org.", CNAME, 300, cn("www.example.com.")), ("w.cached.org.", CNAME, 300, cn("x.cached.org."))],
                     [("x.cached.org.", A), ("y.cached.org.", A), ("z.cached.org.", A), ("w.cached.org.", A), ("w.cached.org.", ANY),
                      ("z.cached.org.", CNAME), ("z.cached.org.", AXFR)]))
    # the override the pinned test meant to show: non-authoritative zone vs a populated cache
    cs.append(encode([nonauth([I("www.example.com.", A, a(1)), I("www.example.com.", A, a(2))])],
                     [("www.example.com.", A, 60, a(3)), ("www.example.com.", AAAA, 60, tok.rd_aaaa([0] * 15 + [1])),
                      ("www.example.com.", MX, 60, tok.rd_mx(1, tok.name("m.example.com.")))],
                     [("www.example.com.", A), ("www.example.com.", AAAA), ("www.example.com.", ANY), ("www.example.com.", MX)]))
    # nested apexes: '.' hosts-style, example.com authoritative, sub.example.com non-authoritative / authoritative
    for sub_auth in (False, True):
        sub = {"apex": "sub.example.com.", "soa": soa("sub.example.com.", 5) if sub_auth else None,
               "ops": [I("www.sub.example.com.", A, a(5)), W("sub.example.com.", TXT, tok.rd_octets(b"w"))]}
        cs.append(encode(
            [nonauth([I("ads.example.com.", A, a(0)), I("www.sub.example.com.", A, a(0)), I("tracker.net.", A, a(0)),
                      I("x.sub.example.com.", AAAA, tok.rd_aaaa([0] * 16))]),
             auth([I("www.example.com.", A, a(1)), W(ex, A, a(2)), I("www.sub.example.com.", A, a(3)), I("ads.example.com.", CNAME, cn("tracker.net."))]),
             sub],
            [("ads.example.com.", A, 300, a(8)), ("www.sub.example.com.", A, 300, a(8)), ("x.sub.example.com.", A, 300, a(8)),
             ("tracker.net.", A, 300, a(8)), ("tracker.net.", AAAA, 300, tok.rd_aaaa([1] * 16)), ("zzz.sub.example.com.", TXT, 300, tok.rd_octets(b"c"))],
            allq("ads.example.com.") + allq("www.sub.example.com.") + allq("x.sub.example.com.") + allq("tracker.net.")
            + allq("zzz.sub.example.com.") + allq("nothere.example.com.") + allq("sub.example.com.") + allq("com.")))
    # alias loops and chains around the recursion limit, in a zone, in the cache, alternating
    for where in ("zone", "nzone", "cache", "mixed"):
        for n in (0, 1, 2, 31, 32, 33, 34, 40):
            for end in ("a", "none", "cycle", "self"):
                cs.append(chain_case(where, n, end, None))
    return cs


def chain_case(where, n, end, rng):
    """n links c0 -> c1 -> ... -> cn; `end`: the final target has an A record ('a'), nothing ('none'),
    points back to c0 / a random earlier name ('cycle'), or to itself ('self')."""
    apexes = {"zone": "example.com.", "nzone": "hosts.lan.", "cache": "cached.org."}
    srcs = ["zone", "nzone", "cache"]
    zone_ops = []
    nzone_ops = []
    cache = []

    def src_of(i):
        if where == "mixed":
            return srcs[i % 3] if rng is None else rng.choice(srcs)
        return where
    names = []
    for i in range(n + 1):
        s = src_of(i)
        names.append(("c%d." % i) + apexes[s])
    srcl = [("zone" if nm.endswith("example.com.") else "nzone" if nm.endswith("hosts.lan.") else "cache") for nm in names]

    def put(i, t, d):
        if srcl[i] == "zone":
            zone_ops.append((False, names[i], t, 300, d))
        elif srcl[i] == "nzone":
            nzone_ops.append((False, names[i], t, 300, d))
        else:
            cache.append((names[i], t, 300, d))
    for i in range(n):
        put(i, CNAME, cn(names[i + 1]))
    if end == "a":
        put(n, A, a(0x0A000000 + n))
        if rng is not None and rng.random() < 0.3:
            put(n, A, a(0x0B000000 + n))
    elif end == "cycle":
        back = 0 if rng is None or n == 0 else rng.randint(0, n)
        put(n, CNAME, cn(names[back]))
    elif end == "self":
        put(n, CNAME, cn(names[n]))
    zones = [{"apex": "example.com.", "soa": soa("example.com."), "ops": zone_ops},
             {"apex": "hosts.lan.", "soa": None, "ops": nzone_ops}]
    if rng is not None and rng.random() < 0.3:
        zones.insert(0, {"apex": ".", "soa": None, "ops": []})
    qs = [(names[0], A), (names[0], AAAA), (names[0], CNAME), (names[0], ANY), (names[n], A)]
    if n >= 2:
        mid = n // 2 if rng is None else rng.randint(1, n - 1)
        qs += [(names[mid], A), (names[1], MX)]
    if rng is not None and rng.random() < 0.5:
        # distractors in the cache for chain names owned by zones, and reversed storage order
        for i in range(0, n + 1, 3):
            if srcl[i] != "cache":
                cache.append((names[i], A, 60, a(0xDEAD0000 + i)))
        if rng.random() < 0.5:
            cache.reverse()
    lb = "0-2" if n <= 2 else "3-29" if n < 30 else "30-34" if n <= 34 else "35+"
    return encode(zones, cache, qs, "chain:%s:%s:%s" % (where, lb, end))


# --------------------------------------------------------------------------
# random configurations
# --------------------------------------------------------------------------

APEXES = [".", "com.", "example.com.", "sub.example.com.", "deep.sub.example.com.", "example.net.", "lan."]
LABELS = ["www", "a", "b", "sub", "deep", "x", "mail", "ns", "ads"]
QTYPES = [A, A, A, AAAA, CNAME, NS, MX, TXT, SOA, ANY, ANY, AXFR, MAILB, PTR, SRV, 99]
RTYPES = [A, A, A, AAAA, CNAME, CNAME, NS, MX, TXT]


def rand_name(rng, under=None):
    base = under if under is not None else rng.choice(APEXES)
    k = rng.choice([0, 1, 1, 1, 2, 2, 3])
    ls = [rng.choice(LABELS) for _ in range(k)]
    return ".".join(ls + [base]) if base != "." else (".".join(ls) + "." if ls else ".")


def rand_rdata(rng, t, names):
    if t == A:
        return a(rng.choice([0, 0, 1, 2, 0x7F000001, rng.getrandbits(32)]))
    if t == AAAA:
        return tok.rd_aaaa(rng.choice([[0] * 16, [0] * 15 + [1], [rng.randint(0, 255) for _ in range(16)]]))
    if t in (CNAME, NS, PTR):
        return cn(rng.choice(names))
    if t == MX:
        return tok.rd_mx(rng.choice([0, 10]), tok.name(rng.choice(names)))
    if t == SOA:
        return tok.rd_soa(tok.name(rng.choice(names)), tok.name(rng.choice(names)), 1, 2, 3, 4, rng.choice([0, 5, 300]))
    if t == SRV:
        return tok.rd_srv(1, 2, 53, tok.name(rng.choice(names)))
    return tok.rd_octets([rng.randint(0, 255) for _ in range(rng.choice([0, 1, 3]))])


def random_case(rng, messy):
    """zones with nested apexes + cache + questions over one shared pool of names.  `messy` adds the
    shapes outside what the zone-file loader would build (records outside the apex, several CNAMEs and
    CNAME + other data at one name, wildcard NS, records beneath delegation points, replaced zones, cache
    entries with TTL 0 / duplicates / SOA, odd qclass)."""
    k = rng.choice([0, 1, 1, 2, 2, 3, 3, 4])
    apexes = rng.sample(APEXES, k)
    pool = dedup([rand_name(rng, rng.choice(apexes) if apexes and rng.random() < 0.8 else None) for _ in range(rng.randint(3, 10))])
    extra = [rand_name(rng) for _ in range(3)]          # names nothing is stored at
    targets = pool + extra
    zones = []
    for ap in apexes:
        auth = rng.random() < 0.55
        z = {"apex": ap, "soa": soa(ap, rng.choice([0, 1, 5, 300, 3600])) if auth else None, "ops": []}
        inside = [n for n in pool if n.endswith(ap) or ap == "."]
        for _ in range(rng.choice([0, 1, 2, 3, 5, 8])):
            if inside and rng.random() < 0.85:
                n = rng.choice(inside)
            elif messy and rng.random() < 0.3:
                n = rng.choice(targets)                  # possibly outside the apex: ignored by Zone::insert
            else:
                n = rand_name(rng, ap)
            t = rng.choice(RTYPES)
            wild = rng.random() < 0.15
            if not messy:
                if t == NS and (wild or n == ap and rng.random() < 0.5):
                    t = A
                # keep CNAME names clean of other data and of second CNAMEs
                if any(o == n and w == wild and (tt == CNAME or t == CNAME) for (w, o, tt, _, _) in z["ops"]):
                    continue
            if not auth and rng.random() < 0.3 and t in (A, AAAA):
                d = a(0) if t == A else tok.rd_aaaa([0] * 16)   # blocklist entry
            else:
                d = rand_rdata(rng, t, targets)
            z["ops"].append((wild, n, t, rng.choice([0, 1, 5, 300, 300, 3600]), d))
        if messy and rng.random() < 0.1:
            z["ops"].append((False, ap, SOA, 300, rand_rdata(rng, SOA, targets)))
        if not messy:
            # D1: nothing beneath (and no wildcard at) a delegation point
            cuts = [o for (w, o, t, _, _) in z["ops"] if t == NS and not w and o != ap]
            z["ops"] = [op for op in z["ops"]
                        if not any((op[1] != c and op[1].endswith("." + c)) or (op[0] and op[1] == c) for c in cuts)]
        zones.append(z)
    if messy and zones and rng.random() < 0.15:
        z = dict(rng.choice(zones))
        z["ops"] = z["ops"][: len(z["ops"]) // 2]
        z["soa"] = None if z["soa"] else soa(z["apex"])
        zones.append(z)                                  # same apex again: Zones::insert replaces
    cache = []
    for _ in range(rng.choice([0, 1, 2, 4, 6, 10])):
        n = rng.choice(pool) if rng.random() < 0.8 else rng.choice(targets)
        t = rng.choice(RTYPES + ([SOA, PTR] if messy else []))
        ttl = rng.choice([1, 5, 300, 300, 86400] + ([0] if messy else []))
        r = (n, t, ttl, rand_rdata(rng, t, targets))
        if not messy and any(c[0] == r[0] and c[1] == r[1] and c[3] == r[3] for c in cache):
            continue
        if not messy and t == CNAME and any(c[0] == n and c[1] == CNAME for c in cache):
            continue
        cache.append(r)
    if messy and cache and rng.random() < 0.3:
        c = rng.choice(cache)
        cache.append((c[0], c[1], rng.choice([1, 7, 300]), c[3]))   # re-insertion: replaced, swap_remove order
    qs = []
    for _ in range(rng.randint(3, 8)):
        n = rng.choice(targets) if rng.random() < 0.85 else rand_name(rng)
        if rng.random() < 0.15:
            n = "zz." + n if n != "." else "zz."       # a name below a stored one (wildcards, delegations, name errors)
        qs.append((n, rng.choice(QTYPES), IN if not messy or rng.random() < 0.9 else rng.choice([3, 255, 0])))
    return encode(zones, cache, qs, "messy" if messy else "random")


def corpus_file(pid):
    """regression witnesses kept as case lines in /verif/corpus/<id>/regressions.txt (run first)"""
    import os
    p = os.path.join(os.path.dirname(os.path.dirname(os.path.abspath(__file__))), "corpus", pid, "regressions.txt")
    if not os.path.exists(p):
        return []
    with open(p) as f:
        return [l.rstrip("\n") for l in f if l.startswith("local ")]


def generate(rng, tier, pid=None):
    n = 5000 if tier == "quick" else 100000
    cases = corpus_file(pid) if pid else []
    cases += [c if len(c.split(" ")) == 6 else c + " corpus" for c in corpus()]
    while len(cases) < n:
        r = rng.random()
        if r < 0.50:
            cases.append(random_case(rng, False))
        elif r < 0.70:
            cases.append(random_case(rng, True))
        else:
            where = rng.choice(["zone", "nzone", "cache", "mixed", "mixed", "mixed"])
            ln = rng.choice([0, 1, 2, 3, 5, 8, 13, 20, 29, 30, 31, 32, 33, 34, 35, 40])
            cases.append(chain_case(where, ln, rng.choice(["a", "a", "none", "cycle", "cycle", "self"]), rng))
    return cases
