"""C10 -- CNAME chains are returned whole, in order, and loops end safely (local part).

At this stage the stream and the theorems cover chains whose links come from zones
and the cache (local resolution / authoritative-only mode).  Chains that continue
upstream (recursive_chain_ok, forwarding_chain_ok, filter_chain_ok) are covered by the
resolver subsystem's streams when they land.
"""
from . import localgen as g
from .tok import CNAME, ANY

ID = "C10"
DRIVER = "local"
COQ_TARGETS = ["Properties/C10.vo"]
THEOREMS = ["C10_local_chain_ok", "C10_authoritative_only_chain_ok", "C10_referral_only_direct_local",
            "C10_zones_typed_answers_ok", "C10_recursion_shape", "C10_stack_never_repeats", "C10_fuel_suffices",
            "C10_loops_end_local", "C10_loops_end_top_local"]
RULE = ("case = zones + cache contents + questions, a third of them alias graphs (chains of 0..40 links spread over an "
        "authoritative zone, a non-authoritative zone and the cache; ending in data, nothing, a cycle or a self-loop); "
        "non-trivial = distinct case line in which at least one question of a type other than CNAME/ANY is answered with "
        "at least one CNAME record according to the model")
ASSUMPTIONS = [
    "local part only: links from zones and cache; upstream links are the resolver subsystem's",
    "C10_local_chain_ok takes two facts about the sources as hypotheses: (zones) a zone answer / CNAME result is owned by "
    "the query name with the asked type / type CNAME and target = rdata -- true of zones built by insertion, to be "
    "discharged from the C02 development; (cache) the read function returns only RRs of the asked name whose type "
    "matches -- C05's lemma.  The correspondence stream checks chain_ok on the real zones and the real cache",
    "a direct referral (question beneath a delegation point of an authoritative zone, no alias involved) returns the "
    "delegation's NS records in the answer: that is C09's known finding F12, excluded from chain_ok here and stated "
    "separately (C10_referral_only_direct: it happens only when the zone's own result for the question name is a referral)",
    "Context::at_recursion_limit: capacity = RECURSION_LIMIT exactly (see C01)",
]
TRUSTED = ["oracle restricted (soundness): replies that are direct referrals (local result Delegation, F12 of C09) are not "
           "checked against chain_ok"]


def generate(rng, tier):
    return g.generate(rng, tier, ID)


def oracle(case, impl, model):
    if impl == "Panic":
        return ("panic", "local resolution (or building its configuration) panicked")
    try:
        zones, cache, questions = g.parse_case(case)
        outs = g.parse_out(impl)
    except Exception:
        return None
    if outs is None or len(outs) != len(questions):
        return None
    for q, (res, loc) in zip(questions, outs):
        n, qt = q["name"], q["qtype"]
        qs = "%s type %d" % (g.show_name(n), qt)
        if res["kind"] == "Panic" or loc["kind"] == "Panic":
            return ("panic", "question %s: resolution panicked" % qs)
        if qt in (CNAME, ANY) or res["kind"] not in ("A", "N"):
            continue
        if loc["kind"] == "G":
            continue            # direct referral: F12 (C09)
        why = g.chain_ok(n, qt, res["rrs"])
        if why:
            return ("chain-broken", "question %s: %s" % (qs, why))
        if loc["kind"] in ("DA", "DN", "P", "C"):
            why = g.chain_ok(n, qt, loc["rrs"])
            if why:
                return ("chain-broken", "question %s (resolve_local): %s" % (qs, why))
    return None


def nontrivial(case, model):
    try:
        _, _, questions = g.parse_case(case)
        outs = g.parse_out(model)
    except Exception:
        return False
    if outs is None:
        return False
    return any(q["qtype"] not in (CNAME, ANY) and r["kind"] in ("A", "N") and any(x["type"] == CNAME for x in r["rrs"])
               for q, (r, _) in zip(questions, outs))


def kind(case, model):
    t = case.split(" ")
    return t[5] if len(t) > 5 else "untagged"
