"""C10 -- CNAME chains are returned whole, in order, and loops end safely.

Two streams.  The `local` stream (DRIVER; cases from vlib/localgen.py) covers chains whose
links come from zones and the cache (local resolution / authoritative-only mode).  The
network-mode stream (hook `extra`; cases from vlib/netgen.py, run on the `resolver` drivers)
covers chains that continue upstream in recursive and forwarding mode: links spread over
local zones, the cache and upstream servers, upstream cycles, chains beyond the limit of 32.
THEOREMS lists the proved statements; the theorems about the network modes
(recursive_chain_ok, forwarding_chain_ok) are added to Properties/C10.v separately.
"""
from . import localgen as g
from .tok import CNAME, ANY

ID = "C10"
DRIVER = "local"
COQ_TARGETS = ["Properties/C10.vo"]
THEOREMS = ["C10_local_chain_ok", "C10_authoritative_only_chain_ok", "C10_referral_only_direct_local",
            "C10_zones_typed_answers_ok", "C10_recursion_shape", "C10_stack_never_repeats", "C10_fuel_suffices",
            "C10_loops_end_local", "C10_loops_end_top_local",
            "C10_recursive_chain_ok", "C10_forwarding_chain_ok", "C10_partial_only_for_any", "C10_local_alias_chain", "C10_simple_cache_ok", "C10_recursive_owner_twice"]
RULE = ("local stream: case = zones + cache contents + questions, a third of them alias graphs (chains of 0..40 links spread over an "
        "authoritative zone, a non-authoritative zone and the cache; ending in data, nothing, a cycle or a self-loop); "
        "non-trivial = distinct case line in which at least one question of a type other than CNAME/ANY is answered with "
        "at least one CNAME record according to the model.  Network-mode stream (recursive in all four protocol modes, and "
        "forwarding; counted in `extra`): case = a generated universe of upstream servers x local zones x initial cache x 1..12 "
        "questions on one cache, with alias chains crossing local zone -> cache -> upstream, cached chains of 1..3 links ending at a "
        "name only upstream knows, upstream cycles (through the question name, not through it, self-loops, across two zones, entered "
        "through a cached or local alias), chains of 29..40 links inside one upstream zone (one reply), alternating between two "
        "upstream zones (one resolution step per link), inside a local zone, and local or cached links followed by upstream links, a "
        "local chain of 1100 links, upstreams that contradict themselves about one alias from one reply to the next or against the "
        "cache; same non-triviality rule")
ASSUMPTIONS = [
    "all three modes are exercised by streams; the theorems listed cover chains whose links come from zones and the cache (the "
    "network-mode theorems recursive_chain_ok / forwarding_chain_ok are being added to Properties/C10.v separately and appear in "
    "THEOREMS when proved)",
    "network-mode oracle, on the implementation's output alone: every question completes (the driver survives: no hang, no stack "
    "overflow) within 60 s of virtual time; every successful reply holds no record twice and, for a question type other than "
    "CNAME/ANY, satisfies chain_ok -- in recursive mode always; in forwarding mode when every answer the forwarder gave during "
    "that resolution is itself repetition-free and in chain order (D6: what the forwarder says is passed on as it is).  The "
    "forwarder is modelled as one server holding every zone of the universe (Universe.serve): its answers are in chain order, "
    "except that for an alias cycle it repeats the cycle up to 64 records -- those replies are the ones not judged (counted in "
    "the evidence)",
    "KNOWN FINDING alias-followed-twice-across-replies (known_findings.json, reported on every run; witnesses first in the "
    "network-mode stream): 'no alias is followed twice' fails when two statements about one alias contradict each other across "
    "sources the question stack does not connect -- two upstream replies (recursive), or the cache and a later upstream / "
    "forwarder reply (both modes): the answer then lists the alias twice, with different targets, every link connecting.  The "
    "oracle files a chain_ok failure under that class only in exactly that shape (links connect from the question name, tail of "
    "the asked type at the last target, no identical record twice, the repeated owner's records have pairwise different "
    "targets and no single upstream reply holds two of them) and still judges the rest of the case; an identical record "
    "repeated, a broken link or a duplicate inside one reply are violations (repeated-record / chain-broken).  The stream "
    "generates such upstreams on purpose (scenario `twoface`: the reply table of a case is computed from two universes)",
    "interpretation: 'chains longer than the recursion limit end in a partial chain or an error' is read as a bound on the work, "
    "not as a ban on complete answers: in the network modes each stage of the resolution follows up to 32 local links and hands the "
    "rest to the next stage (one question-stack slot each), so a 40-link chain inside a local zone is answered whole and in order "
    "(authoritative-only mode: partial); the bound is about 32 x 32 links (corpus: 1100 links end in an error)",
    "network-mode stream: what an upstream server says is Universe.serve (tabulated per case); no transport faults (C08's); sorted "
    "candidate order (H5); fixed clock",
    "C10_local_chain_ok takes two facts about the sources as hypotheses: (zones) a zone answer / CNAME result is owned by "
    "the query name with the asked type / type CNAME and target = rdata -- true of zones built by insertion, to be "
    "discharged from the C02 development; (cache) the read function returns only RRs of the asked name whose type "
    "matches -- C05's lemma.  The correspondence stream checks chain_ok on the real zones and the real cache",
    "a direct referral (question beneath a delegation point of an authoritative zone, no alias involved) returns the "
    "delegation's NS records in the answer: that is C09's known finding F12, excluded from chain_ok here and stated "
    "separately (C10_referral_only_direct: it happens only when the zone's own result for the question name is a referral)",
    "Context::at_recursion_limit: capacity = RECURSION_LIMIT exactly (see C01)",
]
TRUSTED = ["oracle restricted (soundness): replies that are direct referrals (local result Delegation, F12 of C09) are not "
           "checked against chain_ok",
           "network-mode stream: hooks H3 (in-memory UdpSocket/TcpStream) and H5 (sorted candidate order) in /repo under "
           "cfg(resolved_verif); the mock handler of harness/src/resolver.rs; the reference decoder vlib/wireref.py (used to "
           "judge the forwarder's own answers)"]


def generate(rng, tier):
    return g.generate(rng, tier, ID)


def oracle(case, impl, model):
    if impl == "Panic":
        return ("panic", "local resolution (or building its configuration) panicked")
    try:
        zones, cache, questions = g.parse_case(case)
        outs = g.parse_out(impl)
    except Exception:
        return None
    if outs is None or len(outs) != len(questions):
        return None
    for q, (res, loc) in zip(questions, outs):
        n, qt = q["name"], q["qtype"]
        qs = "%s type %d" % (g.show_name(n), qt)
        if res["kind"] == "Panic" or loc["kind"] == "Panic":
            return ("panic", "question %s: resolution panicked" % qs)
        if qt in (CNAME, ANY) or res["kind"] not in ("A", "N"):
            continue
        if loc["kind"] == "G":
            continue            # direct referral: F12 (C09)
        why = g.chain_ok(n, qt, res["rrs"])
        if why:
            return ("chain-broken", "question %s: %s" % (qs, why))
        if loc["kind"] in ("DA", "DN", "P", "C"):
            why = g.chain_ok(n, qt, loc["rrs"])
            if why:
                return ("chain-broken", "question %s (resolve_local): %s" % (qs, why))
    return None


# ---------------------------------------------------------------------------------------------
# recursive and forwarding mode (resolver stream; cases from vlib/netgen.py)
# ---------------------------------------------------------------------------------------------

def repeated(rrs):
    seen = set()
    for x in rrs:
        if x in seen:
            return x
        seen.add(x)
    return None


def followed_twice(c, r, qn, qt):
    """The one recorded way in which chain_ok fails (known finding alias-followed-twice-across-replies), narrowly: the
    CNAME records link up from the question name without a gap, the rest are records of the asked type at the last
    target, no record occurs twice, some alias owner occurs more than once and its records have pairwise DIFFERENT
    targets, and no single upstream reply of this resolution holds two of them -- they come from different replies,
    or from the cache / a local zone and a later reply.  -> None (not that shape: an ordinary chain-broken) | text"""
    from . import netgen, resolvergen as rg
    from . import tok
    rs = [tok.parse_rr(x) for x in r.rrs]
    k = 0
    cur = qn
    while k < len(rs) and rs[k]["type"] == CNAME:
        if rs[k]["name"] != cur:
            return None
        cur = rs[k]["data"][1:]
        k += 1
    if any(x["type"] != qt or x["name"] != cur for x in rs[k:]):
        return None
    by_owner = {}
    for i in range(k):
        by_owner.setdefault(rs[i]["name"], []).append(i)
    multi = {o: ix for o, ix in by_owner.items() if len(ix) > 1}
    if not multi:
        return None
    replies = [a for a in (netgen.reply_answers(c, e) for e in r.log) if a]
    for o, ix in multi.items():
        if len({rs[i]["data"] for i in ix}) != len(ix):
            return None
        if any(sum(1 for i in ix if r.rrs[i] in a) > 1 for a in replies):
            return None
    o, ix = sorted(multi.items())[0]
    return ("alias %s is followed twice, to %s: the statements about it come from different upstream replies (or the cache and a "
            "later reply) and contradict each other; every link of the returned chain connects"
            % (rg.tokname(o), " and then ".join(rg.tokname(rs[i]["data"][1:]) for i in ix)))


def net_oracle(case, impl, stats=None):
    """C10 on the implementation's output of one network-mode case.  Every question: the resolution completes
    (the driver survives: no hang, no stack overflow), within 60 s of virtual time.  Every successful reply: no record
    twice; for a question type other than CNAME/ANY the records satisfy chain_ok.  In forwarding mode the last two are
    judged only when every answer the forwarder gave during the resolution is itself repetition-free and in chain
    order (what the forwarder says is passed on as it is: deviation D6)."""
    from . import netgen, resolvergen as rg
    from . import tok
    if impl.startswith("DRIVER-DIED rc"):
        return ("no-completion", "the resolution did not complete (the driver died on this case: hang, stack overflow or abort; %s)" % impl)
    if impl == "Panic":
        return ("panic", "the resolver panicked")
    try:
        c = rg.Case(case)
        parsed = rg.parse_result(impl)
        if parsed is None:
            return None
        results, _ = parsed
        fwd = c.forwarder()
        known = []

        def count(k):
            if stats is not None:
                stats[k] = stats.get(k, 0) + 1
        for (qn, qt, qc), r in zip(c.questions, results):
            what = "%s type %d" % (rg.tokname(qn), qt)
            if r.kind in ("Panic", "OutOfFuel"):
                return ("panic", "%s: the resolver panicked" % what)
            if r.elapsed > 60001:
                return ("over-budget", "%s: took %d ms of virtual time" % (what, r.elapsed))
            count("completed within 60 s: " + ("answers" if r.kind in ("A", "N", "X") else "errors"))
            if r.kind not in ("A", "N"):
                continue
            if fwd is not None:
                ordered = True
                for e in r.log:
                    ans = netgen.reply_answers(c, e)
                    if ans is not None and (repeated(ans) or rg.chain_ok(e.qname, e.qtype, ans)):
                        ordered = False
                if not ordered:
                    count("forwarding: not judged, the forwarder's own answer repeats or is out of order")
                    continue
            if qt not in (CNAME, ANY):
                k = sum(1 for x in r.rrs if tok.parse_rr(x)["type"] == CNAME)
                count("chain_ok judged (%s): %s" % ("forwarding" if fwd else "recursive",
                                                    "no alias" if k == 0 else "1-3 links" if k <= 3 else "4-31 links" if k < 32 else "32+ links"))
            x = repeated(r.rrs)
            if x:
                return ("repeated-record", "%s: the reply holds %s twice" % (what, x))
            why = rg.chain_ok(qn, qt, r.rrs)
            if why:
                twice = followed_twice(c, r, qn, qt)
                if twice is None:
                    return ("chain-broken", "%s: %s" % (what, why))
                # known finding of C10 (known_findings.json); noted, and the rest of the case is still judged
                known.append(("alias-followed-twice-across-replies", "%s: %s" % (what, twice)))
        if known:
            return known[0]
    except Exception:      # malformed output is a correspondence matter
        return None
    return None


def net_nontrivial(case, model):
    from . import resolvergen as rg
    from . import tok
    p = rg.parse_result(model)
    if p is None:
        return False
    c = rg.Case(case)
    return any(qt not in (CNAME, ANY) and r.kind in ("A", "N") and any(tok.parse_rr(x)["type"] == CNAME for x in r.rrs)
               for (qn, qt, qc), r in zip(c.questions, p[0]))


def extra(ctx):
    from . import netgen
    return netgen.run(ctx, ID, net_oracle, net_nontrivial)


def nontrivial(case, model):
    try:
        _, _, questions = g.parse_case(case)
        outs = g.parse_out(model)
    except Exception:
        return False
    if outs is None:
        return False
    return any(q["qtype"] not in (CNAME, ANY) and r["kind"] in ("A", "N") and any(x["type"] == CNAME for x in r["rrs"])
               for q, (r, _) in zip(questions, outs))


def kind(case, model):
    t = case.split(" ")
    return t[5] if len(t) > 5 else "untagged"
