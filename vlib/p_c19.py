"""C19 -- reload swaps the whole configuration or none of it.

Two ties to the code:

1. Stream "config" (syntax: ocaml/drv_config.ml), op R: a reload history as data -- a start
   configuration and a sequence of file-system snapshots after edits (add / remove / change / corrupt a
   file, add / remove files and sub-directories in the -Z/-A directories, remove a directory, go back to
   an earlier configuration).  The model runs its state machine (start, reload); the harness writes every
   snapshot to disk, calls the real load_zone_configuration and keeps the previous Zones when it returns
   None (the three lines of reload_task), and both answer a fixed question list after every step through
   resolve() in authoritative-only mode.

2. extra(): the REAL binary (cargo build --release -p resolved, guard off) is started in
   authoritative-only mode on loopback with -Z/-A directories under build/run; every edit step is
   followed by SIGUSR1 and a wait for the "done - success" / "done - failure" log line; queries are sent
   over UDP before the signal (files already changed on disk), continuously while the signal is handled
   (a thread), and after; every reply is compared with the model's state machine (op M of the model
   driver): before = old configuration, after = new configuration if the load succeeded, else the old one;
   during = exactly the old or exactly the new reply, never going back from new to old.  Every record of
   a generated file carries the version number of the edit step that wrote it (A 10.<v>.<k>.x, SOA serial
   v, AAAA ..:v:k), several records per name and alias chains across zone files and into the hosts data
   change together, so a reply mixing two configurations matches neither.
"""
import os
import random
import re
import signal
import socket
import struct
import subprocess
import threading
import time

from . import core, tok
from . import configgen as cg

ID = "C19"
DRIVER = "config"
COQ_TARGETS = ["Properties/C19.vo"]
RULE = ("stream: reload histories of 4..10 steps over -Z/-A directories (plus explicit -z/-a files in 40%), each step 1..3 "
        "edits (add/remove/change/corrupt/repair a file, bump all files, add/remove a sub-directory, remove a directory, "
        "revisit an earlier configuration), 48 questions after every step; non-trivial = distinct history with at least one "
        "successful and, among all histories, failed reloads; extra: the same histories against the real binary with SIGUSR1, "
        "counted per reload step")
ASSUMPTIONS = [
    "the write of a reload and the read of a query are atomic steps of the model (one state variable); that tokio's RwLock "
    "serialises the writer against in-flight readers is outside the model and is observed on the real binary (replies during "
    "a reload are exactly old or exactly new)",
    "in authoritative-only mode nothing enters the cache (resolve() runs resolve_local only), so replies are a function of "
    "the zones alone; checked by the real-binary runs",
    "the files do not change while one load runs (the harness edits, then signals, then waits for the 'done' line)",
    "load is the model of C12 (files as parsed data)",
]
TRUSTED = ["python DNS query encoder / reply decoder of vlib/p_c19.py (A, AAAA, NS, CNAME, SOA, MX, TXT; name compression)",
           "python rendering of generated zone / hosts data as text (vlib/configgen.py)"]

HIST = {"n": 0}


# ----------------------------------------------------------------------------
# stream R
# ----------------------------------------------------------------------------

def generate(rng, tier):
    n = 60 if tier == "quick" else 1500
    cases = []
    for _ in range(n):
        args, qs, steps = cg.rand_history(rng, rng.randint(4, 10))
        cases.append(cg.history_case("R", args, qs, [s[0] for s in steps]))
    # a start configuration that cannot be loaded: main() exits
    args, qs, steps = cg.rand_history(rng, 0)
    cases.append(cg.history_case("R", args.replace("zd", "nozd"), qs, [steps[0][0]]))
    HIST["n"] = len(cases)
    return cases


def split_case(case):
    t = case.split(" ")
    return t[1], cg.parse_args(t[2]), [q.split(":") for q in cg.lst("|", t[3])], t[4:]


def snapshot_info(args, fs_tok_):
    """(bad?, versions present) of a snapshot, read from the case alone"""
    files, dirs = cg.parse_fs(fs_tok_)
    zseq, b1 = cg.file_sequence(args["z"], args["Z"], files, dirs)
    hseq, b2 = cg.file_sequence(args["a"], args["A"], files, dirs)
    versions = set()
    present = []          # (owner token, rr token) of ordinary A records a zone file defines
    for d in zseq:
        if d:
            apex, soa, recs = cg.parse_zone_data(d)
            if soa:
                versions.add(int(soa.split(",")[2]))
            for w, r in recs:
                if not w and r["type"] == tok.A:
                    present.append((r["name"], "%s:%d:%d:%d:%s" % (r["name"], r["type"], r["class"], r["ttl"], r["data"])))
    for d in hseq:
        if d:
            for n, a in cg.parse_hosts_data(d):
                if a[0] == "a":
                    versions.add((int(a[1:]) >> 16) & 255)
    return b1 or b2, versions, present


def rrs_of_answer(ans):
    """the rr tokens of one resolver-level answer (A../.., X.., N../.., E..)"""
    if not ans or ans[0] == "E" or ans in ("Panic", "OutOfFuel"):
        return []
    parts = ans[1:].split("/")
    out = []
    for p in parts:
        if p not in ("None", "_", ""):
            out += p.split(";")
    return out


def oracle(case, impl, model):
    try:
        op, args, qs, fss = split_case(case)
        if op != "R":
            return None
        infos = [snapshot_info(args, f) for f in fss]
    except Exception:
        return None
    if impl == "Panic":
        return ("panic", "load / resolve panicked")
    if infos[0][0]:
        return None if impl == "Exit" else ("started-on-bad-config", "the start configuration is bad, the server must not start")
    if impl == "Exit":
        return ("good-config-rejected", "the start configuration is good, yet it was not loaded")
    steps = impl.split("$")
    if len(steps) != len(fss):
        return None
    prev = None
    seen = {}
    for i, (st, (bad, versions, present)) in enumerate(zip(steps, infos)):
        flag, answers = st[0], st[2:]
        if flag != ("F" if bad else "S"):
            return ("wrong-outcome", "step %d: the load %s although the files are %s" % (i, "failed" if flag == "F" else "succeeded", "bad" if bad else "good"))
        if bad:
            if answers != prev:
                return ("failed-reload-changed-state", "step %d: a file is unreadable or invalid, yet the answers changed" % i)
        else:
            # the new state is a function of the files only
            if fss[i] in seen and seen[fss[i]][1] != answers:
                return ("state-depends-on-history", "step %d: the same files as at step %d were loaded, the answers differ" % (i, seen[fss[i]][0]))
            seen[fss[i]] = (i, answers)
            al = answers.split("|")
            for (qn, qt, qc), a in zip(qs, al):
                rrs = rrs_of_answer(a)
                stamps = cg.stamps_of_rrs(";".join(rrs)) if rrs else set()
                if not stamps <= versions:
                    return ("old-record-survives", "step %d: question %s %s is answered with records of version(s) %s; the files now hold versions %s only"
                            % (i, qn, qt, sorted(stamps - versions), sorted(versions)))
            byq = {(qn, int(qt)): a for (qn, qt, qc), a in zip(qs, al)}
            for owner, rr in present:
                a = byq.get((owner, tok.A))
                if a is not None and rr not in rrs_of_answer(a):
                    return ("added-record-missing", "step %d: %s is defined by a loaded file but not in the answer %s" % (i, rr, core.trunc(a, 200)))
        prev = answers
    return None


def nontrivial(case, model):
    return model.count("$") >= 1 and "S:" in model


def kind(case, model):
    if model == "Exit":
        return "R:exit"
    steps = model.split("$")
    nf = sum(1 for s in steps if s.startswith("F"))
    return "R:steps=%d:fail=%s" % (min(len(steps), 11), "0" if nf == 0 else ("1" if nf == 1 else "2+"))


# ----------------------------------------------------------------------------
# DNS over UDP (own encoder / decoder)
# ----------------------------------------------------------------------------

def enc_name(labels):
    out = b""
    for l in labels:
        b = l.encode() if isinstance(l, str) else bytes(l)
        out += bytes([len(b)]) + b
    return out + b"\x00"


def enc_query(qid, labels, qtype):
    return struct.pack(">HHHHHH", qid, 0, 1, 0, 0, 0) + enc_name(labels) + struct.pack(">HH", qtype, 1)


def dec_name(buf, pos, depth=0):
    labels = []
    jumped = False
    end = pos
    hops = 0
    while True:
        n = buf[pos]
        if n == 0:
            pos += 1
            if not jumped:
                end = pos
            break
        if n >= 192:
            ptr = ((n & 63) << 8) | buf[pos + 1]
            if not jumped:
                end = pos + 2
            jumped = True
            pos = ptr
            hops += 1
            if hops > 200:
                raise ValueError("pointer loop")
            continue
        labels.append(bytes(buf[pos + 1:pos + 1 + n]))
        pos += 1 + n
    return labels, end


def name_token(labels):
    return tok.labtok(list(labels) + [b""])


def dec_rr(buf, pos):
    labels, pos = dec_name(buf, pos)
    typ, cls, ttl, rdlen = struct.unpack(">HHIH", buf[pos:pos + 10])
    pos += 10
    rd = buf[pos:pos + rdlen]
    if typ == tok.A:
        d = tok.rd_a(struct.unpack(">I", rd)[0])
    elif typ == tok.AAAA:
        d = tok.rd_aaaa(rd)
    elif typ in tok.NAME_TYPES:
        d = tok.rd_name(name_token(dec_name(buf, pos)[0]))
    elif typ == tok.SOA:
        m, p2 = dec_name(buf, pos)
        r, p3 = dec_name(buf, p2)
        nums = struct.unpack(">IIIII", buf[p3:p3 + 20])
        d = tok.rd_soa(name_token(m), name_token(r), *nums)
    elif typ == tok.MX:
        d = tok.rd_mx(struct.unpack(">H", rd[:2])[0], name_token(dec_name(buf, pos + 2)[0]))
    else:
        d = tok.rd_octets(rd)
    return tok.rr(name_token(labels), typ, ttl, d, cls), pos + rdlen


def dec_reply(buf, qtype):
    """-> (id, '<rcode>/<aa>/<answer rrs>/<authority rrs>', tc)"""
    qid, flags, qd, an, ns, ar = struct.unpack(">HHHHHH", buf[:12])
    pos = 12
    for _ in range(qd):
        _, pos = dec_name(buf, pos)
        pos += 4
    secs = []
    for cnt in (an, ns):
        rrs = []
        for _ in range(cnt):
            r, pos = dec_rr(buf, pos)
            rrs.append(r)
        secs.append(rrs)
    if qtype == 255:
        secs[0] = sorted(secs[0], key=lambda r: int(r.split(":")[1]))      # stable: type groups, Vec order inside
    aa = (flags >> 10) & 1
    rcode = flags & 15
    return qid, "%d/%d/%s/%s" % (rcode, aa, tok.rrs(secs[0]), tok.rrs(secs[1])), (flags >> 9) & 1


def labels_of_qtok(ntok_):
    return [l for l in tok.parse_labels(ntok_) if l != b""]


class Client:
    def __init__(self, port):
        self.port = port
        self.sock = socket.socket(socket.AF_INET, socket.SOCK_DGRAM)
        self.sock.settimeout(1.0)
        self.qid = random.randrange(1, 60000)
        self.sent = 0

    def ask(self, labels, qtype, tries=3):
        """the reply in model syntax, or None if the server does not answer"""
        for _ in range(tries):
            self.qid = (self.qid + 1) & 0xFFFF
            self.sent += 1
            try:
                self.sock.sendto(enc_query(self.qid, labels, qtype), ("127.0.0.1", self.port))
                t0 = time.time()
                while time.time() - t0 < 1.0:
                    buf, _ = self.sock.recvfrom(4096)
                    if len(buf) >= 12 and struct.unpack(">H", buf[:2])[0] == self.qid:
                        return dec_reply(buf, qtype)[1]
            except (socket.timeout, ConnectionRefusedError):
                continue
            except Exception as e:                    # an undecodable reply is a finding in itself
                return "UNDECODABLE:%s" % e
        return None

    def close(self):
        self.sock.close()


def free_port():
    """a port free for UDP and TCP on 127.0.0.1"""
    for _ in range(50):
        u = socket.socket(socket.AF_INET, socket.SOCK_DGRAM)
        try:
            u.bind(("127.0.0.1", 0))
            p = u.getsockname()[1]
            t = socket.socket(socket.AF_INET, socket.SOCK_STREAM)
            try:
                t.bind(("127.0.0.1", p))
                return p
            except OSError:
                continue
            finally:
                t.close()
        finally:
            u.close()
    raise RuntimeError("no free port")


class Server:
    def __init__(self, root, argv_tail):
        self.root = root
        self.lines = []
        self.cv = threading.Condition()
        self.proc = None
        self.argv_tail = argv_tail

    def start(self, startup_timeout=5):
        for attempt in range(5):
            self.port = free_port()
            mport = free_port()
            cmd = [core.release_binary("resolved"), "-i", "127.0.0.1:%d" % self.port, "--metrics-address", "127.0.0.1:%d" % mport,
                   "--authoritative-only"] + self.argv_tail
            env = {k: v for k, v in os.environ.items() if not k.startswith("RESOLVED_") and not k.startswith("RUST_LOG")}
            env["RUST_LOG"] = "resolved=info"
            env["RUST_LOG_FORMAT"] = "no-ansi,no-time"
            self.cmd = cmd
            self.proc = subprocess.Popen(cmd, stdout=subprocess.PIPE, stderr=subprocess.STDOUT, env=env, cwd=self.root)
            threading.Thread(target=self.reader, args=(self.proc,), daemon=True).start()
            c = Client(self.port)
            ok = False
            t0 = time.time()
            while time.time() - t0 < startup_timeout and self.proc.poll() is None:
                if c.ask(["probe", "invalid"], 1, tries=1) is not None:
                    ok = True
                    break
                time.sleep(0.02)
            c.close()
            if ok and self.wait_sigusr1_handler():
                return True
            if self.proc.poll() is not None and any("could not load configuration" in l for l in self.lines):
                return False
            self.stop()
        return False

    def wait_sigusr1_handler(self):
        """reload_task has subscribed to SIGUSR1 (before that the default action would kill the process)"""
        t0 = time.time()
        while time.time() - t0 < 5:
            try:
                with open("/proc/%d/status" % self.proc.pid) as f:
                    m = re.search(r"SigCgt:\s*([0-9a-f]+)", f.read())
                if m and (int(m.group(1), 16) >> (signal.SIGUSR1 - 1)) & 1:
                    return True
            except OSError:
                return False
            time.sleep(0.01)
        return False

    def reader(self, proc):
        for raw in proc.stdout:
            line = raw.decode("utf-8", "replace").rstrip("\n")
            if "UDP request" in line or "authoritative_hits" in line:
                continue
            with self.cv:
                self.lines.append(line)
                self.cv.notify_all()

    def done_count(self):
        with self.cv:
            return sum(1 for l in self.lines if "done - " in l)

    def reload(self, timeout=15.0):
        """SIGUSR1, then the log line: 'success' | 'failure' | None (no line in time / process gone)"""
        with self.cv:
            n0 = sum(1 for l in self.lines if "done - " in l)
        os.kill(self.proc.pid, signal.SIGUSR1)
        t_end = time.time() + timeout
        with self.cv:
            while True:
                done = [l for l in self.lines if "done - " in l]
                if len(done) > n0:
                    return "success" if "done - success" in done[n0] else "failure"
                left = t_end - time.time()
                if left <= 0 or self.proc.poll() is not None:
                    return None
                self.cv.wait(min(left, 0.2))

    def alive(self):
        return self.proc is not None and self.proc.poll() is None

    def stop(self):
        if self.proc is not None:
            try:
                self.proc.kill()
                self.proc.wait(timeout=5)
            except Exception:
                pass


def write_disk(root, disk):
    """make the directory tree under root equal to `disk` ({rel path: bytes | None (dangling symlink) | 'DIR'})"""
    import shutil
    existing = []
    for d, ds, fs in os.walk(root, topdown=False, followlinks=False):
        for x in fs + ds:
            existing.append(os.path.relpath(os.path.join(d, x), root))
    for p in existing:
        full = os.path.join(root, p)
        if not os.path.lexists(full):
            continue
        is_link = os.path.islink(full)
        is_dir = os.path.isdir(full) and not is_link
        want = disk.get(p, "ABSENT")
        keep = (want == "DIR" and is_dir) or (want is None and is_link) or (isinstance(want, bytes) and not is_dir and not is_link)
        if not keep:
            if is_dir:
                shutil.rmtree(full)
            else:
                os.unlink(full)
    for p in sorted(k for k, v in disk.items() if v == "DIR"):
        os.makedirs(os.path.join(root, p), exist_ok=True)
    for p, v in disk.items():
        full = os.path.join(root, p)
        if v == "DIR":
            continue
        if v is None:
            if not os.path.islink(full):
                os.symlink("/nonexistent-verif-target", full)
            continue
        old = None
        try:
            with open(full, "rb") as f:
                old = f.read()
        except OSError:
            pass
        if old != v:
            # written aside (outside the -Z/-A directories) and renamed into place
            tmp = os.path.join(root, ".tmp-write")
            with open(tmp, "wb") as f:
                f.write(v)
            os.replace(tmp, full)


HAMMER_Q = [(("pair",) + ap, 255) for ap in cg.ZA] + [(("alias",) + ap, 1) for ap in cg.ZA] + \
           [(("halias",) + ap, 1) for ap in cg.ZA] + [(ap, 6) for ap in cg.ZA] + [(("shared",) + cg.HOSTS_DOM, 255)]


class Hammer(threading.Thread):
    """asks the mixing-sensitive questions over and over while a reload is handled"""

    def __init__(self, port, old, new):
        super().__init__(daemon=True)
        self.client = Client(port)
        self.old, self.new = old, new
        self.stop_flag = False
        self.n_old = self.n_new = self.n_same = 0
        self.bad = []           # (question, reply, why)
        self.seen_new = {}

    def run(self):
        try:
            self.loop()
        except Exception as e:            # reported by the caller, never swallowed
            self.bad.append((HAMMER_Q[0], None, "harness error in the query thread: %r" % e))
        self.client.close()

    def loop(self):
        i = 0
        while not self.stop_flag:
            q = HAMMER_Q[i % len(HAMMER_Q)]
            i += 1
            r = self.client.ask(list(q[0]), q[1])
            o, n = self.old[q], self.new[q]
            if r is None:
                self.bad.append((q, r, "no reply while a reload was in progress"))
            elif o == n:
                if r != o:
                    self.bad.append((q, r, "reply is neither the old nor the new configuration's"))
                self.n_same += 1
            elif r == n:
                self.n_new += 1
                self.seen_new[q] = True
            elif r == o:
                self.n_old += 1
                if self.seen_new.get(q):
                    self.bad.append((q, r, "old configuration answered after the new one had answered"))
            else:
                self.bad.append((q, r, "reply is neither the old nor the new configuration's (mixed?)"))


def model_history(args, qs, fss):
    """run the model's state machine: [(flag, {question: reply})], or 'Exit'"""
    line = cg.history_case("M", args, qs, fss)
    p = subprocess.run([core.model_driver_path(DRIVER)], input=line + "\n", stdout=subprocess.PIPE, text=True, timeout=600)
    out = p.stdout.strip()
    if out == "Exit" or "$" not in out and not out.startswith("S:"):
        return out, line
    res = []
    for st in out.split("$"):
        al = st[2:].split("|")
        res.append((st[0], dict(zip(qs, al))))
    return res, line


def run_sequence(idx, seed, nsteps, run_dir):
    """one server life: start, nsteps reload steps.  Returns (failures, stats)"""
    rng = random.Random(seed)
    args, qs, steps = cg.rand_history(rng, nsteps)
    fails = []
    stats = {"reloads": 0, "success": 0, "failure": 0, "q_before": 0, "q_during": 0, "q_after": 0, "during_old": 0, "during_new": 0}
    expect, mline = model_history(args, qs, [s[0] for s in steps])
    if isinstance(expect, str):
        return [core.Failure("model", "model driver gave no history: %s" % core.trunc(expect, 200), mline, None, expect, found_input=False)], stats
    # failures carry the history as an R case, so that a replay re-runs it through both stream drivers
    rline = cg.history_case("R", args, qs, [s[0] for s in steps])
    root = os.path.join(run_dir, "srv-%d" % idx)
    os.makedirs(root, exist_ok=True)
    write_disk(root, steps[0][1])
    a = cg.parse_args(args)
    tail = []
    for p in a["z"]:
        tail += ["-z", p]
    for p in a["Z"]:
        tail += ["-Z", p]
    for p in a["a"]:
        tail += ["-a", p]
    for p in a["A"]:
        tail += ["-A", p]
    srv = Server(root, tail)

    def fail(klass, text, step, got, want):
        fails.append(core.Failure(klass, "sequence seed=%d step %d (%s): %s" % (seed, step, steps[step][4], text),
                                  rline, got, want))

    try:
        if not srv.start():
            fails.append(core.Failure("no-start", "the server did not start on a loadable configuration: %s" % core.trunc("\n".join(srv.lines[-5:]), 400),
                                      rline, None, None, found_input=False))
            return fails, stats
        cl = Client(srv.port)

        def check_all(step, phase, subset=None):
            want = expect[step][1]
            for q in (subset or qs):
                r = cl.ask(list(q[0]), q[1])
                stats["q_" + phase] += 1
                if r is None:
                    fail("no-reply", "question %s %d got no reply (%s the reload)" % (".".join(q[0]), q[1], phase), step, r, want[q])
                    return False
                if r != want[q]:
                    fail("reply-differs-" + phase,
                         "question %s %d %s the reload: the server answers %s, the configuration in force answers %s"
                         % (".".join(q[0]), q[1], phase, core.trunc(r, 300), core.trunc(want[q], 300)), step, r, want[q])
                    return False
            return True

        if not check_all(0, "after"):
            return fails, stats
        for i in range(1, len(steps)):
            write_disk(root, steps[i][1])
            # files changed on disk, no signal yet: the old configuration is in force
            sub = rng.sample(qs, 6)
            if not check_all(i - 1, "before", sub):
                break
            h = Hammer(srv.port, expect[i - 1][1], expect[i][1])
            h.start()
            time.sleep(0.002)
            outcome = srv.reload()
            time.sleep(0.003)
            h.stop_flag = True
            h.join(timeout=10)
            stats["reloads"] += 1
            stats["q_during"] += h.n_old + h.n_new + h.n_same
            stats["during_old"] += h.n_old
            stats["during_new"] += h.n_new
            if outcome is None:
                fail("no-reload", "no 'done' log line after SIGUSR1 (server %s)" % ("alive" if srv.alive() else "gone"), i, None, expect[i][0])
                break
            stats[outcome] += 1
            want_flag = "success" if expect[i][0] == "S" else "failure"
            if outcome != want_flag:
                fail("wrong-outcome", "the server logs 'done - %s', the files are %s" % (outcome, "bad" if steps[i][2] else "good"), i, outcome, want_flag)
                break
            if h.bad:
                q, r, why = h.bad[0]
                fail("during-reload", "question %s %d during the reload: %s; got %s; old %s; new %s"
                     % (".".join(q[0]), q[1], why, core.trunc(r, 250), core.trunc(expect[i - 1][1][q], 250), core.trunc(expect[i][1][q], 250)),
                     i, r, expect[i][1][q])
                break
            if not check_all(i, "after"):
                break
        if not srv.alive():
            fails.append(core.Failure("server-died", "the server process ended (exit %s) during sequence seed=%d" % (srv.proc.poll(), seed),
                                      rline, None, None))
        cl.close()
    finally:
        srv.stop()
    return fails, stats


def start_on_bad_config(run_dir):
    """main(): exit(1) when the configuration cannot be loaded"""
    root = os.path.join(run_dir, "srv-bad")
    os.makedirs(os.path.join(root, "zd"), exist_ok=True)
    with open(os.path.join(root, "zd", "bad.zone"), "wb") as f:
        f.write(cg.BAD_ZONE_TEXTS[0])
    srv = Server(root, ["-Z", "zd"])
    try:
        started = srv.start()
        code = srv.proc.poll()
        if started or code != 1:
            return [core.Failure("started-on-bad-config", "the server started (or did not exit 1) on an unparsable zone file; exit=%s" % code,
                                 "zd/bad.zone=" + cg.BAD_ZONE_TEXTS[0].decode(), str(code), "exit 1")]
    finally:
        srv.stop()
    return []


def overlapping_reloads(run_dir):
    """Two edits, each followed by SIGUSR1, the second sent while the first reload is still loading a large
    hosts file: once the server has gone quiet, answers must reflect the LAST edit ('later answers reflect
    the new files only')."""
    root = os.path.join(run_dir, "srv-overlap")
    os.makedirs(os.path.join(root, "hd"), exist_ok=True)
    # a hosts file large enough that loading takes a noticeable time
    with open(os.path.join(root, "hd", "99-big.hosts"), "w") as f:
        for i in range(250000):
            f.write("10.%d.%d.%d h%d.big.test\n" % ((i >> 16) & 255, (i >> 8) & 255, i & 255, i))
    small = os.path.join(root, "hd", "00-small.hosts")     # read BEFORE the big file: a reload in progress has already seen it

    def write_small(addr):
        with open(small + ".tmp", "w") as f:
            f.write("%s overlap.test\n" % addr)
        os.replace(small + ".tmp", small)
    write_small("10.9.9.1")
    srv = Server(root, ["-A", "hd"])
    fails = []
    info = {"overlap_reloads": 0}
    try:
        if not srv.start(startup_timeout=90):
            return [core.Failure("harness", "the server did not start on the large hosts configuration", None, None, None, found_input=False)], info
        c = Client(srv.port)
        labels = ["overlap", "test"]

        def addr_now():
            r = c.ask(labels, 1)
            return None if r is None else str(r)
        first = addr_now()
        for round_ in range(2):
            a_mid = "10.9.%d.2" % (round_ + 1)
            a_last = "10.9.%d.3" % (round_ + 1)
            n0 = srv.done_count()
            write_small(a_mid)
            os.kill(srv.proc.pid, signal.SIGUSR1)
            time.sleep(0.05 + 0.1 * round_)           # the first reload is busy with the big file
            write_small(a_last)
            os.kill(srv.proc.pid, signal.SIGUSR1)
            # quiescence: at least one reload finished after the last signal and no new 'done' line for a while
            t_end = time.time() + 120
            last_n, last_change = srv.done_count(), time.time()
            while time.time() < t_end:
                n = srv.done_count()
                if n != last_n:
                    last_n, last_change = n, time.time()
                if n > n0 and time.time() - last_change > 3.0:
                    break
                time.sleep(0.1)
            info["overlap_reloads"] += srv.done_count() - n0
            got = addr_now()
            if not srv.alive():
                fails.append(core.Failure("server-died-during-reload", "resolved exited during overlapping reloads", "overlap round %d" % round_, None, None))
                break
            if got is None or a_last not in got.replace(" ", ""):
                want_tok = a_last
                # compare on the decoded address rather than on the token text
                ok_ = False
                try:
                    ip = int.from_bytes(bytes(int(x) for x in a_last.split(".")), "big")
                    ok_ = got is not None and ("a%d" % ip) in got
                except Exception:
                    pass
                if not ok_:
                    fails.append(core.Failure(
                        "reload-signal-lost",
                        "two edits each followed by SIGUSR1 (the second while the first reload was running): after the server went quiet "
                        "the answer is %s, the files say %s" % (core.trunc(got, 120), a_last),
                        "C19-overlap hosts-dir: 250000-line hosts file + overlap.test %s -> %s -> %s" % (first and "initial", a_mid, a_last),
                        core.trunc(got, 200), want_tok))
                    break
        c.close()
    finally:
        srv.stop()
    return fails, info


def extra(ctx):
    tier = ctx["tier"]
    ok, out = core.build_release_binaries(["resolved"])
    if not ok or not os.path.exists(core.release_binary("resolved")):
        return [core.Failure("release-build", "cargo build --release -p resolved failed: " + core.trunc(out[-800:], 800), None, None, None,
                             found_input=False)], {}
    nseq, nsteps = (10, 7) if tier == "quick" else (320, 10)
    base = ctx["seed"] * 7919 + 19
    fails = []
    tot = {}
    workers = 4 if tier == "quick" else 8
    results = [None] * nseq
    lock = threading.Lock()
    nxt = [0]

    def work():
        while True:
            with lock:
                i = nxt[0]
                nxt[0] += 1
            if i >= nseq:
                return
            try:
                results[i] = run_sequence(i, base + i, nsteps, ctx["run_dir"])
            except Exception as e:       # harness trouble is reported, not swallowed
                results[i] = ([core.Failure("harness", "sequence %d raised %r" % (i, e), None, None, None, found_input=False)], {})
    ths = [threading.Thread(target=work) for _ in range(workers)]
    t0 = time.time()
    for t in ths:
        t.start()
    for t in ths:
        t.join()
    for r in results:
        if r is None:
            continue
        fails += r[0]
        for k, v in r[1].items():
            tot[k] = tot.get(k, 0) + v
    fails += start_on_bad_config(ctx["run_dir"])
    of, oinfo = overlapping_reloads(ctx["run_dir"])
    fails += of
    tot.update(oinfo)
    info = {"binary": "build/target-release/release/resolved (cargo build --offline --release -p resolved, guard off), --authoritative-only, "
                      "RUST_LOG=resolved=info",
            "sequences": nseq, "wall_s": round(time.time() - t0, 1),
            "evaluations": tot.get("reloads", 0) + tot.get("q_before", 0) + tot.get("q_during", 0) + tot.get("q_after", 0),
            "distinct_nontrivial": tot.get("reloads", 0)}
    info.update(tot)
    return fails, info


THEOREMS = []
try:
    with open(os.path.join(core.COQ, "Properties", "C19.v")) as _f:
        THEOREMS = re.findall(r"^Theorem\s+(C19_\w+)", _f.read(), re.M)
except OSError:
    pass
