"""Network-mode (recursive / forwarding) cases for C01 and C10, on the `resolver` stream.

The case syntax is the resolver stream's (ocaml/drv_resolver.ml); what each upstream server says is
computed by the extracted Coq function Universe.serve through resolvergen.Batch, as for C07/C08/C18.
What is new here is the *local* side of a case: configured zones and initial cache contents that
overlap, contradict or alias into the universe the upstream servers play:

  zones   the root hints zone (non-authoritative `.`) carrying hosts-style overrides and 0.0.0.0 / ::
          blocklist entries; non-authoritative zones with an apex of their own; authoritative zones whose
          apex is a zone of the universe (upstream holds DIFFERENT data for the same names, so any
          substitution shows), an apex inside a universe zone (split horizon) or an apex the universe does
          not know; with CNAMEs inside and leaving the zone, wildcards, delegations to the universe's
          nameserver hosts
  cache   CNAME chains of 1..3 links whose final target only upstream knows; records for names an
          authoritative zone owns; records of the same name and type as a non-authoritative zone's;
          nameserver data of universe zones
  universe additions: aliases pointing into locally owned / overridden names, cycles (through the question
          name, not through it, self-loops, across two zones), chains of 30..40 links inside one zone (one
          reply) and alternating between two zones (one resolution step per link)

Python-side shapes are localgen's: zone = {"apex", "soa", "ops": [(wild, owner, type, ttl, rdata)]},
cache = [(owner, type, ttl, rdata)], question = (name, qtype); names are dotted absolute lower-case.

`run(ctx, pid, oracle, nontrivial)` is the body of the `extra` hook of p_c01 / p_c10: it builds the two
resolver drivers, generates the cases, runs both sides, compares them and applies the property's oracle
to the implementation's output.
"""
import random

from . import core, tok
from . import localgen as g
from . import resolvergen as rg

A, NS, CNAME, SOA, MX, TXT, AAAA, ANY = tok.A, tok.NS, tok.CNAME, tok.SOA, tok.MX, tok.TXT, tok.AAAA, tok.ANY

FWD4 = rg.v4(0x0A0000FD)
FWD6 = rg.v6(0xFD)
REC_MODES = ["rp4", "rp4", "rp4", "rp4", "rp4", "r4", "rp6", "r6"]
CACHED = "cached.test."          # a domain no zone of any universe knows: names only the cache holds
ML_EXTRA = ("vmsg.ml",)


def cn(n):
    return tok.rd_name(tok.name(n))


def I(n, t, d, ttl=300):
    return (False, n, t, ttl, d)


def W(n, t, d, ttl=300):
    return (True, n, t, ttl, d)


def v4(x):
    return rg.v4(x)


def v6(x):
    return rg.v6(x)


def txt(s):
    return tok.rd_octets(bytes([len(s)]) + s.encode())


# ---------------------------------------------------------------------------------------------
# which questions can go upstream: alias closure over every source
# ---------------------------------------------------------------------------------------------

def reachable(u, zones, cache, questions):
    """(name, qtype) for every name an alias path from a client question can reach, whatever mixture of local
    zones, cache and universe supplies the links; plus the address questions for nameserver hosts named by
    local zones or the cache.  (resolvergen.upstream_questions then adds the universe's own hosts.)"""
    exact, wild, hosts = {}, [], []
    for z in u.zones.values():
        for (n, t, ttl, d) in z.rrs:
            if t == CNAME:
                exact.setdefault(n, []).append(rg.tokname(d[1:]))
    for z in zones:
        for (w, n, t, ttl, d) in z["ops"]:
            if t == CNAME:
                if w:
                    wild.append((n, rg.tokname(d[1:])))
                else:
                    exact.setdefault(n, []).append(rg.tokname(d[1:]))
            elif t == NS:
                hosts.append(rg.tokname(d[1:]))
    for (n, t, ttl, d) in cache:
        if t == CNAME:
            exact.setdefault(n, []).append(rg.tokname(d[1:]))
        elif t == NS:
            hosts.append(rg.tokname(d[1:]))
    out, seen = [], set()

    def walk(n0, t):
        todo, k = [n0], 0
        while todo and k < 200:
            n = todo.pop()
            if (n, t) in seen:
                continue
            seen.add((n, t))
            out.append((n, t))
            k += 1
            todo += exact.get(n, [])
            todo += [tg for (o, tg) in wild if n != o and rg.is_sub(n, o)]
    for (n, t) in questions:
        walk(n, t)
    for h in hosts:
        walk(h, A)
        walk(h, AAAA)
    return out


class NetBuilder(rg.CaseBuilder):
    """resolvergen.CaseBuilder with local zones / cache given as data and the table extended to the alias closure"""

    def __init__(self, batch, u, mode, port, questions, zones, cache, kind, forwarder_ip=None, face2=None):
        """face2 = (universe2, [(name, qtype), ...]): the replies to THOSE questions are computed from universe2 (same
        servers, other zone contents) -- an upstream that says something else from one reply to the next"""
        self.u, self.mode, self.port, self.questions, self.faults = u, mode, port, questions, "_"
        self.zones = "|".join(g.enc_zone(z) for z in zones) or "_"
        self.cache = tok.rrs([rg.rrtok(r) for r in cache])
        self.flags = {"kind": kind, "ff": "1"}
        self.extra = {}
        if forwarder_ip is not None:
            # the forwarder answers like a server that holds every zone of the universe
            self.extra[forwarder_ip] = list(u.zones)
        self.utok = u.token(self.extra)
        ups = reachable(u, zones, cache, questions)
        if forwarder_ip is None:
            ups = rg.upstream_questions(u, ups)      # + the address questions for the universe's nameserver hosts
        claims = rg.claimed_apexes(u, self.extra)
        groups = {}
        servers = dict(u.servers)
        servers.update(self.extra)
        for ip in claims:
            groups.setdefault(tuple(sorted(servers.get(ip, []))), []).append(ip)
        self.entries = []
        queries = []
        for key, ips in groups.items():
            cl = set()
            for ip in ips:
                cl |= claims[ip]
            for (n, t) in ups:
                if any(rg.is_sub(n, a) for a in cl):
                    qt = tok.question(tok.name(n), t)
                    self.entries.append((ips, qt))
                    queries.append("%s,%s" % (ips[0], qt))
        self.serve_idx = batch.add("resolver SERVE %s %s" % (self.utok, "+".join(queries))) if queries else None
        self.auth_idx = batch.add("resolver AUTH %s %s" % (self.utok, "|".join(tok.question(tok.name(n), t) for n, t in questions)))
        self.entries2, self.serve2_idx = [], None
        if face2 is not None:
            u2, qs2 = face2
            queries2 = []
            for key, ips in groups.items():
                cl = set()
                for ip in ips:
                    cl |= claims[ip]
                for (n, t) in qs2:
                    if any(rg.is_sub(n, a) for a in cl):
                        qt = tok.question(tok.name(n), t)
                        self.entries2.append((ips, qt))
                        queries2.append("%s,%s" % (ips[0], qt))
            if queries2:
                self.serve2_idx = batch.add("resolver SERVE %s %s" % (u2.token(self.extra), "+".join(queries2)))

    def line(self, outs):
        base = rg.CaseBuilder.line(self, outs)
        if self.serve2_idx is None:
            return base
        hexes = outs[self.serve2_idx].split(";")
        assert len(hexes) == len(self.entries2)
        first = ["%s=%s=%s" % (",".join(ips), qt, h) for (ips, qt), h in zip(self.entries2, hexes) if h not in ("-", "!")]
        t = base.split(" ")
        if first:                                          # the first entry for a key wins in both drivers
            t[7] = "+".join(first + ([t[7]] if t[7] != "_" else []))
        return " ".join(t)


class RawCase:
    """a case line kept verbatim"""

    def __init__(self, text):
        self.text = text

    def line(self, outs):
        return self.text


# ---------------------------------------------------------------------------------------------
# universes
# ---------------------------------------------------------------------------------------------

def base_universe(rng, depth=None, provider=None, fams=("46",), max_ns=2):
    """a resolvergen universe that has the second branch (org. / other.org.)"""
    while True:
        u = rg.gen_universe(rng, depth=depth, provider=provider, fams=fams, max_ns=max_ns)
        if u.other:
            return u


def zone_holding(u, name):
    return u.zones[u.zone_of(name)]


def add_rr(u, n, t, d, ttl=60):
    zone_holding(u, n).rrs.append((n, t, ttl, d))


def add_loops(u, z1, z2):
    """cycles: loop1 <-> loop2 inside z1; pre -> loop1 (the cycle does not pass through `pre`); self -> self;
    preself -> self; xloop.z1 <-> xloop.z2 across two zones; prex.z1 -> xloop.z2"""
    if any(r[0] == "loop1." + z1 for r in u.zones[z1].rrs):
        return
    for (n, d) in [("loop1." + z1, "loop2." + z1), ("loop2." + z1, "loop1." + z1), ("pre." + z1, "loop1." + z1),
                   ("self." + z1, "self." + z1), ("preself." + z1, "self." + z1), ("xloop." + z1, "xloop." + z2),
                   ("xloop." + z2, "xloop." + z1), ("prex." + z1, "xloop." + z2),
                   ("tri1." + z1, "tri2." + z2), ("tri2." + z2, "tri3." + z1), ("tri3." + z1, "tri1." + z1)]:
        add_rr(u, n, CNAME, cn(d))


def add_chain(u, z1, z2, n, prefix, alternate, end="a"):
    """prefix0 -> prefix1 -> ... -> prefix<n>; alternating: odd links live in z2, so no server can chase two
    links in one reply; the last name gets an A record (`a`) or nothing (`none`)"""
    names = ["%s%d.%s" % (prefix, i, z2 if alternate and i % 2 else z1) for i in range(n + 1)]
    for i in range(n):
        add_rr(u, names[i], CNAME, cn(names[i + 1]))
    if end == "a":
        add_rr(u, names[n], A, v4(0xC0000500 + n))
    return names


# ---------------------------------------------------------------------------------------------
# local zones
# ---------------------------------------------------------------------------------------------

def root_zone(u, overrides=()):
    """the root hints, as resolved's configuration holds them: a non-authoritative `.` zone; hosts-file entries and
    blocklists are merged into the same zone"""
    root = u.zones["."]
    ops = [(False,) + r for r in root.rrs if r[1] == NS and r[0] == "."]
    for h in root.ns:
        ops += [(False,) + r for r in u.addr_rrs(h)]
    return {"apex": ".", "soa": None, "ops": ops + list(overrides)}


def merge_zones(zs):
    """one zone per apex (Zones::insert replaces): ops of zones with the same apex and the same kind are joined"""
    out = {}
    for z in zs:
        o = out.get(z["apex"])
        if o is None:
            out[z["apex"]] = {"apex": z["apex"], "soa": z["soa"], "ops": list(z["ops"])}
        elif (o["soa"] is None) == (z["soa"] is None):
            o["ops"] += [op for op in z["ops"] if op not in o["ops"]]
    return list(out.values())


class Parts:
    """what a scenario contributes to a case"""

    def __init__(self, kind):
        self.kind = kind
        self.overrides = []     # ops for the non-authoritative `.` zone
        self.zones = []         # further zones
        self.cache = []
        self.questions = []
        self.face2 = None       # (universe2, questions answered from it), see NetBuilder

    def join(self, other):
        self.face2 = self.face2 or other.face2
        self.kind = self.kind + "+" + other.kind
        self.overrides += other.overrides
        self.zones += other.zones
        self.cache += other.cache
        self.questions += other.questions
        return self


QT_MIX = [A, A, A, AAAA, ANY, ANY, MX, TXT, CNAME, NS]


def sc_override(rng, u, deep=False):
    """hosts-style overrides and blocklist entries for names upstream knows (with other data), knows as aliases,
    or does not know; the cache holds records of the same name and type (other data) and of other types"""
    p = Parts("override")
    apexes = u.chain + [u.other]
    picks = []
    for _ in range(rng.randint(1, 4)):
        ap = u.chain[-1] if deep and rng.random() < 0.7 else rng.choice(apexes)
        picks.append(rng.choice(["www.", "www.", "alias.", "ads.", "txt.", "mail.", "deep.ads.", "ext."]) + ap)
    if rng.random() < 0.15:
        picks.append(rng.choice(sorted(u.hosts)))        # a nameserver host: referrals carry glue for this name
    ops = []
    for k, n in enumerate(g.dedup(picks)):
        style = rng.choice(["a", "a", "a2", "block", "block6", "both", "aaaa"])
        if style in ("a", "a2", "both"):
            ops.append(I(n, A, v4(0x0A090000 + rng.randint(1, 250)), 5))
        if style == "a2":
            ops.append(I(n, A, v4(0x0A090100 + rng.randint(1, 250)), 5))
        if style in ("block", "block6"):
            ops.append(I(n, A, v4(0), 5))
        if style == "block6":
            ops.append(I(n, AAAA, tok.rd_aaaa([0] * 16), 5))
        if style in ("aaaa", "both"):
            ops.append(I(n, AAAA, v6(0x90000 + rng.randint(1, 250)), 5))
        if rng.random() < 0.7:
            p.cache.append((n, A, 300, v4(0x06060600 + k)))
        if rng.random() < 0.4:
            p.cache.append((n, AAAA, 300, v6(0x60000 + k)))
        if rng.random() < 0.4:
            p.cache.append((n, MX, 300, tok.rd_mx(5, tok.name("mx." + u.other))))
        if rng.random() < 0.12:
            p.cache.append((n, CNAME, 300, cn("www." + u.other)))
        p.questions += [(n, ANY), (n, A)] + [(n, t) for t in rng.sample([AAAA, MX, TXT, CNAME, NS], rng.randint(0, 3))]
    # in the `.` zone, or in a non-authoritative zone with an apex of its own
    if rng.random() < 0.3:
        ap = rng.choice(apexes)
        mine = [op for op in ops if rg.is_sub(op[1], ap)]
        if mine:
            p.zones.append({"apex": ap, "soa": None, "ops": mine})
            ops = [op for op in ops if op not in mine]
            p.kind = "override-zone"
    p.overrides = ops
    rng.shuffle(p.questions)
    return p


def sc_auth(rng, u):
    """an authoritative zone whose apex is a zone of the universe: same names, different data"""
    p = Parts("auth")
    apexes = u.chain + [u.other]
    P = rng.choice(u.chain[:-1] + apexes) if len(u.chain) > 1 else rng.choice(apexes)
    Q = rng.choice([a for a in apexes if a != P and not rg.is_sub(a, P)] or [a for a in apexes if a != P] or [P])
    child = None
    if P in u.chain and u.chain.index(P) + 1 < len(u.chain):
        child = u.chain[u.chain.index(P) + 1]
    minimum = rng.choice([60, 300, 300])
    ops = [I("www." + P, A, v4(0x0A010101)), I("only." + P, A, v4(0x0A010102)), I("only." + P, TXT, txt("local")),
           I("alias." + P, CNAME, cn("www." + P)), I("out." + P, CNAME, cn("www." + Q)),
           I("out2." + P, CNAME, cn("chain." + Q)), I("outnx." + P, CNAME, cn("nx." + Q)),
           W("w." + P, A, v4(0x0A010107)), W("wc." + P, CNAME, cn("www." + Q))]
    if rng.random() < 0.5:
        ops.append(I("www." + P, A, v4(0x0A010103)))
    if rng.random() < 0.4:
        ops.append(I(P, NS, cn("ns." + P)))
        ops.append(I("ns." + P, A, v4(0x0A010153)))
    qs = [("www." + P, A), ("www." + P, ANY), ("www." + P, rng.choice([AAAA, MX, TXT])), ("missing." + P, A),
          ("missing." + P, ANY), ("mail." + P, MX), ("alias." + P, A), ("out." + P, A), ("out2." + P, rng.choice([A, AAAA])),
          ("outnx." + P, A), ("x.w." + P, A), ("y.wc." + P, A), ("a.b.wc." + P, A), ("a.b.w." + P, A), (P, SOA), (P, NS), ("only." + P, ANY), ("out." + P, CNAME),
          ("out." + P, ANY)]
    if child and rng.random() < 0.8:
        for r in u.zones[P].cuts:
            if r[0] == child:
                ops.append(I(child, NS, r[3], r[2]))
                h = rg.tokname(r[3][1:])
                if rg.is_sub(h, P) and not rg.is_sub(h, child):
                    ops += [(False,) + a for a in u.addr_rrs(h)]     # a host the local zone itself has to supply
        qs += [("www." + child, A), ("www." + child, ANY), (child, NS), ("nx." + child, A), ("alias." + child, A)]
        p.kind = "auth-deleg"
    # upstream aliases that point into the locally owned names
    add_rr(u, "into." + Q, CNAME, cn("www." + P), 120)
    add_rr(u, "intonx." + Q, CNAME, cn("missing." + P), 120)
    qs += [("into." + Q, A), ("intonx." + Q, A), ("into." + Q, ANY)]
    p.zones.append({"apex": P, "soa": g.soa(P, minimum), "ops": ops})
    p.cache += [("www." + P, A, 300, v4(0x06060601)), ("missing." + P, A, 300, v4(0x06060602)),
                ("only." + P, AAAA, 300, v6(0x60003)), ("alias." + P, A, 300, v4(0x06060604)),
                ("x.w." + P, A, 300, v4(0x06060605)), ("mail." + P, MX, 300, tok.rd_mx(1, tok.name("www." + Q)))]
    if rng.random() < 0.5:
        p.cache.append(("www." + P, CNAME, 300, cn("www." + Q)))
    p.cache = rng.sample(p.cache, rng.randint(2, len(p.cache)))
    p.questions = rng.sample(qs, rng.randint(4, min(10, len(qs))))
    return p


def sc_split(rng, u):
    """split horizon: an authoritative local zone whose apex lies INSIDE a universe zone; the universe zone holds
    other data for the same names and aliases pointing at them, all on one server"""
    p = Parts("split")
    P = rng.choice(u.chain + [u.other])
    Q = rng.choice([a for a in u.chain + [u.other] if a != P])
    S = "ent." + P                                       # the universe's P zone holds a.ent.P A
    add_rr(u, "b." + S, A, v4(0xC0000601), 300)
    add_rr(u, "portal." + P, CNAME, cn("a." + S), 120)
    add_rr(u, "portal2." + Q, CNAME, cn("a." + S), 120)
    add_rr(u, "portalnx." + P, CNAME, cn("c." + S), 120)
    # an upstream chain that passes THROUGH an owned name and leaves again: portal3.P -> e.S -> www.Q.  When the
    # server of P does not serve Q its reply is CNAME-shaped (no final record) with the owned name as an
    # intermediate owner; the zone's own e.S must still win
    add_rr(u, "portal3." + P, CNAME, cn("e." + S), 120)
    add_rr(u, "e." + S, CNAME, cn("www." + Q), 120)
    ops = [I("a." + S, A, v4(0x0A020201)), I("d." + S, A, v4(0x0A020204)), I("al." + S, CNAME, cn("portal." + P)),
           I("e." + S, A, v4(0x0A020205))]
    p.zones.append({"apex": S, "soa": g.soa(S, 300), "ops": ops})
    p.cache = rng.sample([("a." + S, A, 300, v4(0x06060611)), ("c." + S, A, 300, v4(0x06060612)),
                          ("b." + S, A, 300, v4(0x06060613))], rng.randint(0, 3))
    qs = [("a." + S, A), ("b." + S, A), ("c." + S, A), ("portal." + P, A), ("portal2." + Q, A), ("portalnx." + P, A),
          (S, SOA), ("a." + S, ANY), ("al." + S, A), ("portal." + P, ANY), ("portal." + P, AAAA),
          ("portal3." + P, A), ("portal3." + P, A), ("portal3." + P, AAAA), ("portal3." + P, TXT)]
    p.questions = rng.sample(qs, rng.randint(3, 8))
    return p


def sc_private(rng, u):
    """an authoritative zone for a domain the universe does not know"""
    p = Parts("private")
    P = rng.choice(["lan.", "corp.internal.", "home.arpa."])
    Q = rng.choice(u.chain + [u.other])
    ops = [I("nas." + P, A, v4(0x0A030301)), I("nas." + P, AAAA, v6(0x30301)), I("alias." + P, CNAME, cn("nas." + P)),
           I("out." + P, CNAME, cn("alias." + Q)), I("c1." + P, CNAME, cn("c2." + P)), I("c2." + P, CNAME, cn("c1." + P)),
           I("self." + P, CNAME, cn("self." + P)), W(P, TXT, txt("wild"))]
    p.zones.append({"apex": P, "soa": g.soa(P, rng.choice([0, 60, 300])), "ops": ops})
    p.cache = rng.sample([("nas." + P, A, 300, v4(0x06060621)), ("gone." + P, A, 300, v4(0x06060622)),
                          ("c1." + P, A, 300, v4(0x06060623))], rng.randint(0, 3))
    qs = [("nas." + P, A), ("nas." + P, ANY), ("gone." + P, A), ("gone." + P, ANY), ("alias." + P, AAAA), ("out." + P, A),
          ("c1." + P, A), ("self." + P, A), ("any.thing." + P, TXT), (P, SOA), ("out." + P, MX), ("c1." + P, CNAME)]
    p.questions = rng.sample(qs, rng.randint(3, 8))
    return p


def upstream_targets(u, z):
    return ["www." + z, "www." + z, "alias." + z, "chain." + z, "nx." + z, "txt." + z, "ext." + z if z != u.other else "www." + z]


def sc_cachechain(rng, u):
    """cached CNAME chains of 1..3 links whose final target only upstream knows"""
    p = Parts("cachechain")
    z = rng.choice(u.chain + [u.other])
    for j in range(rng.randint(1, 2)):
        k = rng.randint(1, 3)
        base = CACHED if rng.random() < 0.6 else z          # names upstream would deny / names outside every zone
        names = ["cc%d-%d.%s" % (j, i, base) for i in range(k)]
        target = rng.choice(upstream_targets(u, z))
        if rng.random() < 0.2:
            add_loops(u, u.chain[-1], u.other)
            target = rng.choice(["loop1.", "pre.", "self."]) + u.chain[-1]
        links = [(names[i], CNAME, rng.choice([60, 300]), cn(names[i + 1] if i + 1 < k else target)) for i in range(k)]
        if rng.random() < 0.5:
            links.reverse()
        p.cache += links
        qt = rng.choice([A, A, A, AAAA, TXT, MX, ANY, CNAME])
        p.questions += [(names[0], qt)]
        if rng.random() < 0.5:
            p.questions.append((names[rng.randrange(k)], rng.choice([A, ANY, TXT])))
        if rng.random() < 0.25:
            # the final target is overridden locally: the whole answer is local
            p.overrides.append(I(target, A, v4(0x0A090200 + j), 5))
            p.kind = "cachechain-override"
    return p


def sc_cross(rng, u):
    """an alias chain crossing local zone -> cache -> upstream"""
    p = Parts("cross")
    z = rng.choice(u.chain + [u.other])
    P = rng.choice(["corp.internal.", "lan."])
    auth = rng.random() < 0.6
    k = rng.randint(1, 2)
    hops = ["h%d.%s" % (i, CACHED) for i in range(k)]
    target = rng.choice(upstream_targets(u, z))
    ops = [I("a." + P, CNAME, cn(hops[0])), I("b." + P, CNAME, cn("a." + P)), I("direct." + P, CNAME, cn(target))]
    p.zones.append({"apex": P, "soa": g.soa(P, 60) if auth else None, "ops": ops})
    p.cache = [(hops[i], CNAME, 300, cn(hops[i + 1] if i + 1 < k else target)) for i in range(k)]
    qs = [("a." + P, A), ("b." + P, A), ("a." + P, rng.choice([AAAA, TXT, MX])), ("a." + P, ANY), ("direct." + P, A),
          (hops[0], A), ("a." + P, CNAME)]
    p.questions = rng.sample(qs, rng.randint(2, 5))
    p.kind = "cross-auth" if auth else "cross-nonauth"
    return p


def sc_loops(rng, u):
    """upstream CNAME cycles, entered directly, through a cached alias or through a local zone"""
    p = Parts("loops")
    z1, z2 = u.chain[-1], u.other
    add_loops(u, z1, z2)
    entry = ["loop1." + z1, "pre." + z1, "self." + z1, "preself." + z1, "xloop." + z1, "prex." + z1, "xloop." + z2,
             "tri1." + z1, "tri2." + z2]
    for _ in range(rng.randint(1, 3)):
        e = rng.choice(entry)
        how = rng.choice(["direct", "direct", "cache", "zone"])
        qt = rng.choice([A, A, A, TXT, AAAA, ANY, CNAME])
        if how == "direct":
            p.questions.append((e, qt))
        elif how == "cache":
            n = "in%d.%s" % (len(p.cache), CACHED)
            p.cache.append((n, CNAME, 300, cn(e)))
            p.questions.append((n, qt))
        else:
            P = "corp.internal."
            n = "lp%d.%s" % (len(p.questions), P)
            if not p.zones:
                p.zones.append({"apex": P, "soa": g.soa(P, 60) if rng.random() < 0.6 else None, "ops": []})
            p.zones[0]["ops"].append(I(n, CNAME, cn(e)))
            p.questions.append((n, qt))
    return p


def sc_long(rng, u):
    """chains around and beyond the recursion limit of 32"""
    p = Parts("long")
    z1, z2 = u.chain[-1], u.other
    var = rng.choice(["up-same", "up-alt", "up-alt", "local", "local-cycle", "mixed", "cache-up"])
    n = rng.choice([29, 30, 31, 32, 33, 34, 40])
    tag = "s%d" % rng.randrange(1000)
    end = rng.choice(["a", "a", "none"])
    if var == "up-same":
        names = add_chain(u, z1, z2, n, "l" + tag + "-", False, end)
        p.questions = [(names[0], A), (names[n // 2], rng.choice([A, TXT]))]
    elif var == "up-alt":
        names = add_chain(u, z1, z2, n, "m" + tag + "-", True, end)
        p.questions = [(names[0], A)] + ([(names[rng.randint(1, n - 1)], A)] if rng.random() < 0.5 else [])
    elif var in ("local", "local-cycle"):
        P = "corp.internal."
        auth = rng.random() < 0.6
        names = ["c%d.%s" % (i, P) for i in range(n + 1)]
        ops = [I(names[i], CNAME, cn(names[i + 1])) for i in range(n)]
        if var == "local-cycle":
            ops.append(I(names[n], CNAME, cn(names[rng.choice([0, 0, n // 2, n])])))
        elif end == "a":
            ops.append(I(names[n], A, v4(0x0A040400 + n)))
        else:
            ops.append(I(names[n], CNAME, cn("www." + z1)))     # the chain leaves for upstream after n links
        two = [I("t1." + P, CNAME, cn("t2." + P)), I("t2." + P, CNAME, cn("t1." + P))]
        p.zones.append({"apex": P, "soa": g.soa(P, 60) if auth else None, "ops": ops + two})
        p.questions = [(names[0], A), ("t1." + P, A), (names[n // 2], rng.choice([A, ANY, TXT]))]
    elif var == "mixed":
        P = "corp.internal."
        k = rng.choice([1, 5, 16, 20, 31])
        m = max(1, n - k)
        up = add_chain(u, z1, z2, m, "x" + tag + "-", True, end)
        names = ["c%d.%s" % (i, P) for i in range(k)]
        ops = [I(names[i], CNAME, cn(names[i + 1] if i + 1 < k else up[0])) for i in range(k)]
        p.zones.append({"apex": P, "soa": g.soa(P, 60) if rng.random() < 0.6 else None, "ops": ops})
        p.questions = [(names[0], A)]
    else:  # cache-up: a cached chain of 3 links, then an alternating upstream chain
        up = add_chain(u, z1, z2, n - 3, "y" + tag + "-", True, end)
        names = ["lc%d.%s" % (i, CACHED) for i in range(3)]
        p.cache = [(names[i], CNAME, 300, cn(names[i + 1] if i < 2 else up[0])) for i in range(3)]
        p.questions = [(names[0], A)]
    p.kind = "long-" + var
    return p


def sc_twoface(rng, u):
    """an upstream that contradicts itself from one reply to the next: the reply to the question name ends its chain
    at `b` having passed through `a` (a -> b); the reply to the question about `b` says b -> a and a -> c.  Also the
    variant in which the first statement about `a` is in the cache (left by an earlier resolution)."""
    import copy
    p = Parts("twoface")
    z = u.chain[-1]
    tag = "tf%d" % rng.randrange(1000)
    k = rng.choice([0, 1, 1, 2])                         # links before `a`
    pre = ["%s-p%d.%s" % (tag, i, z) for i in range(k + 1)]
    a, b, c = ["%s-%s.%s" % (tag, x, z) for x in "abc"]
    u2 = copy.deepcopy(u)
    var = rng.choice(["replies", "replies", "cache"])
    first = [(pre[i], pre[i + 1] if i + 1 <= k else a) for i in range(k + 1)] + [(a, b)]
    if var == "replies":
        for (n, d) in first:
            add_rr(u, n, CNAME, cn(d))
    else:
        p.cache = [(n, CNAME, 300, cn(d)) for (n, d) in first]
    add_rr(u2, b, CNAME, cn(a))
    add_rr(u2, a, CNAME, cn(c))
    end = rng.choice(["a", "a", "none", "more"])
    if end == "a":
        add_rr(u2, c, A, v4(0x01020304))
    elif end == "more":
        add_rr(u2, c, CNAME, cn("www." + z))
    p.questions = [(pre[0], A)]
    if rng.random() < 0.4:
        p.questions.append((pre[0], rng.choice([A, TXT])))
    p.face2 = (u2, [(b, A), (b, TXT)])
    p.kind = "twoface-" + var
    return p


def warm_cache(rng, u):
    """nameserver data a previous resolution would have left: the NS set of a universe zone with (some) addresses"""
    z = u.zones[rng.choice(u.chain + [u.other])]
    rrs = [r for r in z.rrs if r[1] == NS and r[0] == z.apex]
    for h in z.ns:
        ad = u.addr_rrs(h)
        if ad and rng.random() < 0.8:
            rrs += rng.sample(ad, rng.randint(1, len(ad)))
    return rrs


SCENARIOS = [sc_override, sc_override, sc_auth, sc_auth, sc_split, sc_private, sc_cachechain, sc_cachechain, sc_cross,
             sc_loops, sc_long, sc_long, sc_twoface]


def plain_questions(rng, u, k):
    return [(a, b) for a, b, _ in (rng.choice(u.questions) for _ in range(k))]


def pick_mode(rng, forwarding=None):
    """-> (mode token, forwarder ip or None)"""
    if forwarding is None:
        forwarding = rng.random() < 0.4
    if forwarding:
        ip = FWD6 if rng.random() < 0.2 else FWD4
        return "f%s@%d" % (ip, rng.choice([53, 53, 5300])), ip
    return rng.choice(REC_MODES), None


def build(batch, u, parts, mode, fwd, rng=None, hints=True, port=53):
    zones = merge_zones(([root_zone(u, parts.overrides)] if hints else
                         ([{"apex": ".", "soa": None, "ops": list(parts.overrides)}] if parts.overrides else [])) + parts.zones)
    cache = g.dedup(parts.cache)
    qs = parts.questions
    if len(qs) > 12:                                      # keep 12, in order, from every contributing scenario
        keep = sorted(rng.sample(range(len(qs)), 12)) if rng is not None else range(12)
        qs = [qs[i] for i in keep]
    mk = "fwd" if fwd else "rec"
    return NetBuilder(batch, u, mode, port, qs, zones, cache, "%s:%s" % (parts.kind, mk), forwarder_ip=fwd, face2=parts.face2)


def random_case(rng, batch):
    fams = ("46",) if rng.random() < 0.8 else rng.choice([("4",), ("6",), ("4", "6", "46")])
    u = base_universe(rng, depth=rng.choice([1, 2, 2, 3, 3, 4]), max_ns=rng.choice([1, 2]), fams=fams)
    sc = rng.choice(SCENARIOS)
    parts = sc(rng, u, True) if sc is sc_override and rng.random() < 0.5 else sc(rng, u)
    if rng.random() < 0.3:
        other = rng.choice([sc_override, sc_auth, sc_cachechain, sc_private, sc_loops])
        if other is not sc or sc is sc_cachechain:
            parts.join(other(rng, u))
    if rng.random() < 0.5:
        parts.questions += plain_questions(rng, u, rng.randint(1, 3))
    if rng.random() < 0.2:
        parts.cache += warm_cache(rng, u)
    if rng.random() < 0.25 and parts.questions:
        parts.questions.append(parts.questions[0])          # the same question again: the cache has changed in between
    mode, fwd = pick_mode(rng)
    hints = not fwd or rng.random() < 0.7                  # a forwarding configuration need not have root hints
    return build(batch, u, parts, mode, fwd, rng, hints, port=rng.choice([53, 53, 53, 5353]))


# ---------------------------------------------------------------------------------------------
# regression / corpus cases (fixed: they do not depend on the run's seed)
# ---------------------------------------------------------------------------------------------

def corpus_universe(seed, depth=2):
    return base_universe(random.Random(seed), depth=depth, provider=False, fams=("46",), max_ns=1)


# the witness of C10's known finding alias-followed-twice-across-replies, as the proof side found it (hand-made reply
# table: root hint ns. = 10.0.0.1; question www.com. A; reply to `www.com. A` = [www.com. CNAME a.com.; a.com. CNAME b.com.];
# reply to `b.com. A` = [b.com. CNAME a.com.; a.com. CNAME c.com.; c.com. A 1.2.3.4])
TWICE_WITNESS = ("resolver R r4 53 -~N~I-:2:1:3600:n6e73.-+I6e73.-:1:1:3600:a167772161 _ 777777.636f6d.-:1:1 "
                 "a167772161=777777.636f6d.-:1:1=0000840000010002000000000377777703636f6d0000010001c00c000500010000012c0007016103636f6d00"
                 "c025000500010000012c0007016203636f6d00+a167772161=62.636f6d.-:1:1=000084000001000300000000016203636f6d0000010001c00c0005"
                 "00010000012c0007016103636f6d00c023000500010000012c0007016303636f6d00c036000100010000012c000401020304 _ "
                 "kind=corpus-alias-followed-twice-witness:rec;ff=1")


def corpus(batch):
    out = [RawCase(TWICE_WITNESS)]
    modes = [("rp4", None), ("f%s@53" % FWD4, FWD4)]

    def both(mk_parts, depth=2, seed=5, hints=True):
        for mode, fwd in modes:
            u = corpus_universe(seed, depth)
            parts = mk_parts(u)
            parts.kind = "corpus-" + parts.kind
            out.append(build(batch, u, parts, mode, fwd, hints=hints))

    # hosts override + referrals + ANY: the override's (name, type) must keep the zone's data, the other types come from upstream
    def c1(u):
        p = Parts("override-referral-any")
        n = "www." + u.chain[-1]
        p.overrides = [I(n, A, v4(0x0A090909), 5)]
        p.cache = [(n, A, 300, v4(0x06060606))]
        p.questions = [(n, ANY), (n, A), (n, AAAA), (n, ANY)]
        return p
    both(c1)
    both(c1, depth=3, seed=6)

    # blocklist entry for a name upstream knows as an alias; ANY on a name only the blocklist knows
    def c2(u):
        p = Parts("blocklist")
        n, m = "alias." + u.chain[-1], "ads." + u.other
        p.overrides = [I(n, A, v4(0), 5), I(m, A, v4(0), 5), I(m, AAAA, tok.rd_aaaa([0] * 16), 5)]
        p.questions = [(n, A), (n, ANY), (m, A), (m, ANY), (m, MX), (n, AAAA)]
        return p
    both(c2)

    # cached two-link CNAME chain whose target only upstream knows (an address; an alias chain; a missing name)
    def c3(u):
        p = Parts("cached-2-chain")
        z = u.chain[-1]
        p.cache = [("k0." + CACHED, CNAME, 300, cn("k1." + CACHED)), ("k1." + CACHED, CNAME, 300, cn("www." + z)),
                   ("j0." + CACHED, CNAME, 300, cn("j1." + CACHED)), ("j1." + CACHED, CNAME, 300, cn("chain." + z)),
                   ("i0." + CACHED, CNAME, 300, cn("i1." + CACHED)), ("i1." + CACHED, CNAME, 300, cn("nx." + z))]
        p.questions = [("k0." + CACHED, A), ("j0." + CACHED, A), ("i0." + CACHED, A), ("k0." + CACHED, TXT), ("k0." + CACHED, ANY),
                       ("k1." + CACHED, A)]
        return p
    both(c3)

    # local 2-cycle and 40-link chain (authoritative and not)
    for auth in (True, False):
        def c4(u, auth=auth):
            p = Parts("local-cycle-and-40-chain" + ("" if auth else "-nonauth"))
            P = "corp.internal."
            names = ["c%d.%s" % (i, P) for i in range(41)]
            ops = [I(names[i], CNAME, cn(names[i + 1])) for i in range(40)] + [I(names[40], A, v4(0x0A040428))]
            ops += [I("t1." + P, CNAME, cn("t2." + P)), I("t2." + P, CNAME, cn("t1." + P)), I("s." + P, CNAME, cn("s." + P))]
            p.zones = [{"apex": P, "soa": g.soa(P, 60) if auth else None, "ops": ops}]
            p.questions = [("t1." + P, A), (names[0], A), ("s." + P, A), (names[9], A), (names[0], ANY)]
            return p
        both(c4)

    # a local chain of 1100 links: in the network modes every stage of the resolution follows up to 32 local links and
    # hands the rest to the next stage (one question-stack slot each), so ~32 x 32 links are the bound; this is beyond it
    def c4b(u):
        p = Parts("local-1100-chain")
        P = "corp.internal."
        names = ["c%d.%s" % (i, P) for i in range(1101)]
        ops = [I(names[i], CNAME, cn(names[i + 1])) for i in range(1100)] + [I(names[1100], A, v4(0x0A04044C))]
        p.zones = [{"apex": P, "soa": g.soa(P, 60), "ops": ops}]
        p.questions = [(names[0], A), (names[200], A), (names[1000], A)]
        return p
    both(c4b)

    # upstream cycles: not through the question name, through it, self-loop, across two zones
    def c5(u):
        p = Parts("upstream-cycles")
        z1, z2 = u.chain[-1], u.other
        add_loops(u, z1, z2)
        p.questions = [("pre." + z1, A), ("loop1." + z1, A), ("self." + z1, A), ("preself." + z1, A), ("xloop." + z1, A),
                       ("prex." + z1, A), ("tri1." + z1, A), ("pre." + z1, TXT)]
        return p
    both(c5)

    # upstream chains: 40 links in one zone (one reply), 31..34 and 40 links alternating between two zones
    for n in (31, 32, 33, 34, 40):
        def c6(u, n=n):
            p = Parts("upstream-chain-%d" % n)
            alt = add_chain(u, u.chain[-1], u.other, n, "m", True)
            p.questions = [(alt[0], A)]
            if n == 40:
                same = add_chain(u, u.chain[-1], u.other, 40, "l", False)
                p.questions.append((same[0], A))
            return p
        both(c6)

    # authoritative zone for a universe apex with other data upstream, cached records for its names, an alias leaving
    # the zone, a delegation that is followed, upstream aliases pointing into the zone
    def c7(u):
        p = Parts("auth-vs-upstream")
        P, C, Q = u.chain[0], u.chain[1], u.other
        ops = [I("www." + P, A, v4(0x0A010101)), I("out." + P, CNAME, cn("chain." + Q)), W("w." + P, A, v4(0x0A010107))]
        for r in u.zones[P].cuts:
            if r[0] == C:
                ops.append(I(C, NS, r[3], r[2]))
                h = rg.tokname(r[3][1:])
                if rg.is_sub(h, P) and not rg.is_sub(h, C):
                    ops += [(False,) + a for a in u.addr_rrs(h)]
        add_rr(u, "into." + Q, CNAME, cn("www." + P), 120)
        add_rr(u, "intonx." + Q, CNAME, cn("missing." + P), 120)
        p.zones = [{"apex": P, "soa": g.soa(P, 300), "ops": ops}]
        p.cache = [("www." + P, A, 300, v4(0x06060601)), ("missing." + P, A, 300, v4(0x06060602)), ("x.w." + P, A, 300, v4(0x06060605))]
        p.questions = [("www." + P, A), ("missing." + P, A), ("mail." + P, MX), ("out." + P, A), ("x.w." + P, A), ("www." + C, A),
                       ("into." + Q, A), ("intonx." + Q, A), ("www." + P, ANY), ("missing." + P, ANY)]
        return p
    both(c7, depth=2, seed=9)

    # split horizon: local authoritative zone inside a universe zone; one upstream server holds both the alias and
    # other data for the alias's target
    def c8(u):
        p = Parts("split-horizon")
        P, Q = u.chain[-1], u.other
        S = "ent." + P
        add_rr(u, "portal." + P, CNAME, cn("a." + S), 120)
        add_rr(u, "portal2." + Q, CNAME, cn("a." + S), 120)
        p.zones = [{"apex": S, "soa": g.soa(S, 300), "ops": [I("a." + S, A, v4(0x0A020201))]}]
        # (the last question repeats the third: by then the cache holds upstream's alias.  Former witness of C01's finding
        # upstream-chain-into-owned-name; since fix b2bc3c2 every question here ends in the zone's 10.2.2.1)
        p.questions = [("a." + S, A), ("portal2." + Q, A), ("portal." + P, A), ("portal." + P, A)]
        return p
    both(c8)

    # an upstream chain passing THROUGH an owned name and out again (a CNAME-shaped reply whose intermediate owner
    # the local zone owns): the zone's record for the owned name wins, for the address and for a type it lacks
    def c8e(u):
        p = Parts("split-horizon-chain-through-owned")
        P, Q = u.chain[-1], u.other
        S = "ent." + P
        add_rr(u, "portal3." + P, CNAME, cn("e." + S), 120)
        add_rr(u, "e." + S, CNAME, cn("www." + Q), 120)
        p.zones = [{"apex": S, "soa": g.soa(S, 300), "ops": [I("e." + S, A, v4(0x0A020205))]}]
        p.questions = [("portal3." + P, A), ("portal3." + P, TXT), ("portal3." + P, A), ("e." + S, A)]
        return p
    both(c8e)

    # the same through the CACHE: the alias and an upstream address for the owned name are cached beforehand
    def c8c(u):
        p = Parts("split-horizon-through-cache")
        P = u.chain[-1]
        S = "ent." + P
        add_rr(u, "portal." + P, CNAME, cn("a." + S), 120)
        p.zones = [{"apex": S, "soa": g.soa(S, 300), "ops": [I("a." + S, A, v4(0x0A020201))]}]
        p.cache = [("portal." + P, CNAME, 120, cn("a." + S)), ("a." + S, A, 300, v4(0xC0000409)),
                   ("kc." + CACHED, CNAME, 300, cn("portal." + P))]
        p.questions = [("portal." + P, A), ("kc." + CACHED, A), ("a." + S, A), ("portal." + P, ANY)]
        return p
    both(c8c)

    # an upstream that contradicts itself between two replies about one alias; and the cache against a later reply
    for var in ("replies", "cache"):
        def c8d(u, var=var):
            import copy
            p = Parts("alias-followed-twice-" + var)
            z = u.chain[-1]
            p0, a, b, c = ["tf-%s.%s" % (x, z) for x in ("p0", "a", "b", "c")]
            u2 = copy.deepcopy(u)
            if var == "replies":
                add_rr(u, p0, CNAME, cn(a))
                add_rr(u, a, CNAME, cn(b))
            else:
                p.cache = [(p0, CNAME, 300, cn(a)), (a, CNAME, 300, cn(b))]
            add_rr(u2, b, CNAME, cn(a))
            add_rr(u2, a, CNAME, cn(c))
            add_rr(u2, c, A, v4(0x01020304))
            p.questions = [(p0, A)]
            p.face2 = (u2, [(b, A)])
            return p
        both(c8d)

    # local zone -> cache -> upstream
    def c9(u):
        p = Parts("zone-cache-upstream")
        z = u.chain[-1]
        P = "corp.internal."
        p.zones = [{"apex": P, "soa": g.soa(P, 60), "ops": [I("a." + P, CNAME, cn("h0." + CACHED))]}]
        p.cache = [("h0." + CACHED, CNAME, 300, cn("chain." + z))]
        p.questions = [("a." + P, A), ("a." + P, TXT), ("a." + P, ANY)]
        return p
    both(c9)
    return out


def chunks(rng, tier, size=1500):
    """the stream, corpus first, in lists of at most `size` case lines (the thorough stream is not held in memory whole)"""
    n = 600 if tier == "quick" else 20000
    done = 0
    while done < n:
        batch = rg.Batch()
        builders = corpus(batch) if done == 0 else []
        while len(builders) < min(size, n - done):
            builders.append(random_case(rng, batch))
        outs = batch.run()
        done += len(builders)
        yield [b.line(outs) for b in builders]


def generate(rng, tier):
    return [c for ch in chunks(rng, tier) for c in ch]


# ---------------------------------------------------------------------------------------------
# helpers for the oracles
# ---------------------------------------------------------------------------------------------

def local_view(case_line):
    """localgen's parsed view (label tuples) of the local zones, cache and questions of a resolver case line"""
    t = case_line.split(" ")
    return g.parse_case("local R %s %s %s" % (t[4], t[5], t[6]))


_TABLES = {}


def table_answers(c):
    """(server ip token, question token) -> list of rr tokens: the answer section of every reply the case's table
    holds, decoded by the reference decoder (vlib/wireref.py)"""
    from . import msgtok, wireref
    key = hash(c.table_tok)
    got = _TABLES.get(key)
    if got is not None:
        return got
    got = {}
    if c.table_tok != "_":
        for e in c.table_tok.split("+"):
            ips, q, hx = e.split("=")
            st, m = wireref.decode(bytes.fromhex(hx))
            if st != "ok":
                continue
            ans = [msgtok.rrtok(r) for r in m[2]]
            for ip in ips.split(","):
                got.setdefault((ip, q), ans)           # the first entry for a key wins, as in the drivers
    if len(_TABLES) > 8:
        _TABLES.clear()
    _TABLES[key] = got
    return got


def reply_answers(c, e):
    """the answer section of the table's reply to logged exchange `e` (None: no such entry, or not a question)"""
    if e.qname is None:
        return None
    return table_answers(c).get((e.ip, tok.question(e.qname, e.qtype, e.qclass)))


def kind_of(case_line):
    """scenario and mode class of a case: the `kind` flag kept in the expect field"""
    i = case_line.rfind(" kind=")
    j = case_line.find(";", i)
    return case_line[i + 6:j] if i >= 0 and j >= 0 else "?"


# ---------------------------------------------------------------------------------------------
# the `extra` hook shared by p_c01 and p_c10
# ---------------------------------------------------------------------------------------------

def model_driver_fresh(name, ml_extra):
    """build/model_<name> exists and its stamp equals the hash of its sources (the .v files it is extracted from and
    their dependencies, the OCaml glue) -- the test core.build_model_driver makes before relinking, made here WITHOUT
    taking the Coq lock (Generated/Tables.v has been regenerated by step 1 of the same check run)"""
    import os
    cap = name[0].upper() + name[1:]
    ext = os.path.join(core.COQ, "Extract", "Extract%s.v" % cap)
    deps = [p for p in core.coq_deps(ext) if p != ext]
    mls = ["vutil.ml", "vmain.ml", "drv_name.ml", "vrr.ml"] + list(ml_extra) + ["drv_%s.ml" % name, "main_%s.ml" % name]
    srcs = deps + [ext] + [os.path.join(core.OCAML_SRC, f) for f in mls]
    stamp = os.path.join(core.BUILD, "model_%s.hash" % name)
    try:
        return bool(deps) and os.path.exists(core.model_driver_path(name)) and open(stamp).read() == core.file_hash(srcs)
    except OSError:
        return False


def run_past_deaths(binary, cases, run_dir, tag, rounds=3):
    """core.run_sharded, continued past a driver death: a shard that crashes (stack overflow, abort) or has not
    finished after 5 minutes (hang) loses its remaining cases (`DRIVER-DIED-AFTER`); those are run again, up to
    `rounds` more times, so one fatal case does not hide the cases behind it.  The fatal case keeps its
    `DRIVER-DIED rc=...` line; cases still not run at the end keep `DRIVER-DIED-AFTER` and are counted, not judged."""
    outs = core.run_sharded(binary, cases, run_dir, tag, timeout=300)
    for k in range(rounds):
        todo = [i for i, o in enumerate(outs) if o == "DRIVER-DIED-AFTER"]
        if not todo:
            break
        again = core.run_sharded(binary, [cases[i] for i in todo], run_dir, "%s-again%d" % (tag, k),
                                 nshards=max(1, min(16, len(todo))), timeout=120)
        for i, o in zip(todo, again):
            outs[i] = o
    return outs


def run(ctx, pid, oracle, nontrivial):
    """-> (failures, info).  oracle(case, impl_out, stats) -> None | (class, text), on the implementation's output only
    (stats: a dict of counters the oracle may fill, shown in the evidence); nontrivial(case, model_out) -> bool."""
    info = {"stream": "resolver (network modes)", "evaluations": 0, "distinct_nontrivial": 0}
    ok, out = (True, "up to date") if model_driver_fresh("resolver", ML_EXTRA) else core.build_model_driver("resolver", ML_EXTRA)
    if not ok:
        return [core.Failure("net-model-build", "model driver `resolver` failed to build: " + core.trunc(out[-800:], 800),
                             found_input=False)], info
    ok, out = core.build_impl_driver("resolver")
    if not ok:
        return [core.Failure("net-impl-build", "harness driver `resolver` failed to build against /repo: " + core.trunc(out[-1500:], 1500),
                             found_input=False)], info
    rng = random.Random(ctx["seed"] * 1000003 + int(pid[1:]) * 7919 + 7)     # (C01 and C10: different streams)
    failures, dist, seen, stats, results, byclass = [], {}, set(), {}, {}, {}
    disagreements = exchanges = questions = not_run = 0
    modes = {}
    sample = {}
    for cases in chunks(rng, ctx["tier"]):
        mouts = run_past_deaths(core.model_driver_path("resolver"), cases, ctx["run_dir"], "net-model")
        iouts = run_past_deaths(core.impl_driver_path("resolver"), cases, ctx["run_dir"], "net-impl")
        if not sample:
            sample = {"case": core.trunc(cases[0], 300), "impl": core.trunc(iouts[0], 300)}
        for c, mo, io in zip(cases, mouts, iouts):
            info["evaluations"] += 1
            h = hash(c)
            if h not in seen:
                seen.add(h)
                try:
                    if nontrivial(c, mo):
                        info["distinct_nontrivial"] += 1
                except Exception:
                    pass
            k = kind_of(c)
            dist[k] = dist.get(k, 0) + 1
            m = c.split(" ", 3)[2]
            m = "forwarding" if m.startswith("f") else "recursive-" + m
            modes[m] = modes.get(m, 0) + 1
            p = rg.parse_result(io)
            if p:
                questions += len(p[0])
                exchanges += sum(len(r.log) for r in p[0])
                for r in p[0]:
                    rk = {"A": "Authoritative", "X": "AuthoritativeNameError", "N": "NonAuthoritative", "E": "error"}.get(r.kind, r.kind)
                    if r.kind == "E":
                        rk += ":" + r.error.split(":")[0]
                    results[rk] = results.get(rk, 0) + 1
            if io == "DRIVER-DIED-AFTER" or mo == "DRIVER-DIED-AFTER":
                not_run += 1                    # behind a fatal case in its shard, in every round
                continue
            f = oracle(c, io, stats)
            if f is not None:
                byclass[f[0]] = byclass.get(f[0], 0) + 1
                if byclass[f[0]] <= 50:         # (every one is counted; the first 50 of a class are kept with their case)
                    failures.append(core.Failure(f[0], f[1] + "  [replay: feed the case line to build/target/debug/impl_resolver]", c, io, mo))
            elif mo != io:
                disagreements += 1
                if disagreements <= 20:
                    failures.append(core.Failure("net-correspondence",
                                                 "model and implementation disagree on a network-mode case (resolver stream); no property "
                                                 "failure found on it  [replay: feed the case line to build/model_resolver and "
                                                 "build/target/debug/impl_resolver]", c, io, mo, found_input=False))
    info.update({"disagreements": disagreements, "not_run_behind_a_driver_death": not_run, "modes": dict(sorted(modes.items())), "questions": questions,
                 "upstream_exchanges_logged": exchanges, "results": dict(sorted(results.items())),
                 "oracle_failures_by_class": dict(sorted(byclass.items())), "oracle_counters": dict(sorted(stats.items())),
                 "distribution": dict(sorted(dist.items())), "sample": sample})
    return failures, info
