"""Shared generator / renderer / independent denotation for the "zonefile" stream (C11, C13, C17).

Abstract syntax (DESIGN 5/C11):
  file  = list of entries
  entry = ("origin", nameref)
        | ("rr", dict(owner=ownerform|None, ttl=int|None, cls=bool, ttl_first=bool, rtype=int, rdata=...))
        | ("raw", text)                       only in corrupted files; never denoted
  nameref   = ("abs", labels) | ("rel", labels) | ("at",)          labels: tuple of bytes, no root label
  ownerform = nameref | ("wild", nameref) | ("star",)              "*.x" / "*"
  rdata     = ("a", u32) | ("aaaa", 16 bytes) | ("name", nameref) | ("soa", nameref, nameref, 5 ints)
            | ("octets", bytes) | ("minfo", nameref, nameref) | ("mx", int, nameref)
            | ("srv", int, int, int, nameref)

render(rng, file, style) turns a file into text choosing a random layout; denote(file) is an independent
python reading of RFC 1035 section 5 plus the documented conventions D3 / D4 and yields the expected
P result string (see ocaml/drv_zonefile.ml) or the string "reject".
"""
import re
import resource

from . import tok

# Deep (non tail-recursive) list functions of the extracted model need stack on megabyte inputs; the Rust
# side runs every case on a fixed 2 MiB thread stack whatever this limit is (harness/src/bin_zonefile.rs).
try:
    _soft, _hard = resource.getrlimit(resource.RLIMIT_STACK)
    _want = 4 << 30
    if _hard != resource.RLIM_INFINITY:
        _want = min(_want, _hard)
    if _soft != resource.RLIM_INFINITY and _soft < _want:
        resource.setrlimit(resource.RLIMIT_STACK, (_want, _hard))
except (ValueError, OSError):
    pass

MNEMONIC = {tok.A: "A", tok.NS: "NS", tok.MD: "MD", tok.MF: "MF", tok.CNAME: "CNAME", tok.SOA: "SOA", tok.MB: "MB",
            tok.MG: "MG", tok.MR: "MR", tok.NULL: "NULL", tok.WKS: "WKS", tok.PTR: "PTR", tok.HINFO: "HINFO",
            tok.MINFO: "MINFO", tok.MX: "MX", tok.TXT: "TXT", tok.AAAA: "AAAA", tok.SRV: "SRV"}
TYPES = list(tok.KNOWN_TYPES)
U32 = 2 ** 32 - 1

# ten field shapes: (owner present, ttl present, class present, ttl first)
SHAPES = [(o, t, c, tf) for o in (True, False) for (t, c, tf) in
          [(True, True, True), (True, True, False), (True, False, True), (False, True, True), (False, False, True)]]


def case(op, text):
    return "zonefile %s %s" % (op, tok.text(text))


# ----------------------------------------------------------------------------
# names
# ----------------------------------------------------------------------------

PLAIN = b"abcdefghijklmnopqrstuvwxyz0123456789-_"
SPECIAL = b"@;()\"\\ *$#!\t\x00\x7f\n'`~"
UPPER = b"ABCXYZ"


def rand_label(rng, nasty=0.15, maxlen=6, full_ascii=False):
    n = rng.choice([1, 1, 2, 3, 3, maxlen])
    out = bytearray()
    for _ in range(n):
        r = rng.random()
        if full_ascii and r < nasty:
            c = rng.randrange(0, 128)
            while c == 46:
                c = rng.randrange(0, 128)
            out.append(c)
        elif r < nasty:
            out.append(rng.choice(SPECIAL))
        elif r < nasty + 0.05:
            out.append(rng.choice(UPPER))
        else:
            out.append(rng.choice(PLAIN))
    b = bytes(out)
    if b.isdigit():                       # an all-digit token is a TTL to this grammar
        b = b"n" + b[1:] if len(b) > 1 else b"n"
    return b


def lower(labels):
    return tuple(bytes(c + 32 if 65 <= c <= 90 else c for c in l) for l in labels)


def name_tok(labels):
    """labels without root -> (token, len)"""
    ls = list(labels) + [b""]
    return tok.labtok(ls), sum(len(l) + 1 for l in ls)


def show_name(labels):
    t, n = name_tok(labels)
    return "%s/%d" % (t, n)


def name_ok(labels):
    return all(0 < len(l) <= 63 for l in labels) and sum(len(l) + 1 for l in labels) + 1 <= 255


# ----------------------------------------------------------------------------
# rendering of tokens
# ----------------------------------------------------------------------------

RAW_UNQUOTED = set(range(33, 127)) - set(b'";()\\')
RAW_QUOTED = set(range(0, 128)) - set(b'"\\')


def esc(rng, octets, quoted, style):
    """token octets -> text with raw chars / \\X / \\DDD escapes, decided per octet"""
    out = []
    for o in octets:
        raw_ok = o in (RAW_QUOTED if quoted else RAW_UNQUOTED)
        x_ok = o < 128 and not (48 <= o <= 57)
        r = rng.random()
        if raw_ok and r >= style["esc"]:
            out.append(chr(o))
        elif x_ok and (r < style["esc"] / 2 or rng.random() < 0.5) and not (o == 10 and not style["nl_esc"]):
            out.append("\\" + chr(o))
        else:
            out.append("\\%03d" % o)
    return "".join(out)


def render_token(rng, octets, style, octet_rdata=False):
    """one token; quoting is usual for octet RDATA, rare elsewhere; the empty token must be quoted"""
    octets = bytes(octets)
    q = style["quote_octets"] if octet_rdata else style["quote_other"]
    if len(octets) == 0 or rng.random() < q:
        return '"' + esc(rng, octets, True, style) + '"'
    return esc(rng, octets, False, style)


def nameref_octets(ref):
    if ref[0] == "at":
        return b"@"
    labels = ref[1]
    s = b".".join(labels)
    if ref[0] == "abs":
        return s + b"."
    return s


def owner_octets(o):
    if o[0] == "star":
        return b"*"
    if o[0] == "wild":
        return b"*." + nameref_octets(o[1])
    return nameref_octets(o)


def number_text(rng, n, style):
    s = str(n)
    # (a leading '+', which u32::from_str also accepts, is not master-file syntax; it is covered by the C17 stream)
    if rng.random() < style["num_odd"]:
        s = "0" * rng.randint(1, 4) + s
    return s.encode()


def ipv4_text(u):
    return ("%d.%d.%d.%d" % (u >> 24, (u >> 16) & 255, (u >> 8) & 255, u & 255)).encode()


def ipv6_text(rng, b16, style):
    segs = [(b16[2 * i] << 8) | b16[2 * i + 1] for i in range(8)]
    v4tail = rng.random() < style["v6_odd"]

    def hx(s):
        r = rng.random()
        t = "%x" % s
        if r < style["v6_odd"]:
            t = "%04x" % s
        elif r < 2 * style["v6_odd"]:
            t = t.upper()
        return t
    parts = [hx(s) for s in segs]
    n = 8
    tail = ""
    if v4tail:
        tail = ipv4_text((segs[6] << 16) | segs[7]).decode()
        parts = parts[:6]
        n = 6
    # optionally compress one run of zero groups
    runs = []
    i = 0
    while i < n:
        if segs[i] == 0:
            j = i
            while j < n and segs[j] == 0:
                j += 1
            runs.append((i, j))
            i = j
        else:
            i += 1
    if runs and rng.random() < 0.7:
        a, b = rng.choice(runs)
        if b - a > 1 and rng.random() < 0.3:
            b = a + rng.randint(1, b - a)
        left = ":".join(parts[:a])
        right = ":".join(parts[b:] + ([tail] if tail else []))
        return (left + "::" + right).encode()
    return ":".join(parts + ([tail] if tail else [])).encode()


def rdata_tokens(rng, rtype, rd, style):
    """list of (octets, is_octet_rdata)"""
    k = rd[0]
    if k == "a":
        return [(ipv4_text(rd[1]), False)]
    if k == "aaaa":
        return [(ipv6_text(rng, rd[1], style), False)]
    if k == "name":
        return [(nameref_octets(rd[1]), False)]
    if k == "soa":
        return [(nameref_octets(rd[1]), False), (nameref_octets(rd[2]), False)] + \
               [(number_text(rng, n, style), False) for n in rd[3:8]]
    if k == "octets":
        return [(rd[1], True)]
    if k == "minfo":
        return [(nameref_octets(rd[1]), False), (nameref_octets(rd[2]), False)]
    if k == "mx":
        return [(number_text(rng, rd[1], style), False), (nameref_octets(rd[2]), False)]
    if k == "srv":
        return [(number_text(rng, n, style), False) for n in rd[1:4]] + [(nameref_octets(rd[4]), False)]
    raise ValueError(k)


def rr_tokens(rng, e, style, cls_text=b"IN"):
    toks = []
    if e["owner"] is not None:
        toks.append((owner_octets(e["owner"]), False))
    ttl = [(number_text(rng, e["ttl"], style), False)] if e["ttl"] is not None else []
    cls = [(cls_text, False)] if e["cls"] else []
    toks += (ttl + cls) if e["ttl_first"] else (cls + ttl)
    toks.append((MNEMONIC[e["rtype"]].encode(), False))
    toks += rdata_tokens(rng, e["rtype"], e["rdata"], style)
    return toks


# ----------------------------------------------------------------------------
# layout
# ----------------------------------------------------------------------------

STYLE_SIMPLE = dict(esc=0.0, nl_esc=False, quote_octets=1.0, quote_other=0.0, num_odd=0.0, v6_odd=0.0, ws_odd=0.0,
                    paren=0.0, comment=0.0, glue=0.0, blank=0.0, crlf=0.0, lead=0.0)
STYLE_RICH = dict(esc=0.15, nl_esc=True, quote_octets=0.6, quote_other=0.04, num_odd=0.1, v6_odd=0.12, ws_odd=0.05,
                  paren=0.45, comment=0.3, glue=0.5, blank=0.25, crlf=0.1, lead=0.15)

COMMENT_CHARS = "abc xyz;()\"\\@*$ORIGIN IN 123 \t\u00e9\u4e2d\U0001F600"


def ws_run(rng, style, newline_ok=False):
    n = rng.choice([1, 1, 1, 2, 3, 8])
    alphabet = " \t" if rng.random() >= style["ws_odd"] else " \t\r\x0b\x0c\u00a0\u2003\u3000\u0085"
    s = "".join(rng.choice(alphabet) for _ in range(n))
    if newline_ok and rng.random() < 0.6:
        c = ""
        if rng.random() < style["comment"]:
            c = ";" + comment_text(rng)
        s = s + c + "\n" + "".join(rng.choice(" \t") for _ in range(rng.randint(0, 4)))
    return s


def comment_text(rng):
    return "".join(rng.choice(COMMENT_CHARS) for _ in range(rng.randint(0, 12)))


def render_entry_tokens(rng, toks, style, lead=False):
    """toks: list of (octets, is_octet_rdata) -> one entry's text without the final newline"""
    texts = [render_token(rng, o, style, q) for o, q in toks]
    n = len(texts)
    # separators sep[0] (before the first token) .. sep[n] (after the last)
    sep = [""] + [None] * (n - 1) + [""]
    if lead:
        sep[0] = ws_run(rng, style)
    groups = []
    if rng.random() < style["paren"]:
        i = rng.randint(0, n)
        j = rng.randint(i, n)
        groups.append((i, j))
        if j < n and rng.random() < 0.25:
            i2 = rng.randint(j, n)
            j2 = rng.randint(i2, n)
            if i2 > j or j2 > i2 or True:
                groups.append((i2, j2))
    inside = [False] * (n + 1)                # inside[k]: separator k lies inside a group
    opens = {}
    closes = {}
    for (i, j) in groups:
        opens.setdefault(i, 0)
        opens[i] += 1
        closes.setdefault(j, 0)
        closes[j] += 1
        for k in range(i + 1, j):
            inside[k] = True
    out = []
    for k in range(n + 1):
        # separator k: [close parens of groups ending here] [open parens of groups starting here]
        s = ""
        nclose = closes.get(k, 0)
        nopen = opens.get(k, 0)
        # order: a group (k,k) is "()" ; groups ending at k close before groups starting at k open,
        # except the empty group (k,k) which opens then closes
        empty_groups = sum(1 for g in groups if g == (k, k))
        nclose -= empty_groups
        nopen -= empty_groups
        pieces = []
        for _ in range(nclose):
            pieces.append(")")
        for _ in range(empty_groups):
            pieces.append("(")
            pieces.append(")")
        for _ in range(nopen):
            pieces.append("(")
        if not pieces:
            if sep[k] is None:
                s = ws_run(rng, style, newline_ok=inside[k])
            else:
                s = sep[k]
                if inside[k]:
                    s += ws_run(rng, style, newline_ok=True)
        else:
            cur_inside = inside[k] or nclose > 0      # before the first piece we are inside iff a group closes here
            s = sep[k] if sep[k] is not None else ""
            for p in pieces:
                if rng.random() >= style["glue"]:
                    s += ws_run(rng, style, newline_ok=cur_inside)
                s += p
                cur_inside = (p == "(")
            if rng.random() >= style["glue"]:
                s += ws_run(rng, style, newline_ok=cur_inside)
        out.append(s)
        if k < n:
            out.append(texts[k])
    return "".join(out)


def render(rng, entries, style, final_newline=True):
    lines = []
    for e in entries:
        if rng.random() < style["blank"]:
            lines.append(rng.choice(["", "   ", "\t", "; " + comment_text(rng), " ;" + comment_text(rng)]))
        if e[0] == "origin":
            toks = [(b"$ORIGIN", False), (nameref_octets(e[1]), False)]
            t = render_entry_tokens(rng, toks, style)
        elif e[0] == "rr":
            d = e[1]
            toks = rr_tokens(rng, d, style, d.get("cls_text", b"IN"))
            lead = (d["owner"] is None and rng.random() < 0.8) or rng.random() < style["lead"]
            t = render_entry_tokens(rng, toks, style, lead=lead)
        else:
            t = e[1]
        if rng.random() < style["comment"]:
            t += ws_run(rng, style) if rng.random() < 0.7 else ""
            t += ";" + comment_text(rng)
        elif rng.random() < 0.1:
            t += ws_run(rng, style)
        lines.append(t)
    nl = "\r\n" if rng.random() < style["crlf"] else "\n"
    text = nl.join(lines)
    if final_newline or rng.random() < 0.7:
        text += nl
    return text


# ----------------------------------------------------------------------------
# independent denotation
# ----------------------------------------------------------------------------

class Reject(Exception):
    pass


def resolve(ref, origin):
    if ref[0] == "at":
        if origin is None:
            raise Reject("@ without origin")
        return origin
    if ref[0] == "abs":
        n = lower(ref[1])
    else:
        if origin is None:
            raise Reject("relative name without origin")
        n = lower(ref[1]) + origin
    if not name_ok(n):
        raise Reject("name too long")
    return n


def rdata_token(rd, origin):
    k = rd[0]
    nt = lambda ref: name_tok(resolve(ref, origin))[0]
    if k == "a":
        return tok.rd_a(rd[1])
    if k == "aaaa":
        return tok.rd_aaaa(rd[1])
    if k == "name":
        return tok.rd_name(nt(rd[1]))
    if k == "soa":
        return tok.rd_soa(nt(rd[1]), nt(rd[2]), *rd[3:8])
    if k == "octets":
        return tok.rd_octets(rd[1])
    if k == "minfo":
        return tok.rd_minfo(nt(rd[1]), nt(rd[2]))
    if k == "mx":
        return tok.rd_mx(rd[1], nt(rd[2]))
    if k == "srv":
        return tok.rd_srv(rd[1], rd[2], rd[3], nt(rd[4]))
    raise ValueError(k)


def denote(entries):
    """-> expected P result string, or 'reject'"""
    try:
        return _denote(entries)
    except Reject:
        return "reject"


def _denote(entries):
    origin = None
    prev_owner = None            # (labels, is_wild)
    prev_ttl = None
    normal = []                  # (labels, type, ttl, rdata token)
    wild = []
    soa = None                   # (apex labels, rdata token, minimum)
    for e in entries:
        if e[0] == "origin":
            origin = resolve(e[1], origin)
            continue
        if e[0] != "rr":
            raise Reject("raw entry")
        d = e[1]
        if d.get("cls_text", b"IN") != b"IN":
            raise Reject("class")
        o = d["owner"]
        if o is None:
            if prev_owner is None:
                raise Reject("no owner to inherit")
            owner = prev_owner
        elif o[0] == "star":
            if origin is None:
                raise Reject("* without origin")
            owner = (origin, True)
        elif o[0] == "wild":
            owner = (resolve(o[1], origin), True)
        else:
            n = resolve(o, origin)
            if len(n) >= 1 and n[0] == b"*":
                # (fix 0286676) an owner that expands to a name with leftmost label '*' -- e.g. '@' under
                # '$ORIGIN *.example.com.' -- is a wildcard however it was written
                owner = (n[1:], True)
            else:
                owner = (n, False)
        rdt = rdata_token(d["rdata"], origin)
        if d["rtype"] == tok.SOA:
            ttl = d["rdata"][7]                      # D3: the SOA RR is loaded with TTL = MINIMUM
            if d["ttl"] is not None and not (0 <= d["ttl"] <= U32):
                raise Reject("ttl")
        elif d["ttl"] is not None:
            ttl = d["ttl"]
        elif prev_ttl is not None:
            ttl = prev_ttl                           # D3: the previous record's TTL as loaded
        else:
            raise Reject("no TTL to inherit")
        prev_owner = owner
        prev_ttl = ttl
        if d["rtype"] == tok.SOA:
            if owner[1]:
                raise Reject("wildcard SOA")
            if soa is not None:
                raise Reject("second SOA")
            soa = (owner[0], rdt, ttl)
        elif owner[1]:
            wild.append((owner[0], d["rtype"], ttl, rdt))
        else:
            normal.append((owner[0], d["rtype"], ttl, rdt))
    apex = soa[0] if soa else ()
    minimum = soa[2] if soa else 0
    for (n, _, _, _) in normal + wild:
        if len(n) < len(apex) or (len(apex) > 0 and n[len(n) - len(apex):] != apex):
            raise Reject("outside the apex")
    return expected_string(apex, soa, normal, wild, minimum)


def dump(recs):
    by = {}
    for (n, t, ttl, rdt) in recs:
        l = by.setdefault(n, [])
        item = (t, "%d:%d:%s" % (t, ttl, rdt))
        if item not in l:                       # Zone::insert drops exact duplicates
            l.append(item)
    if not by:
        return "_"
    rows = []
    for n, l in by.items():
        l = sorted(l, key=lambda x: x[0])       # stable: Vec order inside a type group
        rows.append((show_name(n), ";".join(x[1] for x in l)))
    rows.sort(key=lambda r: r[0].encode())
    return "+".join("%s=%s" % r for r in rows)


def expected_string(apex, soa, normal, wild, minimum):
    normal = [(n, t, max(ttl, minimum), r) for (n, t, ttl, r) in normal]
    wild = [(n, t, max(ttl, minimum), r) for (n, t, ttl, r) in wild]
    if soa:
        normal = [(apex, tok.SOA, minimum, soa[1])] + normal
    return "Ok:%s#S%s#R%s#W%s" % (show_name(apex), soa[1] if soa else "-", dump(normal), dump(wild))


# ----------------------------------------------------------------------------
# random files
# ----------------------------------------------------------------------------

def rand_u32(rng):
    return rng.choice([0, 1, 5, 30, 60, 300, 3600, 86400, 2 ** 31, U32, rng.getrandbits(32)])


class Gen:
    """random valid files over a small universe of names"""

    def __init__(self, rng, nasty=0.15, full_ascii=False, root_apex=None, authoritative=None):
        self.rng = rng
        self.nasty = nasty
        self.full_ascii = full_ascii
        r = rng.random()
        self.authoritative = authoritative if authoritative is not None else r < 0.65
        root = root_apex if root_apex is not None else rng.random() < 0.2
        if root:
            self.apex = ()
        else:
            self.apex = tuple(self.label() for _ in range(rng.choice([1, 2, 2, 3])))
            if self.apex[0] == b"*":
                self.apex = (b"z",) + self.apex[1:]
        self.sub = [self.label() for _ in range(4)]

    def label(self):
        return rand_label(self.rng, self.nasty, full_ascii=self.full_ascii)

    def long_rel(self):
        """relative labels bringing the absolute name to 253..255 octets (255 is the limit): labels of up to
        63 octets; written absolutely such a name is 252..254 characters long"""
        rng = self.rng
        apex_len = 1 + sum(1 + len(l) for l in self.apex)
        room = rng.choice([255, 255, 254, 253]) - apex_len
        labels = []
        while room >= 2:
            n = min(63, room - 1)
            if room - 1 - n == 1:
                n -= 1
            labels.append(bytes([rng.choice(PLAIN[:26])]) * n)
            room -= 1 + n
        return tuple(labels)

    def rel(self, allow_empty=False):
        """labels relative to the apex"""
        if self.rng.random() < 0.04:
            return self.long_rel()
        k = self.rng.choice([0, 1, 1, 1, 2, 3]) if allow_empty else self.rng.choice([1, 1, 1, 2, 3])
        return tuple(self.rng.choice(self.sub) if self.rng.random() < 0.7 else self.label() for _ in range(k))

    def nameref(self, origin, under_apex=True, owner=False):
        """a way of writing a (random) name; returns (ref, absolute labels)"""
        rng = self.rng
        if under_apex or rng.random() < 0.6:
            full = self.rel(allow_empty=True) + self.apex
        else:
            full = tuple(self.label() for _ in range(rng.randint(0, 3)))
        if owner and origin and origin[0] == b"*" and rng.random() < 0.5:
            # '@' (or the absolute text) under a '*'-led origin: a wildcard since fix 0286676
            return self.write(origin, origin), origin
        if owner and full and full[0] == b"*" and rng.random() < 0.5:
            full = (b"w",) + full[1:]                        # "*.x" in owner position is the wildcard syntax
        return self.write(full, origin), full

    def write(self, full, origin):
        """choose abs / rel / @ for the absolute name `full` under the current origin"""
        rng = self.rng
        lo = lower(full)
        forms = [("abs", full)]
        if origin is not None:
            if lo == origin:
                forms += [("at",), ("at",)]
            elif len(lo) > len(origin) and (len(origin) == 0 or lo[len(lo) - len(origin):] == origin):
                relp = full[:len(full) - len(origin)]
                t = b".".join(relp)
                if t != b"@" and not t.isdigit() and t not in AMBIGUOUS and not re.fullmatch(rb"TYPE[0-9]+", t):
                    forms += [("rel", relp), ("rel", relp)]
        f = rng.choice(forms)
        if f[0] == "abs":
            t = b".".join(full) + b"."
            # an absolute name's text always ends in '.', so it is never ambiguous
        return f

    def rdata(self, rtype, origin):
        rng = self.rng
        nr = lambda: self.nameref(origin, under_apex=rng.random() < 0.5)[0]
        if rtype == tok.A:
            return ("a", rng.choice([0, 1, 0x7F000001, 0x01020304, 0xFFFFFFFF, rng.getrandbits(32)]))
        if rtype == tok.AAAA:
            return ("aaaa", bytes(rng.choice([0, 0, 0, 1, 255, rng.randint(0, 255)]) for _ in range(16)))
        if rtype in tok.NAME_TYPES:
            return ("name", nr())
        if rtype == tok.SOA:
            return ("soa", nr(), nr(), rand_u32(rng), rand_u32(rng), rand_u32(rng), rand_u32(rng),
                    rng.choice([0, 1, 5, 30, 60, 300, 3600]))
        if rtype == tok.MINFO:
            return ("minfo", nr(), nr())
        if rtype == tok.MX:
            return ("mx", rng.choice([0, 1, 10, 65535, rng.randint(0, 65535)]), nr())
        if rtype == tok.SRV:
            return ("srv", rng.randint(0, 65535), rng.choice([0, 65535, rng.randint(0, 65535)]),
                    rng.choice([0, 53, 443, 65535]), nr())
        n = rng.choice([0, 1, 2, 5, 20, 60])
        if rng.random() < 0.5:
            return ("octets", bytes(rng.randint(0, 255) for _ in range(n)))
        return ("octets", bytes(rng.choice(b"abc xyz;()\"\\@*\t\n\x00\x7f\x80\xff") for _ in range(n)))

    def file(self, nrec=None, types=None, shapes=None):
        """a valid file: optional $ORIGIN lines, optional SOA first (authoritative), records in random shapes"""
        rng = self.rng
        entries = []
        origin = None
        have_owner = False
        have_ttl = False
        if rng.random() < 0.75 or not self.apex and rng.random() < 0.5:
            origin = lower(self.apex)
            entries.append(("origin", ("abs", self.apex)))
        if self.authoritative:
            ref = self.write(self.apex, origin)
            d = dict(owner=ref, ttl=None, cls=True, ttl_first=True, rtype=tok.SOA, rdata=self.rdata(tok.SOA, origin))
            r = rng.random()
            if r < 0.5:
                d["ttl"] = rand_u32(rng)
                d["ttl_first"] = rng.random() < 0.5
            elif r < 0.6:
                d["cls"] = False
            entries.append(("rr", d))
            have_owner = True
            have_ttl = True
        n = nrec if nrec is not None else rng.choice([0, 1, 2, 3, 5, 8])
        for k in range(n):
            if rng.random() < 0.12:
                # change of origin: to a name under the apex (relative or absolute)
                target = self.rel(allow_empty=True) + self.apex
                if rng.random() < 0.12:
                    target = (b"*",) + target                # a '*' label in $ORIGIN (witness of fix 0286676)
                ref = self.write(target, origin)
                entries.append(("origin", ref))
                origin = lower(target)
                continue
            rtype = types[k % len(types)] if types else rng.choice([t for t in TYPES if t != tok.SOA])
            shape = shapes[k % len(shapes)] if shapes else rng.choice(SHAPES)
            has_owner, has_ttl, has_cls, ttl_first = shape
            if not have_owner:
                has_owner = True
            if not have_ttl:
                has_ttl = True
            owner = None
            if has_owner:
                ref, full = self.nameref(origin, under_apex=True, owner=True)
                r = rng.random()
                if r < 0.2:
                    owner = ("wild", ref)
                elif r < 0.25 and origin is not None:
                    owner = ("star",)
                else:
                    owner = ref
            d = dict(owner=owner, ttl=rand_u32(rng) if has_ttl else None, cls=has_cls, ttl_first=ttl_first,
                     rtype=rtype, rdata=self.rdata(rtype, origin))
            entries.append(("rr", d))
            have_owner = True
            have_ttl = True
        return entries


AMBIGUOUS = set([b"IN"] + [m.encode() for m in MNEMONIC.values()])
