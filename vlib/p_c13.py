"""C13 -- writing a zone to text and reading it back changes nothing.

Stream "zonefile" (syntax: ocaml/drv_zonefile.ml):
    zonefile RT <text> <kind>     text parsed, serialised, parsed again: equal zone? serialising again: same text?
    zonefile B <apex> <soa|-> <ops>  zone built through Zone::new + insert / insert_wildcard, then as RT
    zonefile S <text> <kind>      the serialised text itself (canonical order), model against implementation
extra: the real ztoz binary (release, guard off) applied twice to generated files.
"""
import os
import subprocess

from . import core, tok
from . import zonefilegen as zg

ID = "C13"
DRIVER = "zonefile"
COQ_TARGETS = ["Properties/C13.vo"]
THEOREMS = ["C13_escape_roundtrip", "C13_escape_roundtrip_entry", "C13_serialise_octets_ascii",
            "C13_relative_name_roundtrip", "C13_zone_roundtrip", "C13_built_closed", "C13_own_order_admissible", "C13_regroup_admissible",
            "C13_normalise_idempotent", "C13_loaded_built", "C13_loaded_roundtrip", "C13_codec_instance",
            "C13_zone_roundtrip_zf", "C13_ztoz_twice_zf",
            "C13_normalise_idempotent_text", "C13_normalise_idempotent_text_loaded", "C13_normalise_idempotent_text_zf",
            "C13_ztoz_text_fixpoint_zf"]
RULE = ("cases: zones obtained by parsing generated zone-file text (labels over all ASCII octets except '.', incl. @ ; ( ) \" \\ "
        "space * and controls; RDATA over all 256 octets; authoritative and not; root and non-root apex; wildcard and apex "
        "records) and zones built through Zone::new/insert/insert_wildcard (ASCII dot-free labels not starting with '*', all "
        "known types but SOA, TTLs around the SOA minimum); non-trivial = distinct case whose zone holds at least one record "
        "besides the SOA")
ASSUMPTIONS = [
    "D5: Zone::new(non-root apex, None), Unknown-type records and SOA-type records pushed through insert()/insert_wildcard() "
    "are outside 'built' (the serialiser skips SOA-type records of the tree and the parser has no syntax for the others)",
    "D7: labels containing '.' are outside C13",
    "HashMap order of the type groups inside one name is free: texts are compared after a stable sort of the lines of each "
    "block by (owner field, type field); Vec order inside a type group is kept and compared",
    "zone_roundtrip covers built zones whose apex and ordinary owners do not have the single octet '*' as leftmost label "
    "(such an owner is the wildcard syntax; loaded zones never have one since fix 0286676, proved: loaded_built)",
    "zone equality is stated up to the order of the type groups of a name (zone_same: per node and type the same record "
    "lists). For the MODEL's own (deterministic, insertion) order of the type groups the second-pass TEXT is proved to be "
    "literally the first-pass text (C13_normalise_idempotent_text*); for the implementation's HashMap order the statement that "
    "carries over is C13_normalise_idempotent (any admissible order: same zone; same order: same text), and the stream compares "
    "the implementation's two texts after the per-block line sort",
]

CORPUS = os.path.join(core.VERIF, "corpus", "C13")


def rt(kind, text, op="RT"):
    return "zonefile %s %s %s" % (op, tok.text(text), kind)


def api_label(rng, inscope=True):
    n = rng.choice([1, 1, 2, 3, 5])
    if inscope:
        b = bytes(rng.choice([rng.randrange(0, 128), rng.choice(b"abcxyz019-_"), rng.choice(b"@;()\"\\ *$\t\n\x00\x7f")]) for _ in range(n))
        b = b.replace(b".", b"-")
        if b.startswith(b"*"):
            b = b"s" + b[1:]
        return b
    return bytes(rng.choice([rng.randrange(0, 256), 46, 42, 200]) for _ in range(n))


def api_case(rng, inscope=True):
    auth = rng.random() < 0.7
    lab = lambda: api_label(rng, inscope)
    apex = tuple(lab() for _ in range(rng.choice([0, 1, 2, 2, 3]))) if auth else ()
    pool = [lab() for _ in range(4)]

    def under():
        return tuple(rng.choice(pool) for _ in range(rng.choice([0, 1, 1, 2, 3]))) + apex

    def anyname():
        return under() if rng.random() < 0.6 else tuple(lab() for _ in range(rng.randint(0, 3)))
    nt = lambda n: zg.name_tok(n)[0]
    minimum = rng.choice([0, 5, 60, 300])
    soa = tok.rd_soa(nt(anyname()), nt(anyname()), rng.getrandbits(32), 2, 3, 4, minimum) if auth else "-"
    ops = []
    for _ in range(rng.choice([0, 1, 2, 3, 5, 8, 12])):
        typ = rng.choice([t for t in zg.TYPES if t != tok.SOA])
        rd = tok.random_rdata(rng, typ, [nt(anyname()) for _ in range(3)])
        ttl = rng.choice([0, 1, minimum, minimum + 1, 300, 2 ** 32 - 1])
        name = under() if rng.random() < 0.93 else anyname()
        ops.append(("W~" if rng.random() < 0.25 else "I~") + tok.rr(nt(name), typ, ttl, rd))
    return "zonefile B %s %s %s %s" % (nt(apex), soa, "|".join(ops) if ops else "_", "api" if inscope else "api-outside")


def generate(rng, tier):
    n = 2000 if tier == "quick" else 50000
    cases = []
    so = "$ORIGIN example.com.\n@ IN SOA ns h 1 2 3 4 60\n"
    # (fixed in 0286676) '@' under an origin whose leftmost label is '*': was loaded as an ordinary record at '*.e.',
    # whose text reads back as a wildcard; now loaded as the wildcard it is
    cases.append(rt("corpus", "$ORIGIN *.e.\n@ 5 IN A 1.2.3.4\n"))
    cases.append(rt("corpus", so + "$ORIGIN *.example.com.\n@ 5 IN A 1.2.3.4\n"))
    cases.append(rt("corpus", so + "$ORIGIN *.example.com.\n@ 5 IN A 1.2.3.4\n", "S"))
    # F5 (fixed in 080caf9): the label "@" relative to the apex
    cases.append(rt("corpus", so + "\\@.example.com. 300 IN A 1.2.3.4\n"))
    cases.append(rt("corpus", so + "\\@.example.com. 300 IN A 1.2.3.4\n", "S"))
    cases.append(rt("corpus", so + "www 300 IN CNAME \\@.example.com.\n* 5 IN MX 1 \\@\n"))
    cases.append(rt("corpus", so + "\\@.\\@ 300 IN A 1.2.3.4\n*.\\@.example.com. 300 IN TXT \"\"\n"))
    cases.append(rt("corpus", ". IN SOA . . 1 2 3 4 60\n\\@. 300 IN A 1.2.3.4\n*.  5 IN A 1.2.3.4\n. 7 IN NS \\@.\n"))
    cases.append(rt("corpus", "\\@. 300 IN A 1.2.3.4\n"))
    cases.append(rt("corpus", so + "a\\.b 300 IN A 1.2.3.4\n"))          # D7: "\." splits labels
    cases.append(rt("corpus", so + "\\032\;\\(\\)\\\"\\\\\\000\\127.x 300 IN TXT \"\\000\\255 ;()\\\"\\\\\"\n"))
    ex = tok.name("example.com.")
    soa = tok.rd_soa(tok.name("ns.example.com."), tok.name("h.example.com."), 1, 2, 3, 4, 60)
    cases.append("zonefile B %s %s %s api" % (ex, soa, "I~" + tok.rr(tok.name("@.example.com."), tok.A, 5, tok.rd_a(7))))
    cases.append("zonefile B %s %s %s api" % (ex, soa, "W~" + tok.rr(ex, tok.TXT, 500, tok.rd_octets(bytes(range(256))))))
    cases.append("zonefile B - - %s api" % ("I~" + tok.rr(tok.name("a b.c."), tok.HINFO, 0, tok.rd_octets(b""))))
    if os.path.isdir(CORPUS):
        for fn in sorted(os.listdir(CORPUS)):
            with open(os.path.join(CORPUS, fn)) as fh:
                cases += [l.strip() for l in fh if l.strip() and not l.startswith("#")]
    while len(cases) < n:
        r = rng.random()
        if r < 0.55:
            g = zg.Gen(rng, nasty=rng.choice([0.1, 0.3, 0.6]), full_ascii=True)
            f = g.file(nrec=rng.choice([1, 2, 3, 5, 8, 12]))
            text = zg.render(rng, f, zg.STYLE_RICH if rng.random() < 0.5 else zg.STYLE_SIMPLE)
            cases.append(rt("parsed-auth" if g.authoritative else "parsed-nonauth", text, "RT" if rng.random() < 0.8 else "S"))
        elif r < 0.95:
            cases.append(api_case(rng, True))
        else:
            cases.append(api_case(rng, False))
    return cases


def canonical(case, out):
    """When the serialised text does not parse back (only outside the property's scope: kind api-outside), WHICH of
    several unparsable lines is met first depends on the HashMap order of the type groups inside a name block, so
    the error variant of the re-parse is not compared."""
    if out.startswith("false,false#Err:"):
        return "false,false#Err"
    return out


def oracle(case, impl, model):
    toks = case.split(" ")
    op = toks[1]
    kind_ = toks[-1]
    if impl in ("Panic", "Hang") or impl.startswith("DRIVER-DIED rc") or impl.startswith("IMPL-EXN"):
        if kind_ == "api-outside" and impl == "Panic":
            return None
        return ("serialiser-crash", "round trip did not return (%s)" % impl)
    if op == "S" or impl.startswith("DRIVER-DIED") or kind_ == "api-outside":
        return None
    if impl.startswith("Err:"):
        return None                                  # the generated text itself did not parse: nothing to round-trip
    if not impl.startswith("true,"):
        return ("roundtrip-differs", "deserialise(serialise(z)) != z: %s" % core.trunc(impl, 300))
    if not impl.startswith("true,true#"):
        return ("not-idempotent", "serialising the re-read zone gives a different text")
    return None


def nontrivial(case, model):
    body = model.split("#R", 1)[1] if "#R" in model else ""
    return model.startswith("true,true#") and ("=" in body.replace("=6:", "", 1) or "#W_" not in model) or \
        (case.split(" ")[1] == "S" and model.startswith("Ok:"))


def kind(case, model):
    toks = case.split(" ")
    res = model.split("#")[0]
    if toks[1] == "S":
        res = model.split(":")[0]
    return "%s %s -> %s" % (toks[1], toks[-1], res)


# ----------------------------------------------------------------------------
# the real ztoz binary, twice
# ----------------------------------------------------------------------------

RELEASE_TARGET = os.path.join(core.BUILD, "target-release")


def canon_text(t):
    def key(l):
        f = [x for x in l.split(" ") if x]
        if len(f) >= 4:
            return (f[0].encode(), f[3].encode())
        if f:
            return (f[0].encode(), b"")
        return (b"", b"")
    out = []
    blk = []
    for l in t.split("\n"):
        if l == "":
            out += sorted(blk, key=key)
            blk = []
            out.append("")
        else:
            blk.append(l)
    out += sorted(blk, key=key)
    return "\n".join(out)


def extra(ctx):
    fails = []
    info = {}
    if hasattr(core, "build_release_binaries"):
        ok, out = core.build_release_binaries(["ztoz"])
        ztoz = core.release_binary("ztoz")
    else:
        with core.Lock("cargo"):
            rc, out = core.sh(["cargo", "build", "--offline", "--release", "-p", "ztoz"], cwd=core.REPO,
                              env={"CARGO_TARGET_DIR": RELEASE_TARGET, "RUSTFLAGS": ""}, timeout=3000)
        ok = rc == 0
        ztoz = os.path.join(RELEASE_TARGET, "release", "ztoz")
    if not ok or not os.path.exists(ztoz):
        return [core.Failure("ztoz-build", "cargo build --release -p ztoz failed: " + core.trunc(out[-800:], 800), found_input=False)], info
    rng = ctx["rng"]
    n = 150 if ctx["tier"] == "quick" else 3000
    texts = []
    while len(texts) < n:
        g = zg.Gen(rng, nasty=rng.choice([0.1, 0.3, 0.6]), full_ascii=True)
        texts.append(zg.render(rng, g.file(nrec=rng.choice([1, 3, 6, 12])), zg.STYLE_RICH))

    # control characters as DATA: raw CR / CR LF inside quoted strings and after a backslash, whole files with
    # CRLF line ends (outside quotes CR is white space, inside it is an octet of the string)
    fixed = [
        'a.example. 300 IN TXT "x\r\ny"\n',
        'a.example. 300 IN TXT "x\ry" "z\r\n" w\n',
        'a.example. 300 IN TXT x\\\r\nb.example. 300 IN A 1.2.3.4\n',
        '$ORIGIN example.com.\r\n@ IN SOA ns h 1 2 3 4 60\r\nwww 300 IN TXT "a\r\nb"\r\n',
        'a.example. 300 IN HINFO "\r\n"\n',
    ]
    texts = fixed + [t.replace("\n", "\r\n") if i % 3 == 0 else t for i, t in enumerate(texts)]

    def run(t):
        p = subprocess.run([ztoz], input=t.encode("utf-8"), stdout=subprocess.PIPE, stderr=subprocess.PIPE, timeout=60)
        return p.returncode, p.stdout.decode("utf-8", "replace")
    # what the library's parser says about each input (ztoz must accept exactly what it accepts)
    lib = core.run_sharded(core.impl_driver_path(DRIVER), ["zonefile P " + tok.text(t) for t in texts], ctx["run_dir"], "ztozlib")
    firsts = []
    for t, lp in zip(texts, lib):
        rc1, o1 = run(t)
        if rc1 != 0:
            firsts.append(None)
            if lp.startswith("Ok:"):
                fails.append(core.Failure("ztoz-rejects-valid", "ztoz rejects a file the zone parser accepts",
                                          "zonefile RT %s ztoz" % tok.text(t)))
            continue
        rc2, o2 = run(o1)
        firsts.append(o1)
        if rc2 != 0:
            fails.append(core.Failure("ztoz-rejects-own-output", "ztoz fails on its own output", "zonefile RT %s ztoz" % tok.text(t)))
        elif canon_text(o2) != canon_text(o1):
            fails.append(core.Failure("ztoz-not-idempotent", "ztoz applied twice changes the text again", "zonefile RT %s ztoz" % tok.text(t)))
    # meaning preserved: the implementation's parse of the output equals its parse of the input
    cases = []
    for t, o1 in zip(texts, firsts):
        if o1 is not None:
            cases += ["zonefile P " + tok.text(t), "zonefile P " + tok.text(o1)]
    outs = core.run_sharded(core.impl_driver_path(DRIVER), cases, ctx["run_dir"], "ztoz") if cases else []
    accepted = 0
    for k in range(0, len(outs), 2):
        accepted += 1
        if outs[k] != outs[k + 1] or not outs[k].startswith("Ok:"):
            fails.append(core.Failure("ztoz-changes-meaning", "the normalised file parses to a different zone: %s vs %s"
                                      % (core.trunc(outs[k], 200), core.trunc(outs[k + 1], 200)), cases[k].replace(" P ", " RT ") + " ztoz"))
    info = {"ztoz_files": len(texts), "ztoz_accepted": accepted, "evaluations": len(texts), "distinct_nontrivial": accepted}
    return fails, info
