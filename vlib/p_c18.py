"""C18 -- the resolver honours the configured address family and upstream port."""
from . import resolvergen as rg
from . import tok

ID = "C18"
DRIVER = "resolver"
ML_EXTRA = ("vmsg.ml",)
COQ_TARGETS = ["Properties/C18.vo"]
THEOREMS = ["C18_udp_exchange_dest", "C18_tcp_exchange_dest", "C18_query_nameserver_dest", "C18_port_fixed",
            "C18_rtypes_of_mode",
            "C18_port_fixed_whole_log", "C18_forward_only_forwarder", "C18_only_family", "C18_prefer_family", "C18_hostname_loop_order", "C18_get_ip_family"]
RULE = ("cases: the C07 universes whose nameservers have v4-only, v6-only or dual addresses learnt from the root hints, from "
        "glue, from the initial cache or by recursive lookup x the four protocol modes x upstream ports {53, 5353, 10053, 65535}, "
        "plus forwarding mode with an IPv4 or IPv6 forwarder on its own port; non-trivial = distinct case whose log has at "
        "least one exchange")
ASSUMPTIONS = [
    "oracle for the prefer-* modes: 'holds an address of the preferred family' is evaluated on what the resolver held before the "
    "first question (local zones and initial cache) -- holdings only grow during a case (fixed clock), so this never flags "
    "correct behaviour; 'asks for the preferred family first' is checked on fault-free consistent universes as: an upstream "
    "lookup of the other family for a nameserver host comes with an upstream lookup of the preferred family for it in the same "
    "resolution (the order of the two ATTEMPTS is C18_rtypes_of_mode; an attempt can fail without an exchange when the same "
    "question is already being resolved -- seen in the stream: prefer-v4, cache holds `com. NS ns1.com.` without addresses, the "
    "lookup of `ns1.com. A` needs ns1.com. itself, the nested attempt for A is a DuplicateQuestion and `ns1.com. AAAA` goes "
    "upstream first)",
]
TRUSTED = ["hooks H3 (in-memory UdpSocket/TcpStream) and H5 (sorted candidate order) in /repo under cfg(resolved_verif); "
           "the mock handler of harness/src/resolver.rs"]

MODES = ["r4", "rp4", "rp6", "r6"]
PORTS = [53, 5353, 10053, 65535]


def generate(rng, tier):
    n = 320 if tier == "quick" else 6000
    batch = rg.Batch()
    builders = []
    fam_sets = [("4",), ("6",), ("46",), ("4", "6"), ("4", "6", "46")]
    i = 0
    while len(builders) < n:
        mode = MODES[i % 4]
        fams = fam_sets[(i // 4) % len(fam_sets)]
        i += 1
        u = rg.gen_universe(rng, fams=fams)
        port = rng.choice(PORTS)
        qs = [(a, b) for a, b, _ in (rng.choice(u.questions) for _ in range(rng.choice([1, 2, 3, 5])))]
        cache = "_"
        kind = "rec"
        if rng.random() < 0.3:
            # nameserver data already cached: the NS set of a deep zone and (some of) the addresses of its hosts
            z = u.zones[rng.choice(u.chain)]
            rrs = [r for r in z.rrs if r[1] == tok.NS and r[0] == z.apex]
            for h in z.ns:
                ad = u.addr_rrs(h)
                if ad and rng.random() < 0.8:
                    rrs += rng.sample(ad, rng.randint(1, len(ad)))
            cache = tok.rrs([rg.rrtok(r) for r in rrs])
            kind = "rec-cached"
        if rng.random() < 0.2:
            ip = rg.v4(0x0A0000FD) if rng.random() < 0.5 else rg.v6(0xFD)
            fport = rng.choice([53, 5300, 853])
            builders.append(rg.CaseBuilder(batch, u, "f%s@%d" % (ip, fport), port, qs, cache=cache,
                                           flags={"kind": "fwd", "ff": "1", "modeok": "1"}, forwarder_ip=ip))
        else:
            faults = "_"
            ff = "1"
            if rng.random() < 0.3:
                # a nameserver that fails at the address first tried (silent, refusing, SERVFAIL, garbage): the resolver
                # must not fall over to the other family's address while it holds one of the preferred family
                plan = {}
                for _ in range(rng.choice([1, 1, 2])):
                    plan[rng.randint(0, 6)] = rng.choice(["drop", "refuse", "rcode2", "rcode5", "wrongid", "trunc12"])
                faults = rg.fault_plan(plan)
                ff = "0"
                kind = kind + "-faulty"
            builders.append(rg.CaseBuilder(batch, u, mode, port, qs, faults=faults, cache=cache,
                                           flags={"kind": kind + "-" + "+".join(fams), "ff": ff,
                                                  "modeok": "1" if rg.mode_ok(u, mode) else "0"}))
    # local authoritative zones with delegations whose nameserver addresses are known locally (glue in the
    # zone, or cached): in forwarding mode the question beneath the cut must still go to the forwarder only,
    # in recursive mode to the delegated servers at the configured port and in the configured family
    from . import netgen
    k = 80 if tier == "quick" else 1500
    tries = 0
    while k > 0 and tries < 50 * k + 1000:
        tries += 1
        u = netgen.base_universe(rng, depth=rng.choice([2, 3]), max_ns=rng.choice([1, 2]),
                                 fams=rng.choice([("46",), ("4", "6", "46"), ("4",), ("6",)]))
        parts = netgen.sc_auth(rng, u)
        if parts.kind != "auth-deleg":
            continue
        # every address of every nameserver host of the universe's zones is in the cache
        for zn in u.chain:
            for h in u.zones[zn].ns:
                parts.cache += u.addr_rrs(h)
        beneath = [q for q in parts.questions]
        parts.questions = beneath[:8]
        mode, fwd = netgen.pick_mode(rng, forwarding=(rng.random() < 0.6))
        builders.append(netgen.build(batch, u, parts, mode, fwd, rng, hints=True, port=rng.choice([53, 5353])))
        k -= 1
    outs = batch.run()
    return [b.line(outs) for b in builders]


def held_addresses(c):
    """host name token -> set of families held before the first question (local zones, initial cache)"""
    held = {}
    for apex, auth, recs in c.local_zones():
        for wild, r in recs:
            if not wild and r["type"] in (tok.A, tok.AAAA):
                held.setdefault(r["name"], set()).add(4 if r["type"] == tok.A else 6)
    if c.cache_tok != "_":
        for x in c.cache_tok.split(";"):
            r = tok.parse_rr(x)
            if r["type"] in (tok.A, tok.AAAA) and r["ttl"] > 0:
                held.setdefault(r["name"], set()).add(4 if r["type"] == tok.A else 6)
    return held


def oracle(case, impl, model):
    try:
        c = rg.Case(case)
        if impl == "Panic":
            return ("panic", "the resolver panicked")
        parsed = rg.parse_result(impl)
        if parsed is None:
            return None
        results, _cache = parsed
        fwd = c.forwarder()
        for (qn, qt, qc), r in zip(c.questions, results):
            for e in r.log:
                dest = "%s@%d" % (e.ip, e.port)
                if fwd is not None:
                    if dest != fwd:
                        return ("not-the-forwarder", "forwarding mode contacted %s, the forwarder is %s" % (dest, fwd))
                    if e.kind != "C" and e.rd != "1":
                        return ("forward-without-rd", "a forwarded query was sent without RD")
                    continue
                if e.port != c.port:
                    return ("wrong-port", "upstream query to port %d, configured %d" % (e.port, c.port))
                fam = rg.ip_family(e.ip)
                if c.mode == "r4" and fam != 4:
                    return ("wrong-family", "only-v4 contacted the IPv6 address %s" % e.ip)
                if c.mode == "r6" and fam != 6:
                    return ("wrong-family", "only-v6 contacted the IPv4 address %s" % e.ip)
        if c.mode in ("rp4", "rp6"):
            pref = 4 if c.mode == "rp4" else 6
            pref_type = tok.A if pref == 4 else tok.AAAA
            other_type = tok.AAAA if pref == 4 else tok.A
            held = held_addresses(c)
            # which hosts own which address (from what was held and from the universe's host list)
            owners = {}
            for apex, auth, recs in c.local_zones():
                for wild, rr in recs:
                    if rr["type"] in (tok.A, tok.AAAA):
                        owners.setdefault(rr["data"], set()).add(rr["name"])
            if c.cache_tok != "_":
                for x in c.cache_tok.split(";"):
                    rr = tok.parse_rr(x)
                    if rr["type"] in (tok.A, tok.AAAA):
                        owners.setdefault(rr["data"], set()).add(rr["name"])
            hosts = {h.split(":")[0] for h in c.flags.get("hosts", "").split(",") if h}
            asked_names = {qn for (qn, qt, qc) in c.questions}
            for (qn, qt, qc), r in zip(c.questions, results):
                for idx, e in enumerate(r.log):
                    if rg.ip_family(e.ip) != pref:
                        own = owners.get(e.ip)
                        # known only through held data: every host this address is known for also had a held
                        # address of the preferred family
                        if own and all(pref in held.get(h, ()) for h in own):
                            return ("other-family-while-preferred-held",
                                    "contacted %s although an address of the preferred family was held for %s"
                                    % (e.ip, ",".join(sorted(rg.tokname(h) for h in own))))
                    # the preferred family is asked for first: the attempt for the preferred type may fail without an
                    # exchange (the same question is already being resolved further out: DuplicateQuestion) and the
                    # other type then goes upstream first -- but then the outer lookup of the preferred type is in
                    # progress and shows up in the same log; so: an upstream lookup of the other family for a host,
                    # with no lookup of the preferred family for it anywhere in that resolution, is a failure
                    if (c.fault_free and c.consistent and c.flags.get("modeok") == "1" and e.kind == "U"
                            and e.qtype == other_type and e.qname in hosts and e.qname not in asked_names):
                        if not any(p.kind == "U" and p.qname == e.qname and p.qtype == pref_type for p in r.log):
                            return ("other-family-asked-first", "looked up %s type %d without asking for type %d"
                                    % (rg.tokname(e.qname), other_type, pref_type))
    except Exception:  # malformed output is a correspondence matter
        return None
    return None


def nontrivial(case, model):
    p = rg.parse_result(model)
    return p is not None and any(r.log for r in p[0])


def kind(case, model):
    c = rg.Case(case)
    p = rg.parse_result(model)
    fams = set()
    if p:
        for r in p[0]:
            for e in r.log:
                fams.add(str(rg.ip_family(e.ip)))
    return "%s:%s:port%d:contacted-%s" % (c.flags.get("kind", "?"), c.mode if not c.mode.startswith("f") else "fwd", c.port, "+".join(sorted(fams)) or "none")
