"""C17 -- the configuration parsers never crash (zone-file part; the hosts part belongs to the hosts subsystem).

Stream "zonefile" (syntax: ocaml/drv_zonefile.ml), op P:  zonefile P <text> <family>
The impl driver (harness/src/bin_zonefile.rs) runs every case in its own thread with a 2 MiB stack under a
60 s watchdog and flushes after every case: a panic prints "Panic", a hang "Hang", a stack overflow kills
the driver (reported as DRIVER-DIED for exactly that case).  The oracle accepts only "Ok:..." / "Err:...".
"""
import os

from . import core, tok
from . import zonefilegen as zg

ID = "C17"
DRIVER = "zonefile"
COQ_TARGETS = ["Properties/C17.vo"]
THEOREMS = ["C17_tokenise_total", "C17_tokenise_steps_linear", "C17_parse_zone_total", "C17_insert_depth_bound",
            "C17_parsed_names_wf"]
RULE = ("cases: random Unicode strings over structure-heavy alphabets, grammar-aware mutations of valid zone files "
        "(deleted/inserted/duplicated characters, unbalanced quotes and parentheses, truncated escapes, 40-digit numbers, "
        "NULs, non-ASCII), names of 127/128 labels, very long tokens and lines (20 KB quick, 1 MB thorough); "
        "non-trivial = distinct non-empty text")
ASSUMPTIONS = [
    "the theorem is about the model; that the model has all of Rust's panic sites (index, slice, unwrap, usize subtraction) "
    "is established by reading and by this stream",
    "text = list of Unicode scalar values; the model's recursion is structural or fuelled by the input list",
    "1 MB relative-name tokens are generated only in files without $ORIGIN (NameModel.from_relative_dotted_string is "
    "quadratic in the extracted model); with an origin tokens go up to 4 KB",
]
TRUSTED = ["per-case thread (2 MiB stack) + 60 s watchdog in harness/src/bin_zonefile.rs"]

STRUCT = list(" \t\n\n\n\"();\\@*.$0123456789") + ["IN", "A", "SOA", "TXT", "$ORIGIN", "$INCLUDE", "example", "com.",
                                                     "1.2.3.4", "::1", "\\0", "\\00", "\\256", "\\", "\r\n"]
ODD = [0, 1, 7, 0x7f, 0x80, 0x85, 0xa0, 0xe9, 0xff, 0x100, 0x1680, 0x2000, 0x2028, 0x3000, 0x4e2d, 0xd7ff, 0xe000,
       0xfffd, 0xffff, 0x10000, 0x1f600, 0x10ffff]


def rand_char(rng):
    r = rng.random()
    if r < 0.55:
        return rng.choice(STRUCT)
    if r < 0.8:
        return chr(rng.randint(32, 126))
    if r < 0.92:
        return chr(rng.choice(ODD))
    c = rng.randint(0, 0x10ffff)
    while 0xd800 <= c <= 0xdfff:
        c = rng.randint(0, 0x10ffff)
    return chr(c)


def rand_text(rng, n):
    return "".join(rand_char(rng) for _ in range(n))


def mutate(rng, t):
    for _ in range(rng.choice([1, 1, 2, 3, 5])):
        if not t:
            t = rand_text(rng, 3)
        i = rng.randrange(len(t))
        r = rng.random()
        if r < 0.2:
            t = t[:i] + t[i + 1:]
        elif r < 0.5:
            t = t[:i] + rng.choice(["\"", "(", ")", "\\", ";", "\x00", "\u00e9", "\n", "\\2", "\\25", "\\999", "((", "\"\"",
                                     " ", "*", "@", ".", "..", "$", "\U0001F600", "\u2028", "IN ", " SOA ", "+", "-"]) + t[i:]
        elif r < 0.6:
            j = min(len(t), i + rng.randint(1, 40))
            t = t[:j] + t[i:j] + t[j:]
        elif r < 0.7:
            t = t[:i]                                                  # truncation (cuts escapes, quotes, groups)
        elif r < 0.8:
            t = t[:i] + "".join(rng.choice("0123456789") for _ in range(40)) + t[i:]
        elif r < 0.9:
            j = min(len(t), i + rng.randint(1, 10))
            t = t[:i] + t[i:j].upper() + t[j:]
        else:
            t = t[:i] + rand_text(rng, rng.randint(1, 6)) + t[i + 1:]
    return t


def long_cases(rng, size, with_origin_size):
    a = "a" * size
    out = [
        ("long-token", a),
        ("long-token", a + ". 300 IN A 1.2.3.4\n"),
        ("long-token", "x. 300 IN TXT " + a + "\n"),
        ("long-token", "x. 300 IN TXT \"" + a + "\"\n"),
        ("long-token", "x. 300 IN TXT \"" + a),
        ("long-token", "x. " + "9" * size + " IN A 1.2.3.4\n"),
        ("long-token", "x. 300 IN A " + "1." * (size // 2) + "\n"),
        ("long-token", "x. 300 IN NS " + "a." * (size // 2) + "\n"),
        ("long-token", "x. 300 IN TXT " + "\\000" * (size // 4) + "\n"),
        ("long-line", "x. 300 IN TXT " + "a " * (size // 2) + "\n"),
        ("long-line", "x. 300 IN TXT ( " + "a\n" * (size // 2) + ")\n"),
        ("long-line", ";" + a + "\n" + "x. 300 IN A 1.2.3.4\n"),
        ("long-line", " " * size + "x. 300 IN A 1.2.3.4\n"),
        ("long-line", "\n" * size),
        ("long-line", "(" + "\n" * size + ")"),
        ("long-line", "x. 300 IN A 1.2.3.4\n" * (size // 20)),
        ("long-token", "$ORIGIN " + a + ".\n"),
        ("long-token", "$INCLUDE " + a + "\n"),
    ]
    b = "b" * with_origin_size
    out += [("long-token", "$ORIGIN example.com.\n" + b + " 300 IN A 1.2.3.4\n"),
            ("long-token", "$ORIGIN example.com.\nx 300 IN NS " + "b." * (with_origin_size // 2) + "b\n")]
    return out


def deep_names(rng):
    out = []
    for n in (126, 127, 128, 200):
        nm = "a." * n
        out.append(("deep-name", nm + " 300 IN A 1.2.3.4\n"))
        out.append(("deep-name", "$ORIGIN " + nm + "\n@ IN SOA @ @ 1 2 3 4 5\n* 1 IN NS @\n"))
        out.append(("deep-name", "x. 300 IN NS " + nm + "\nx. 300 IN SOA " + nm + " " + nm + " 1 2 3 4 5\n*." + nm + " 5 IN TXT a\n"))
        half = "a." * (n // 2)
        out.append(("deep-name", "$ORIGIN " + half + "\n" + half[:-1] + " 300 IN A 1.2.3.4\n*." + half[:-1] + " 300 IN A 1.2.3.4\n"))
    lab63 = "b" * 63
    for k in (3, 4):
        nm = (lab63 + ".") * k
        out.append(("deep-name", nm + " 300 IN A 1.2.3.4\n"))
    out.append(("deep-name", "b" * 64 + ". 300 IN A 1.2.3.4\n"))
    return out


def mk(family, text):
    return "zonefile P %s %s" % (tok.text(text), family)


def generate(rng, tier):
    n = 5000 if tier == "quick" else 300000
    cases = []
    for t in ["", "\n", "\"", "(", ")", "\\", "\\1", "\\12", "\\256", "\\\u00e9", ";", "@", "*", "$ORIGIN", "$INCLUDE", "$ORIGIN .",
              "$INCLUDE a b c d", "IN", "A", "A 1.2.3.4", "IN A 1.2.3.4", "5 A 1.2.3.4", "5 IN A 1.2.3.4", ". 5 IN A 1.2.3.4",
              "\"\" \"\" \"\" \"\" \"\"", "\"\"", "* IN SOA . . 1 2 3 4 5", ". IN SOA . . 1 2 3 4 5\n. IN SOA . . 1 2 3 4 5",
              "a\x00b. 1 IN A 1.2.3.4", "\x00", "\u00e9", "a. 1 IN TXT \u00e9", "a. 1 IN TXT \"\u00e9\"", ";\u00e9\n", "*.", "*..", "*.*.",
              "..", "a..b. 1 IN A 1.2.3.4", ". 99999999999999999999999999999999999999999 IN A 1.2.3.4", "+ IN A 1.2.3.4",
              ". +5 IN A 1.2.3.4", ". -0 IN A 1.2.3.4", ". 1 IN TYPE65535 a", ". 1 IN TYPE65536 a", ". 1 IN TYPE1 1.2.3.4",
              ". 1 IN TYPE+6 . . 1 2 3 4 5", ". 1 IN TYPE a", ". 1 IN AAAA ::", ". 1 IN AAAA 1:2:3:4:5:6:7:8:9", ". 1 IN AAAA ::ffff:1.2.3.4",
              ". 1 IN AAAA 1.2.3.4::", ". 1 IN A 1.2.3.4.", ". 1 IN A 1.2.3.0004", ". 1 IN A 255.255.255.255", ". 1 IN MX 65535 .",
              ". 1 IN MX 65536 .", ". 1 IN SRV 0 0 0 .", ". 1 IN HINFO a b", ". 1 IN MINFO . .", ". 1 IN WKS \\255", ". 1 IN NULL \"\""]:
        cases.append(mk("corpus", t))
    # char::is_whitespace: every White_Space code point, its neighbours, and look-alikes that are not white space
    ws = [9, 10, 11, 12, 13, 32, 0x85, 0xa0, 0x1680] + list(range(0x2000, 0x200b)) + [0x2028, 0x2029, 0x202f, 0x205f, 0x3000]
    cand = sorted(set([c + d for c in ws for d in (-1, 0, 1)] + [0x1c, 0x1f, 0x180e, 0x200b, 0x200c, 0x2060, 0xfeff, 0x7f, 0x80]))
    for c in cand:
        if c >= 0 and not (0xd800 <= c <= 0xdfff):
            cases.append(mk("whitespace", "a." + chr(c) + "300" + chr(c) + "IN A 1.2.3.4"))
    cdir = os.path.join(core.VERIF, "corpus", "C17")
    if os.path.isdir(cdir):
        for fn in sorted(os.listdir(cdir)):
            with open(os.path.join(cdir, fn)) as fh:
                cases += [l.strip() for l in fh if l.strip() and not l.startswith("#")]
    for fam, t in deep_names(rng):
        cases.append(mk(fam, t))
    size, osize = (20000, 2000) if tier == "quick" else (1 << 20, 4096)
    for fam, t in long_cases(rng, size, osize):
        cases.append(mk(fam, t))
    while len(cases) < n:
        r = rng.random()
        if r < 0.35:
            cases.append(mk("random", rand_text(rng, rng.choice([1, 2, 3, 5, 8, 13, 30, 80, 300]))))
        elif r < 0.9:
            g = zg.Gen(rng, nasty=rng.choice([0.0, 0.2, 0.5]), full_ascii=rng.random() < 0.3)
            t = zg.render(rng, g.file(), zg.STYLE_RICH if rng.random() < 0.8 else zg.STYLE_SIMPLE)
            cases.append(mk("mutated", mutate(rng, t)))
        else:
            g = zg.Gen(rng)
            cases.append(mk("valid", zg.render(rng, g.file(), zg.STYLE_RICH)))
    return cases


def oracle(case, impl, model):
    if impl.startswith("Ok:") or impl.startswith("Err:"):
        return None
    if impl == "DRIVER-DIED-AFTER":
        return None
    return ("parser-crash", "Zone::deserialise did not terminate with a result or an error: %s" % impl)


def nontrivial(case, model):
    return case.split(" ")[2] != "_"


def kind(case, model):
    toks = case.split(" ")
    fam = toks[3] if len(toks) > 3 else "?"
    return "%s -> %s" % (fam, model.split("#")[0] if model.startswith("Err:") else model.split(":")[0])
