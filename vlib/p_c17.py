"""C17 -- the configuration parsers and the loader never crash.

Three parts, all needed by the property text ("reading ANY text as a zone file or as a hosts file terminates
with a result or an error ... a bad configuration file is reported instead of taking down start-up or a reload"):

(1) zone files -- the module's main stream "zonefile" (syntax: ocaml/drv_zonefile.ml), op P:  zonefile P <text> <family>
    The impl driver (harness/src/bin_zonefile.rs) runs every case in its own thread with a 2 MiB stack under a
    300 s watchdog and flushes after every case: a panic prints "Panic", a hang "Hang", a stack overflow kills
    the driver (reported as DRIVER-DIED for exactly that case).  The oracle accepts only "Ok:..." / "Err:...".
(2) hosts files -- extra(), stream "hosts" op P (= Hosts::deserialise; ocaml/drv_hosts.ml, harness/src/bin_hosts.rs
    with the same per-case thread / watchdog / flush loop, harness/src/vthread.rs): random Unicode text, mutations
    of valid hosts files, NULs, lone CRs, and lines / tokens / comments / files of 10^4 .. 10^6 characters.
(3) the loader -- extra(), stream "config" op L (ocaml/drv_config.ml, harness/src/config.rs): bad files are written
    to disk and loaded by the real resolved::fs::load_zone_configuration (per-case 2 MiB thread as well); the
    outcome must be None (reported), never Panic / Hang / death of the driver.
See the comment above extra_hosts for the oracles of (2) and (3).
"""
import os
import threading

from . import core, tok
from . import zonefilegen as zg

ID = "C17"
DRIVER = "zonefile"
COQ_TARGETS = ["Properties/C17.vo"]
THEOREMS = ["C17_tokenise_total", "C17_tokenise_steps_linear", "C17_parse_zone_total", "C17_insert_depth_bound",
            "C17_parsed_names_wf"]
RULE = ("cases: (zone text) random Unicode strings over structure-heavy alphabets, grammar-aware mutations of valid zone files "
        "(deleted/inserted/duplicated characters, unbalanced quotes and parentheses, truncated escapes, 40-digit numbers, "
        "NULs, non-ASCII), names of 127/128 labels, very long tokens and lines (20 KB quick, 1 MB thorough); "
        "(hosts text) the C14 corpus, random Unicode over a hosts alphabet, mutations of valid hosts files, NULs, lone CRs, and "
        "the long-input families many-names (one line of 200 / 800 / 10^4 .. 10^5 names, quick; up to 3*10^5 thorough; same or "
        "distinct names, every separator, ended by a comment / a bad name / a non-ASCII character / '%'), lone-cr, nul, long-name, "
        "long-comment, long-ws, long-addr (2 KB / 5 KB / 1 MB) and many-lines (500 / 10^4 / 10^5 short lines); "
        "(loader) zone and hosts files the parser models reject -- a multi-byte character (2, 3, 4 bytes) at every distance "
        "0..24 (quick; 0..200 thorough) after the first offending character on its line, before it (multi-byte white space, "
        "comment inside a parenthesised entry), around an earlier harmless occurrence of the same character in a comment or "
        "a skipped '%' line, unbalanced parentheses / quotes next to multi-byte comment text, realistic non-ASCII names, "
        "mutated files sprinkled with multi-byte characters, binary garbage (valid and invalid UTF-8), a 100 KB file -- placed "
        "as -z/-a file, after a good file, or inside -Z/-A directories; empty and blank files, a directory where a file should "
        "be, a file where a directory should be, missing files, dangling links; "
        "non-trivial = distinct non-empty text (zone, hosts) / distinct case line (loader)")
ASSUMPTIONS = [
    "the theorem is about the model; that the model has all of Rust's panic sites (index, slice, unwrap, usize subtraction) "
    "is established by reading and by this stream",
    "text = list of Unicode scalar values; the model's recursion is structural or fuelled by the input list",
    "1 MB relative-name tokens are generated only in files without $ORIGIN (NameModel.from_relative_dotted_string is "
    "quadratic in the extracted model); with an origin tokens go up to 4 KB",
    "hosts part: the extracted hosts model is quadratic in the length of a line and in the number of distinct names (and worse "
    "beyond about 20 K characters on a line, where OCaml's minor collections keep scanning the deep stack of the non-tail-"
    "recursive extracted functions), so a hosts case is given to the model only if no line exceeds 20000 characters and its "
    "estimated model time (hosts_model_seconds, calibrated by measurement) is at most 3 s (quick) / 25 s (thorough) -- in effect "
    "one line of up to 20000 characters or about 2500..5000 names, one token of up to about 10000 characters, and about 50000 "
    "short lines in the quick tier; every case, whatever its size, is run by the real Hosts::deserialise on a 2 MiB stack, and "
    "the cases beyond the model's budget are compared with the linear python reading of hosts(5) of vlib/p_c14.py instead "
    "(mappings equal / file rejected) where that reading is unambiguous; the counts are in the evidence (extra.hosts)",
    "loader part: the config model takes a file as data; a text is declared unparsable to it only after the zone-file / hosts "
    "parser MODEL returned Err on that text (texts the parser models accept are not used here -- C12 covers valid files); "
    "stack exhaustion is observed with the harness build profile (opt-level 1): a recursion that the optimiser turns into a "
    "loop at that level is not a stack hazard of this build and is not reported",
    "loader part: the harness calls load_zone_configuration on a current-thread tokio runtime inside the per-case 2 MiB thread; "
    "no tracing subscriber is installed, so the formatting of log fields is not exercised (computing them is)",
]
TRUSTED = ["per-case thread (2 MiB stack) + 300 s watchdog in harness/src/bin_zonefile.rs and harness/src/vthread.rs (hosts and config drivers)",
           "python reading of hosts(5) in vlib/p_c14.py, used as the reference for hosts inputs beyond the model's size budget"]

STRUCT = list(" \t\n\n\n\"();\\@*.$0123456789") + ["IN", "A", "SOA", "TXT", "$ORIGIN", "$INCLUDE", "example", "com.",
                                                     "1.2.3.4", "::1", "\\0", "\\00", "\\256", "\\", "\r\n"]
ODD = [0, 1, 7, 0x7f, 0x80, 0x85, 0xa0, 0xe9, 0xff, 0x100, 0x1680, 0x2000, 0x2028, 0x3000, 0x4e2d, 0xd7ff, 0xe000,
       0xfffd, 0xffff, 0x10000, 0x1f600, 0x10ffff]


def rand_char(rng):
    r = rng.random()
    if r < 0.55:
        return rng.choice(STRUCT)
    if r < 0.8:
        return chr(rng.randint(32, 126))
    if r < 0.92:
        return chr(rng.choice(ODD))
    c = rng.randint(0, 0x10ffff)
    while 0xd800 <= c <= 0xdfff:
        c = rng.randint(0, 0x10ffff)
    return chr(c)


def rand_text(rng, n):
    return "".join(rand_char(rng) for _ in range(n))


def mutate(rng, t):
    for _ in range(rng.choice([1, 1, 2, 3, 5])):
        if not t:
            t = rand_text(rng, 3)
        i = rng.randrange(len(t))
        r = rng.random()
        if r < 0.2:
            t = t[:i] + t[i + 1:]
        elif r < 0.5:
            t = t[:i] + rng.choice(["\"", "(", ")", "\\", ";", "\x00", "\u00e9", "\n", "\\2", "\\25", "\\999", "((", "\"\"",
                                     " ", "*", "@", ".", "..", "$", "\U0001F600", "\u2028", "IN ", " SOA ", "+", "-"]) + t[i:]
        elif r < 0.6:
            j = min(len(t), i + rng.randint(1, 40))
            t = t[:j] + t[i:j] + t[j:]
        elif r < 0.7:
            t = t[:i]                                                  # truncation (cuts escapes, quotes, groups)
        elif r < 0.8:
            t = t[:i] + "".join(rng.choice("0123456789") for _ in range(40)) + t[i:]
        elif r < 0.9:
            j = min(len(t), i + rng.randint(1, 10))
            t = t[:i] + t[i:j].upper() + t[j:]
        else:
            t = t[:i] + rand_text(rng, rng.randint(1, 6)) + t[i + 1:]
    return t


def long_cases(rng, size, with_origin_size):
    a = "a" * size
    out = [
        ("long-token", a),
        ("long-token", a + ". 300 IN A 1.2.3.4\n"),
        ("long-token", "x. 300 IN TXT " + a + "\n"),
        ("long-token", "x. 300 IN TXT \"" + a + "\"\n"),
        ("long-token", "x. 300 IN TXT \"" + a),
        ("long-token", "x. " + "9" * size + " IN A 1.2.3.4\n"),
        ("long-token", "x. 300 IN A " + "1." * (size // 2) + "\n"),
        ("long-token", "x. 300 IN NS " + "a." * (size // 2) + "\n"),
        ("long-token", "x. 300 IN TXT " + "\\000" * (size // 4) + "\n"),
        ("long-line", "x. 300 IN TXT " + "a " * (size // 2) + "\n"),
        ("long-line", "x. 300 IN TXT ( " + "a\n" * (size // 2) + ")\n"),
        ("long-line", ";" + a + "\n" + "x. 300 IN A 1.2.3.4\n"),
        ("long-line", " " * size + "x. 300 IN A 1.2.3.4\n"),
        ("long-line", "\n" * size),
        ("long-line", "(" + "\n" * size + ")"),
        ("long-line", "x. 300 IN A 1.2.3.4\n" * (size // 20)),
        ("long-token", "$ORIGIN " + a + ".\n"),
        ("long-token", "$INCLUDE " + a + "\n"),
    ]
    b = "b" * with_origin_size
    out += [("long-token", "$ORIGIN example.com.\n" + b + " 300 IN A 1.2.3.4\n"),
            ("long-token", "$ORIGIN example.com.\nx 300 IN NS " + "b." * (with_origin_size // 2) + "b\n")]
    return out


def deep_names(rng):
    out = []
    for n in (126, 127, 128, 200):
        nm = "a." * n
        out.append(("deep-name", nm + " 300 IN A 1.2.3.4\n"))
        out.append(("deep-name", "$ORIGIN " + nm + "\n@ IN SOA @ @ 1 2 3 4 5\n* 1 IN NS @\n"))
        out.append(("deep-name", "x. 300 IN NS " + nm + "\nx. 300 IN SOA " + nm + " " + nm + " 1 2 3 4 5\n*." + nm + " 5 IN TXT a\n"))
        half = "a." * (n // 2)
        out.append(("deep-name", "$ORIGIN " + half + "\n" + half[:-1] + " 300 IN A 1.2.3.4\n*." + half[:-1] + " 300 IN A 1.2.3.4\n"))
    lab63 = "b" * 63
    for k in (3, 4):
        nm = (lab63 + ".") * k
        out.append(("deep-name", nm + " 300 IN A 1.2.3.4\n"))
    out.append(("deep-name", "b" * 64 + ". 300 IN A 1.2.3.4\n"))
    return out


def mk(family, text):
    return "zonefile P %s %s" % (tok.text(text), family)


def generate(rng, tier):
    n = 5000 if tier == "quick" else 300000
    cases = []
    for t in ["", "\n", "\"", "(", ")", "\\", "\\1", "\\12", "\\256", "\\\u00e9", ";", "@", "*", "$ORIGIN", "$INCLUDE", "$ORIGIN .",
              "$INCLUDE a b c d", "IN", "A", "A 1.2.3.4", "IN A 1.2.3.4", "5 A 1.2.3.4", "5 IN A 1.2.3.4", ". 5 IN A 1.2.3.4",
              "\"\" \"\" \"\" \"\" \"\"", "\"\"", "* IN SOA . . 1 2 3 4 5", ". IN SOA . . 1 2 3 4 5\n. IN SOA . . 1 2 3 4 5",
              "a\x00b. 1 IN A 1.2.3.4", "\x00", "\u00e9", "a. 1 IN TXT \u00e9", "a. 1 IN TXT \"\u00e9\"", ";\u00e9\n", "*.", "*..", "*.*.",
              "..", "a..b. 1 IN A 1.2.3.4", ". 99999999999999999999999999999999999999999 IN A 1.2.3.4", "+ IN A 1.2.3.4",
              ". +5 IN A 1.2.3.4", ". -0 IN A 1.2.3.4", ". 1 IN TYPE65535 a", ". 1 IN TYPE65536 a", ". 1 IN TYPE1 1.2.3.4",
              ". 1 IN TYPE+6 . . 1 2 3 4 5", ". 1 IN TYPE a", ". 1 IN AAAA ::", ". 1 IN AAAA 1:2:3:4:5:6:7:8:9", ". 1 IN AAAA ::ffff:1.2.3.4",
              ". 1 IN AAAA 1.2.3.4::", ". 1 IN A 1.2.3.4.", ". 1 IN A 1.2.3.0004", ". 1 IN A 255.255.255.255", ". 1 IN MX 65535 .",
              ". 1 IN MX 65536 .", ". 1 IN SRV 0 0 0 .", ". 1 IN HINFO a b", ". 1 IN MINFO . .", ". 1 IN WKS \\255", ". 1 IN NULL \"\""]:
        cases.append(mk("corpus", t))
    # char::is_whitespace: every White_Space code point, its neighbours, and look-alikes that are not white space
    ws = [9, 10, 11, 12, 13, 32, 0x85, 0xa0, 0x1680] + list(range(0x2000, 0x200b)) + [0x2028, 0x2029, 0x202f, 0x205f, 0x3000]
    cand = sorted(set([c + d for c in ws for d in (-1, 0, 1)] + [0x1c, 0x1f, 0x180e, 0x200b, 0x200c, 0x2060, 0xfeff, 0x7f, 0x80]))
    for c in cand:
        if c >= 0 and not (0xd800 <= c <= 0xdfff):
            cases.append(mk("whitespace", "a." + chr(c) + "300" + chr(c) + "IN A 1.2.3.4"))
    cdir = os.path.join(core.VERIF, "corpus", "C17")
    if os.path.isdir(cdir):
        for fn in sorted(os.listdir(cdir)):
            with open(os.path.join(cdir, fn)) as fh:
                cases += [l.strip() for l in fh if l.strip() and not l.startswith("#")]
    for fam, t in deep_names(rng):
        cases.append(mk(fam, t))
    size, osize = (20000, 2000) if tier == "quick" else (1 << 20, 4096)
    for fam, t in long_cases(rng, size, osize):
        cases.append(mk(fam, t))
    while len(cases) < n:
        r = rng.random()
        if r < 0.35:
            cases.append(mk("random", rand_text(rng, rng.choice([1, 2, 3, 5, 8, 13, 30, 80, 300]))))
        elif r < 0.9:
            g = zg.Gen(rng, nasty=rng.choice([0.0, 0.2, 0.5]), full_ascii=rng.random() < 0.3)
            t = zg.render(rng, g.file(), zg.STYLE_RICH if rng.random() < 0.8 else zg.STYLE_SIMPLE)
            cases.append(mk("mutated", mutate(rng, t)))
        else:
            g = zg.Gen(rng)
            cases.append(mk("valid", zg.render(rng, g.file(), zg.STYLE_RICH)))
    return cases


def oracle(case, impl, model):
    if impl.startswith("Ok:") or impl.startswith("Err:"):
        return None
    if impl == "DRIVER-DIED-AFTER":
        return None
    return ("parser-crash", "Zone::deserialise did not terminate with a result or an error: %s" % impl)


def nontrivial(case, model):
    return case.split(" ")[2] != "_"


def kind(case, model):
    toks = case.split(" ")
    fam = toks[3] if len(toks) > 3 else "?"
    return "%s -> %s" % (fam, model.split("#")[0] if model.startswith("Err:") else model.split(":")[0])


# ======================================================================================================
# extra: the hosts parser and the loader (crates/resolved/src/fs.rs)
# ======================================================================================================
#
# (1) stream "hosts", op P (= Hosts::deserialise; syntax: ocaml/drv_hosts.ml).  The impl driver
#     (harness/src/bin_hosts.rs -> vthread.rs) runs every case in its own 2 MiB-stack thread under a 60 s
#     watchdog and flushes per case, exactly as the zonefile driver does.  Every case goes to the real parser;
#     the extracted model (coq/Hosts/HostsModel.v) is quadratic in the length of a line (stdlib rev in
#     str_lines, str_slice per field) and in the number of distinct names (association lists), so only the
#     cases whose estimated model time is under MODEL_BUDGET_S are also given to the model and compared
#     string for string; the larger ones are compared with the linear python reading of hosts(5) of
#     vlib/p_c14.py (same mappings / rejected).
# (2) stream "config", op L (syntax: ocaml/drv_config.ml): files are written to disk and loaded by the real
#     resolved::fs::load_zone_configuration, here with VERIF_CASE_STACK set so that bin_config.rs also runs
#     every case in its own 2 MiB-stack thread under the watchdog.  A text is declared unparsable ("Xg") to
#     the config model only after the parser MODEL (zonefile P / hosts P) returned Err on it.

MODEL_BUDGET_S = {"quick": 3.0, "thorough": 25.0}
MB_CHARS = {2: ["é", "ü", "ß", "Ж", "\u00a0", "\u0085"],
            3: ["中", "€", "日", "\u3000", "\u2003", "\ufeff"],
            4: ["\U0001F600", "\U00010000", "\U0002070E", "\U0010FFFF"]}
HSTRUCT = list(" \t\n\n#%.:0123456789ab") + ["1.2.3.4", "::1", "fe80::1%eth0", "localhost", "a.b", "\r", "\r\n", "\x00", "\x0b",
                                               "\x0c", " # ", "10.0.0.1 ", "..", "\n127.0.0.1 "]


MODEL_MAX_LINE = 20000


def hosts_model_seconds(text):
    """estimated run time of build/model_hosts on `text` (measured on this machine: 16 K characters on one
    line 1.3 s -- 2.7 s if they are one name, 7 s if they are one address or a name of 8000 labels --, 2000
    names on one line 0.5 s, 10^4 lines with 300 distinct names 1.3 s, 10^5 lines 4.7 s).  Beyond 20 K
    characters on a line the time grows faster than the square (the non-tail-recursive extracted functions
    make the OCaml stack deep and every minor collection scans it): such texts are never given to the model."""
    lines = text.split("\n")
    sq = fl = names = tsq = 0
    distinct = set()
    for l in lines:
        n = len(l)
        if n > MODEL_MAX_LINE:
            return float("inf")
        if n > 40:
            sq += n * n
        f = l.split("#", 1)[0].split()
        fl += len(f) * n
        names += max(0, len(f) - 1)
        if n > 200:
            tsq += sum(len(x) ** 2 for x in f if len(x) > 100)
        if len(distinct) < 100000:
            distinct.update(f[1:])
    return 5e-9 * sq + 2.5e-8 * tsq + 5e-8 * fl + 3e-7 * names * max(1, len(distinct)) + 5e-5 * len(lines) + 2e-7 * len(text)


def text_tok(s):
    """tok.text, fast on megabyte texts"""
    if len(s) < 4096:
        return tok.text(s)
    return s.translate({c: "%d," % c for c in set(map(ord, s))})[:-1]


def hrand_char(rng):
    r = rng.random()
    if r < 0.6:
        return rng.choice(HSTRUCT)
    if r < 0.8:
        return chr(rng.randint(32, 126))
    if r < 0.92:
        return chr(rng.choice(ODD))
    c = rng.randint(0, 0x10ffff)
    while 0xd800 <= c <= 0xdfff:
        c = rng.randint(0, 0x10ffff)
    return chr(c)


def hrand_text(rng, n):
    return "".join(hrand_char(rng) for _ in range(n))


def hmutate(rng, t):
    for _ in range(rng.choice([1, 1, 2, 3, 5])):
        if not t:
            t = hrand_text(rng, 3)
        i = rng.randrange(len(t))
        r = rng.random()
        if r < 0.2:
            t = t[:i] + t[i + 1:]
        elif r < 0.5:
            t = t[:i] + rng.choice(["#", "%", "\x00", "\r", "\r\r", "\n", "\r\n", " ", "\t", "\x0b", ".", "..", ":", "::", "é",
                                     "\U0001F600", " ", "\u00a0", "\u3000", "\ufeff", "256", "1.2.3.4", " 1.2.3.4 ", "-", "*", "\\", "\""]) + t[i:]
        elif r < 0.6:
            j = min(len(t), i + rng.randint(1, 40))
            t = t[:j] + t[i:j] + t[j:]
        elif r < 0.7:
            t = t[:i]
        elif r < 0.8:
            t = t[:i] + "".join(rng.choice("0123456789") for _ in range(40)) + t[i:]
        elif r < 0.9:
            j = min(len(t), i + rng.randint(1, 10))
            t = t[:i] + t[i:j].upper() + t[j:]
        else:
            t = t[:i] + hrand_text(rng, rng.randint(1, 6)) + t[i + 1:]
    return t


def hosts_shapes(rng, names, size, lines):
    """the long-input families at a given scale: `names` names on one line, `size` characters in one token /
    comment / run, `lines` short lines"""
    seps = [" ", "\t", "\r", "\x0b", " \t "]
    out = []
    for k, sep in enumerate(seps[:3] if names >= 50000 else seps):
        out.append(("many-names", "1.2.3.4" + (sep + "a") * names))
        out.append(("many-names", "::1" + sep + sep.join("n%d.lan" % i for i in range(names)) + "\n10.0.0.1 tail\n"))
    out += [
        ("many-names", "10.0.0.1 " + " ".join(["h"] * names) + " # trailing comment"),
        ("many-names", "10.0.0.1 " + " ".join("h%d" % (i % 50) for i in range(names)) + "# glued comment é"),
        ("many-names", "1.2.3.4 " + "x " * names + "a..b"),
        ("many-names", "1.2.3.4 " + "x " * names + "é"),
        ("many-names", "1.2.3.4 " + "x " * names + "%"),
        ("many-names", "999.2.3.4 " + "x " * names),
        ("many-names", "fe80::1%eth0 " + "x " * names),
        ("many-names", "# first\n\n1.2.3.4 " + "A. " * names + "\n::1 b\n"),
        ("lone-cr", "1.2.3.4 a\r" * (names // 2)),
        ("lone-cr", "1.2.3.4 a\r\r" * (names // 2) + "\n1.2.3.5 a\r\n"),
        ("nul", "1.2.3.4 " + "\x00 " * names),
        ("nul", "1.2.3.4 a\x00b " * (names // 2)),
        ("long-name", "1.2.3.4 " + "a" * size),
        ("long-name", "1.2.3.4 " + "a." * (size // 2)),
        ("long-name", "1.2.3.4 ok " + "." * size),
        ("long-name", "1.2.3.4 " + ("b" * 63 + ".") * (size // 64)),
        ("long-comment", "1.2.3.4 a #" + "c" * size + "\n::1 b\n"),
        ("long-comment", "#" + "é" * (size // 2)),
        ("long-comment", "1.2.3.4 a#" + "# \x00\r中" * (size // 5)),
        ("long-ws", " " * size + "1.2.3.4 a"),
        ("long-ws", "1.2.3.4" + "\t" * size + "a" + " " * size),
        ("long-ws", "\r" * size),
        ("long-addr", "1" * size + " a"),
        ("long-addr", "1:" * (size // 2) + " a"),
        ("long-addr", "1" * size),
        ("nul", "\x00" * size),
        ("many-lines", "1.2.3.4 a\n" * lines),
        ("many-lines", "".join("10.%d.%d.%d h%d\n" % ((i >> 16) & 255, (i >> 8) & 255, i & 255, i) for i in range(lines))),
        ("many-lines", "\n" * lines),
        ("many-lines", "\r\n" * lines + "1.2.3.4 a"),
        ("many-lines", "#\n" * lines + "zzz x"),
    ]
    return out


def hosts_texts(rng, tier):
    """-> list of (family, text); the very large ones are spread evenly over the list (the streams are sharded)"""
    from . import p_c14
    small = []
    for t in p_c14.CORPUS:
        small.append(("corpus", t))
    for t in ["\x00", "\r", "\r\r\n", "1.2.3.4\ra", "1.2.3.4 a\rb\rc", "1.2.3.4 a\x00b", "\x00 1.2.3.4 a", "1.2.3.4\x00 a", "#\x00", "\ufeff1.2.3.4 a",
              "1.2.3.4 a ::1 b", "1.2.3.4 a\x85b", "1.2.3.4\u00a0a", "1.2.3.4 \U0001F600", "%", "%%", "# é\né", "1.2.3.4 a #\n\n#\n",
              "::1%é a", "1.2.3.4 " + "a" * 63 + "." + "b" * 64, "1.2.3.4 " + ("a" * 63 + ".") * 4, "1.2.3.4 " + ("a." * 127), "1.2.3.4 " + ("a." * 128)]:
        small.append(("corpus", t))
    # the long-input families at model scale
    for scale in ((200, 2000, 500), (800, 5000, 10000)) + (((2000, 12000, 30000),) if tier != "quick" else ()):
        for fam, t in hosts_shapes(rng, *scale):
            small.append((fam, t))
    n = 600 if tier == "quick" else 60000
    while len(small) < n:
        r = rng.random()
        if r < 0.3:
            small.append(("random", hrand_text(rng, rng.choice([1, 2, 3, 5, 8, 13, 30, 80, 300]))))
        elif r < 0.9:
            small.append(("mutated", hmutate(rng, p_c14.rand_file(rng, rng.choice([0.0, 0.2, 0.5])))))
        else:
            small.append(("valid", p_c14.rand_file(rng, 0.0)))
    big = []
    if tier == "quick":
        sh = hosts_shapes(rng, 100000, 1 << 20, 100000)
        # a handful: one of each kind of size
        pick = {"many-names": [0, 1, 7, 8, 9], "lone-cr": [0], "nul": [0], "long-name": [0, 1], "long-comment": [0, 1], "long-ws": [0],
                "long-addr": [0], "many-lines": [0, 1]}
        seen = {}
        for fam, t in sh:
            k = seen.get(fam, 0)
            seen[fam] = k + 1
            if k in pick.get(fam, []):
                big.append((fam, t))
        big.append(("many-names", "1.2.3.4" + " a" * 10000))
        big.append(("many-names", "1.2.3.4" + "\ta.b" * 30000))
    else:
        for names, size, lines in ((10000, 1 << 16, 10000), (30000, 1 << 18, 50000), (100000, 1 << 20, 100000), (300000, 1 << 20, 300000)):
            big += hosts_shapes(rng, names, size, lines)
    out = list(small)
    step = max(1, len(out) // (len(big) + 1))
    for i, b in enumerate(big):
        out.insert(min(len(out), (i + 1) * step + i), b)
    return out


def run_all(binary, lines, run_dir, tag, nshards, env=None, timeout=900):
    """core.run_sharded, then again over the cases a dead driver did not reach, until every case has its own outcome"""
    outs = core.run_sharded(binary, lines, run_dir, tag, nshards=nshards, env=env, timeout=timeout)
    for rnd in range(40):
        idx = [i for i, o in enumerate(outs) if o == "DRIVER-DIED-AFTER"]
        if not idx:
            break
        sub = core.run_sharded(binary, [lines[i] for i in idx], run_dir, "%s-again%d" % (tag, rnd),
                               nshards=max(1, min(nshards, len(idx) // 20)), env=env, timeout=timeout)
        for i, o in zip(idx, sub):
            outs[i] = o
    return outs


def crashed(out):
    return out in ("Panic", "Hang") or out.startswith("DRIVER-DIED") or out.startswith("IMPL-EXN")


def extra_hosts(ctx, fails, info):
    from . import p_c14
    tier = ctx["tier"]
    texts = hosts_texts(ctx["rng"], tier)
    lines = ["hosts P " + text_tok(t) for _, t in texts]
    budget = MODEL_BUDGET_S[tier]
    with_model = [i for i, (_, t) in enumerate(texts) if hosts_model_seconds(t) <= budget]
    stream_timeout = 600 if tier == "quick" else 3000
    box = {}
    th = threading.Thread(target=lambda: box.update(m=run_all(core.model_driver_path("hosts"), [lines[i] for i in with_model], ctx["run_dir"],
                                                              "c17hosts-model", 12, timeout=stream_timeout)))
    th.start()
    iouts = run_all(core.impl_driver_path("hosts"), lines, ctx["run_dir"], "c17hosts-impl", 8, timeout=stream_timeout)
    wm = set(with_model)
    refs = {i: p_c14.read_hosts(t) for i, (_, t) in enumerate(texts) if i not in wm}
    th.join()
    mouts = dict(zip(with_model, box.get("m") or ["MODEL-RUN-FAILED"] * len(with_model)))
    st = {"cases": len(lines), "model_compared": 0, "reference_compared": 0, "unjudged_beyond_model_budget": 0, "disagreements": 0,
          "largest_text_chars": max(len(t) for _, t in texts), "largest_model_text_chars": max([len(texts[i][1]) for i in with_model] or [0]),
          "model_budget_s": budget, "families": {}}
    seen = set()
    distinct = 0
    for i, ((fam, t), line, io) in enumerate(zip(texts, lines, iouts)):
        cls = io.split(":")[1] if io.startswith("Err:") else io.split(":")[0].split(" ")[0]
        key = "%s -> %s" % (fam, cls)
        st["families"][key] = st["families"].get(key, 0) + 1
        if line not in seen:
            seen.add(line)
            if t:
                distinct += 1
        mo = mouts.get(i)
        if not (io.startswith("Ok:") or io.startswith("Err:")):
            fails.append(core.Failure("hosts-parser-crash", "Hosts::deserialise did not terminate with a result or an error on a %s input of %d "
                                      "characters (2 MiB thread stack): %s" % (fam, len(t), core.trunc(io, 80)), core.trunc(line, 1 << 20), core.trunc(io, 200),
                                      core.trunc(mo, 200) if mo is not None else None))
            continue
        if mo is not None:
            st["model_compared"] += 1
            if mo != io:
                st["disagreements"] += 1
                if st["disagreements"] <= 3:
                    fails.append(core.Failure("hosts-correspondence", "model and implementation of Hosts::deserialise disagree (%s input)" % fam,
                                              core.trunc(line, 4000), core.trunc(io, 300), core.trunc(mo, 300), found_input=False))
            continue
        # beyond the model's budget: the linear python reading of hosts(5) (vlib/p_c14.py), where it is unambiguous
        ref = refs[i]
        if ref[0] == "err" or (ref[0] == "ok" and not ref[3] and not ref[4]):
            st["reference_compared"] += 1
            f = p_c14.check_parse(ref, io.startswith("Err:"), io[3:] if io.startswith("Ok:") else None, "deserialise")
            if f is not None:
                fails.append(core.Failure("hosts-large-" + f[0], f[1], core.trunc(line, 4000), core.trunc(io, 300), None))
        else:
            st["unjudged_beyond_model_budget"] += 1
    info["hosts"] = st
    return len(lines), distinct


# ---- loader ---------------------------------------------------------------------------------------

Z_HEAD = "$ORIGIN example.com.\n@ 300 IN SOA ns admin 1 2 3 4 5\nwww 300 IN A 10.0.0.1\n"
H_HEAD = "127.0.0.1 localhost\n10.0.0.1 gw.lan gw\n"
PAD = "abcdefghijklmnopqrstuvwxyz0123456789-"


def pad(rng, n):
    return "".join(rng.choice(PAD) for _ in range(n))


def offenders(rng, width):
    """a non-white-space character of `width` UTF-8 bytes (rejected by both parsers outside comments)"""
    return rng.choice([c for c in MB_CHARS[width] if not c.isspace() or c == "\ufeff"])


def loader_texts(rng, tier):
    """-> list of (role 'z'|'h', family, text or bytes).  X is the character the parser will complain about,
    Y are further multi-byte characters at a swept distance d before / after it: on the same line after it,
    on the same line before it where the grammar allows (multi-byte white space in zone files, the same
    character inside the skipped part of a '%' line in hosts files), and around an earlier harmless
    occurrence of X inside a comment."""
    out = []
    dmax = 24 if tier == "quick" else 200
    widths = (2, 3, 4)
    k = 0
    for d in range(0, dmax + 1):
        for wy in widths:
            k += 1
            wx = widths[(d + k) % 3]
            X = offenders(rng, wx)
            Y = rng.choice(MB_CHARS[wy])
            Yw = rng.choice([c for w in widths for c in MB_CHARS[w] if c.isspace()])          # multi-byte white space
            lead = pad(rng, rng.randint(0, 12))
            it = []
            # same line, after the offending character
            it.append(("z", "after", Z_HEAD + "t%s 300 IN TXT %s%s%s%s%s\n" % (lead, pad(rng, 1), X, pad(rng, d), Y, pad(rng, rng.randint(0, 30)))))
            it.append(("h", "after", H_HEAD + "10.0.0.12 %sd%s%s%s.lan %s\n" % (lead, X, pad(rng, d), Y, pad(rng, rng.randint(0, 30)))))
            # same line, before it
            it.append(("z", "before", Z_HEAD + "t%s 300 IN TXT a%s%s %s\n" % (lead, Yw, pad(rng, d), X)))
            it.append(("z", "before", Z_HEAD + "t 300 IN TXT ( a ; %s%s%s\n %sb%s )\n" % (Y, pad(rng, d), X, pad(rng, d), X)))
            # an earlier harmless occurrence of the same character with multi-byte neighbours on both sides
            d2 = d if k % 2 else rng.randint(0, dmax)
            com = "%s%s%s%s%s%s" % (pad(rng, rng.randint(0, 20)), Y, pad(rng, d), X, pad(rng, d2), rng.choice(MB_CHARS[widths[(k + 1) % 3]]))
            it.append(("z", "comment-first", "; " + com + " end\n" + Z_HEAD + "bad 300 IN TXT x" + X + "\n"))
            it.append(("z", "comment-first", Z_HEAD + "mail 300 IN MX 10 www ; " + com + "\nb" + X + "d 300 IN A 10.0.0.2\n"))
            it.append(("h", "comment-first", "# " + com + " end\n" + H_HEAD + "10.0.0.2 h" + X + ".lan\n"))
            it.append(("h", "comment-first", H_HEAD + "10.0.0.3 printer # " + com + "\n10.0.0.2 " + X + "\n"))
            it.append(("h", "percent-first", "fe80::1%eth0 " + com + "\n" + H_HEAD + "10.0.0.2 h" + X + "\n"))
            # unbalanced parentheses / quotes with multi-byte text around them
            it.append(("z", "paren", Z_HEAD + "p 300 IN A 10.0.0.3 ) ;%s%s%s\n" % (pad(rng, d), Y, pad(rng, 5))))
            it.append(("z", "paren", "; %s%s(%s%s)\n" % (Y, pad(rng, d), pad(rng, d2), Y) + Z_HEAD + "p 300 IN TXT ( a ( b )\n"))
            it.append(("z", "paren", "; %s%s)%s%s\n" % (Y, pad(rng, d), pad(rng, d2), Y) + Z_HEAD + "p 300 IN TXT a ) b\n"))
            it.append(("z", "quote", Z_HEAD + "q 300 IN TXT \"%s%s%s%s\n" % (pad(rng, d), X, pad(rng, d2), Y)))
            out += it if tier != "quick" else it[:2] + [e for j, e in enumerate(it[2:]) if (j + d) % 3 == 0]
    words = ["münchen", "köln", "düsseldorf", "österreich", "zürich", "büro", "café", "日本語", "中文网",
             "россия", "\U0001F600\U0001F600", "naïve", "€€€", "lan", "host", "printer", "www"]
    nreal = 30 if tier == "quick" else 4000
    for _ in range(nreal):
        ws = [rng.choice(words) for _ in range(rng.randint(1, 6))]
        out.append(("h", "realistic", ("# " + " ".join(rng.choice(words) for _ in range(rng.randint(0, 5))) + "\n" if rng.random() < 0.5 else "")
                    + H_HEAD + "10.0.0.%d %s\n" % (rng.randint(1, 254), " ".join(w + ".lan" for w in ws))))
        out.append(("z", "realistic", ("; " + " ".join(rng.choice(words) for _ in range(rng.randint(0, 5))) + "\n" if rng.random() < 0.5 else "")
                    + Z_HEAD + "%s 300 IN TXT %s\n" % (rng.choice(["txt", rng.choice(words)]), " ".join(ws))))
    # text that is wrong without any non-ASCII character
    for t in ["www 300 IN A 10.0.0.1 )\n", "www 300 IN A ( 10.0.0.1\n", "( (\n", ")\n", "(", "www 300 IN TXT \"abc\n", "\"", "www 300 IN TXT \\",
              "www 300 IN TXT \\25", "$INCLUDE x\n", "\x00\n", "www.example.com. 300 IN A 1.2.3.4 \x00\n", "a b c\n", "\ufeff" + Z_HEAD]:
        out.append(("z", "ascii-bad", t))
    for t in ["999.1.1.1 h\n", "1.2.3.4 a..b\n", "zzz h\n", "\x00 h\n", "1.2.3.4 " + "a" * 64 + "\n", "\ufeff" + H_HEAD, "1.2.3.4 a\ré\n"]:
        out.append(("h", "ascii-bad", t))
    # mutated files
    from . import p_c14
    nmut = 40 if tier == "quick" else 6000
    for _ in range(nmut):
        g = zg.Gen(rng, nasty=rng.choice([0.0, 0.2]))
        t = mutate(rng, zg.render(rng, g.file(), zg.STYLE_RICH))
        out.append(("z", "mutated", inject(rng, t)))
        out.append(("h", "mutated", inject(rng, hmutate(rng, p_c14.rand_file(rng, 0.2)))))
    # binary garbage
    ngarb = 30 if tier == "quick" else 2000
    for _ in range(ngarb):
        n = rng.choice([1, 2, 3, 8, 33, 200, 5000])
        raw = bytes(rng.randrange(256) for _ in range(n))
        if rng.random() < 0.5:
            raw = rng.choice([Z_HEAD, H_HEAD]).encode() + raw
        out.append((rng.choice("zh"), "binary", raw))
    for raw in [b"\xff", b"\xc3", b"\xe4\xb8", b"\xf0\x9f\x98", b"\xed\xa0\x80", b"\xc0\xaf", b"\xf4\x90\x80\x80", Z_HEAD.encode() + b"\x80",
                "t 300 IN TXT 中文".encode()[:-1], b"\xef\xbb\xbf", b"\xff\xfe1\x00"]:
        out.append(("z", "binary", raw))
        out.append(("h", "binary", raw))
    # one larger file of each role (lines kept short: the hosts model is quadratic in the line length)
    body = "".join("; %s %s %s\n" % (rng.choice(words), pad(rng, rng.randint(0, 40)), rng.choice(words)) for _ in range(1500))
    out.append(("z", "large", body + Z_HEAD + "t 300 IN TXT " + "日本語のテキスト\n"))
    out.append(("h", "large", body.replace(";", "#") + H_HEAD + "10.0.0.9 düsseldorf.lan österreich.lan\n"))
    return out


def inject(rng, t):
    """sprinkle multi-byte characters over a text"""
    for _ in range(rng.choice([0, 1, 2, 4, 8])):
        i = rng.randint(0, len(t))
        t = t[:i] + rng.choice(MB_CHARS[rng.choice((2, 3, 4))]) + t[i:]
    return t


def loader_case(cg, role, obj, placement, tag):
    goodz = cg.ZoneFile(("example", "com"), (1, 300), [(False, ("www", "example", "com"), cg.A, 300, ("a", 1))])
    goodh = cg.HostsFile([(("h1",), "a", 0x0A000001)])
    zexp, zdirs, hexp, hdirs = [], [], [], []
    exp, dirs, good, ext = (zexp, zdirs, goodz, "zone") if role == "z" else (hexp, hdirs, goodh, "hosts")
    if placement == 0:
        exp.append(("bad." + ext, obj))
    elif placement == 1:
        exp += [("good." + ext, good), ("bad." + ext, obj)]
        (hexp if role == "z" else zexp).append(("other", goodh if role == "z" else goodz))
    elif placement == 2:
        dirs.append((role + "d", [("10." + ext, good), ("9." + ext, obj)]))
    else:
        dirs.append((role + "d", [("a." + ext, obj), ("sub.d", "S")]))
        exp.append(("good." + ext, good))
    qs = [((), cg.SOA), (("www", "example", "com"), cg.A), (("h1",), cg.A)]
    return cg.assemble_fixed(zexp, zdirs, hexp, hdirs, qs, tag)


def extra_loader(ctx, fails, info):
    from . import configgen as cg
    tier = ctx["tier"]
    rng = ctx["rng"]
    texts = loader_texts(rng, tier)
    # which texts do the parser models reject?
    plines, pidx = {"z": [], "h": []}, {"z": [], "h": []}
    for i, (role, fam, t) in enumerate(texts):
        if isinstance(t, bytes):
            try:
                t = t.decode("utf-8")
                texts[i] = (role, fam, t)
            except UnicodeDecodeError:
                continue
        plines[role].append(("zonefile P %s loader" if role == "z" else "hosts P %s") % tok.text(t))
        pidx[role].append(i)
    verdict = {}
    for role, drv in (("z", "zonefile"), ("h", "hosts")):
        outs = run_all(core.model_driver_path(drv), plines[role], ctx["run_dir"], "c17loader-parse-" + role, 8)
        for i, o in zip(pidx[role], outs):
            verdict[i] = o
    cases, meta = [], []
    st = {"bad_files": 0, "valid_texts_not_used": 0, "parser_model_trouble": 0, "families": {}}
    for i, (role, fam, t) in enumerate(texts):
        if isinstance(t, bytes):
            obj = cg.BadFile("b", t)
        else:
            v = verdict.get(i, "?")
            if v.startswith("Ok:"):
                st["valid_texts_not_used"] += 1        # the config model needs the data of a valid file; C12 covers those
                continue
            if not v.startswith("Err:"):
                st["parser_model_trouble"] += 1
                fails.append(core.Failure("parser-model", "the parser model gave neither Ok nor Err: %s" % core.trunc(v, 100),
                                          plines[role][pidx[role].index(i)], None, v, found_input=False))
                continue
            obj = cg.BadFile("g", t.encode("utf-8"))
        st["bad_files"] += 1
        cases.append(loader_case(cg, role, obj, len(cases) % 4, "c17-%s-%s:none" % (role, fam)))
        meta.append((role, fam, "none"))
    # empty files, a directory where a file should be, a missing file
    ap, nq = cg.DUMP_APEXES, [((), cg.SOA)]
    emptyz = type("E", (), {"content": staticmethod(lambda: "Z-@-@_%-")})
    emptyh = type("E", (), {"content": staticmethod(lambda: "H_%-")})
    wsz = type("E", (), {"content": staticmethod(lambda: "Z-@-@_%" + " \n\t\n; c\n\n".encode().hex())})
    wsh = type("E", (), {"content": staticmethod(lambda: "H_%" + " \n\t\n# c\n\n".encode().hex())})
    # the hosts parser under the loader: one line of 10^5 names (valid; and ended by a non-ASCII character, bad by construction --
    # the hosts model is not asked, it is quadratic in the line)
    manyh = cg.HostsFile([(("a",), "a", 0x01020304)])
    many_ok = type("E", (), {"content": staticmethod(lambda: manyh.data() + "%" + ("1.2.3.4" + " a" * 100000 + "\n").encode().hex())})
    many_bad = cg.BadFile("g", ("1.2.3.4" + " a" * 100000 + " \u00e9\n").encode())
    for tag, z, zd, a, ad, files, dirs, want in [
            ("hosts-line-of-100000-names", [], [], ["m.hosts"], [], [("m.hosts", many_ok)], [], "some"),
            ("hosts-line-of-100000-names-then-non-ascii", [], [], [], ["hd"], [], [("hd", [("m.hosts", many_bad)])], "none"),
            ("empty-zone", ["e.zone"], [], [], [], [("e.zone", emptyz)], [], "some"),
            ("empty-hosts", [], [], ["e.hosts"], [], [("e.hosts", emptyh)], [], "some"),
            ("empty-both-in-dirs", [], ["zd"], [], ["hd"], [], [("zd", [("a", emptyz), ("b", wsz)]), ("hd", [("a", emptyh), ("b", wsh)])], "some"),
            ("blank-zone", ["e.zone"], [], ["e.hosts"], [], [("e.zone", wsz), ("e.hosts", wsh)], [], "some"),
            ("dir-as-zone-file", ["zd"], [], [], [], [], [("zd", [])], "none"),
            ("dir-as-hosts-file", [], [], ["hd"], [], [], [("hd", [("a", emptyh)])], "none"),
            ("dir-as-file-twice", ["d", "d"], [], ["d"], [], [], [("d", [])], "none"),
            ("file-as-zone-dir", [], ["e.zone"], [], [], [("e.zone", emptyz)], [], "none"),
            ("file-as-hosts-dir", [], [], [], ["e.hosts"], [("e.hosts", emptyh)], [], "none"),
            ("missing-zone-file", ["gone"], [], [], [], [], [], "none"),
            ("missing-hosts-file", [], [], ["gone"], [], [], [], "none"),
            ("dangling-links", [], ["zd"], [], ["hd"], [], [("zd", [("x", cg.BadFile("m"))]), ("hd", [("x", cg.BadFile("m"))])], "none"),
            ("nothing", [], [], [], [], [], [], "some")]:
        cases.append(cg.load_case(cg.args_tok(z, zd, a, ad), cg.fs_tok(files, dirs), ap, nq, "c17-fs-%s:%s" % (tag, want)))
        meta.append(("fs", tag, want))
    env = {"VERIF_CASE_STACK": str(2 << 20), "VERIF_CONFIG_SCRATCH": os.path.join(ctx["run_dir"], "c17-config-scratch")}
    mouts = run_all(core.model_driver_path("config"), cases, ctx["run_dir"], "c17loader-model", 4)
    iouts = run_all(core.impl_driver_path("config"), cases, ctx["run_dir"], "c17loader-impl", 8, env=env)
    dis = 0
    for c, (role, fam, want), mo, io in zip(cases, meta, mouts, iouts):
        key = "%s %s -> %s" % (role, fam, io.split(" ")[0] if crashed(io) or io == "None" else "Some")
        st["families"][key] = st["families"].get(key, 0) + 1
        if crashed(io):
            fails.append(core.Failure("loader-crash", "load_zone_configuration did not return on a %s (%s): %s instead of %s"
                                      % ({"z": "bad zone file", "h": "bad hosts file", "fs": "file-system case"}[role], fam, core.trunc(io, 80),
                                         "None" if want == "none" else "a configuration"), c, core.trunc(io, 200), core.trunc(mo, 200)))
        elif want == "none" and io != "None":
            fails.append(core.Failure("loader-bad-file-accepted", "an unreadable / unparsable %s file (%s) did not make load_zone_configuration return None"
                                      % (role, fam), c, core.trunc(io, 200), core.trunc(mo, 200)))
        elif want == "some" and io == "None":
            fails.append(core.Failure("loader-good-config-rejected", "load_zone_configuration returned None for %s" % fam, c, io, core.trunc(mo, 200)))
        elif mo != io:
            dis += 1
            if dis <= 3:
                fails.append(core.Failure("loader-correspondence", "config model and load_zone_configuration disagree (%s %s)" % (role, fam), c,
                                          core.trunc(io, 300), core.trunc(mo, 300), found_input=False))
    st["cases"] = len(cases)
    st["disagreements"] = dis
    info["loader"] = st
    return len(cases), len(set(cases))


def extra(ctx):
    import time
    fails, info = [], {}
    for what, name in (("model", "hosts"), ("impl", "hosts"), ("model", "config"), ("impl", "config")):
        f = core.build_model_driver if what == "model" else core.build_impl_driver
        ok, out = f(name)
        if not ok:
            return ([core.Failure("c17-driver-build", "%s driver of the %s stream failed to build: %s" % (what, name, core.trunc(out[-800:], 800)),
                                  found_input=False)], {})
    t0 = time.time()
    n1, d1 = extra_hosts(ctx, fails, info)
    info["hosts"]["wall_s"] = round(time.time() - t0, 1)
    t0 = time.time()
    n2, d2 = extra_loader(ctx, fails, info)
    info["loader"]["wall_s"] = round(time.time() - t0, 1)
    info["evaluations"] = n1 + n2
    info["distinct_nontrivial"] = d1 + d2
    return fails, info
